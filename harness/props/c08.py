"""C08 -- SMT-LIB import never misreads.

S (independent of the parser model): an independent generator writes SMT-LIB scripts in
syntactic variants the printer never emits, together with the *intended meaning* of every
command argument (built directly, by the generator, from primitive constructors in a
separate environment; cross-checked against the Lean standard reader `Std.readStd` through
the C08 driver whenever that reader accepts the text).  Wherever the implementation accepts,
every returned term must be semantically equal to the intended one under sampled
interpretations (`chk_equiv` of the shared Sem driver).  Malformed variants must be rejected
with an error.  Every file of the offline benchmark corpus must still be accepted.
Dedicated streams (run first, small): simultaneous lets that rebind names with an outer meaning (`build_simlet_script`,
`LET_WITNESSES`), the 3-4 argument forms of the chainable / associative / pairwise operators with the standard's expansion as
meaning (`build_nary_script`: accepted => same meaning, else rejected), one undeclared name in every position of every
term-carrying command, bare or under `!` annotations, with its declared-name control (`undeclared_case`); command SEQUENCES
read by one parser object through `get_command_generator` (`run_command_sequences`): declarations, a command rejected while a
binder of a name is open after sibling binders of the same name were closed (let / quantifier / define-fun parameter mixes,
nesting), then valid probes mentioning the name -- read as the text says and as a fresh parser reads them; chains of
definitions with equally named and sorted parameters applied to each other's parameters in another order
(`build_defchain_script`).

K: the implementation's `get_script` result (wire encoding of every command argument) against
the Lean model `Impl.Parser` (driver request `pread <hex text>`), literal comparison after
renaming the fresh formals of definitions.
"""
import bz2
import glob
import io
import os
import warnings
from fractions import Fraction

from pysmt.environment import Environment
from pysmt.exceptions import PysmtTypeError
from pysmt.smtlib.parser import SmtLibParser

import common
import semantic
import wire

LEAN_MODULES = ["PySMT.Props.C08"]
RULE = ("independently generated SMT-LIB scripts (nested/parallel/shadowing let, binders reusing declared and defined "
        "names, chainable =/<, n-ary -, distinct, numerals vs decimals under LIA/LRA/LIRA/no logic, #x/#b/(_ bvN w), all "
        "indexed operators, define-fun with parameters, define-sort, comments, |quoted| names, annotations, push/pop "
        "around declarations, (as x sort)) with generator-built intended meanings; a dedicated stream of simultaneous lets "
        "(2-3 bindings all rebinding names with an outer meaning -- declared, defined, let-, quantifier- or parameter-bound "
        "--: swaps, rotations, later bindings mentioning earlier-rebound names; at the top, nested, in quantifiers and "
        "definitions); a dedicated stream of the 3-4 argument forms of every :chainable/:left-assoc/:right-assoc/:pairwise "
        "operator with the standard's expansion as meaning (accepted => same meaning, else rejected); a case is non-trivial "
        "when the script contains at least one term-carrying command (assert/define-fun/get-value/check-sat-assuming) "
        "that is not a bare literal; distinct = distinct script texts.  Malformed stream: one seeded defect per script; "
        "undeclared-name stream: one undeclared name (bare or under ! annotations) in a String/Int/Bool/Real/BV/Array "
        "position of every term-carrying command, with the declared-name control.  Command-sequence stream: one parser object "
        "reads declarations, one rejected command (sibling binders of one name closed, then one open at the failure), then "
        "valid probes.  Definition-chain stream: 2-4 definitions with equally named and sorted parameters, the later ones applying the "
        "earlier ones to their parameters in another order or to compound terms over them.  Formula-routes stream: scripts of "
        "declarations, small assertions, (push n) / (pop n) with n in 0..2 and check-sat, read through the formula-level public "
        "routes (get_last_formula, get_formula, get_formula_fname(strict=False), get_formula_strict / read_smtlib without push/pop): "
        "the formula returned must mean the conjunction of the assertions in force at the end (generator's own stack; Lean runStd).")
ASSUMPTIONS = [
    "arrays: finitely supported interpretations only; reals are rationals",
    "interpretations under which a division by zero is evaluated are skipped",
    "quantifiers over Int/Real are compared over sampled finite non-empty domains",
    "symbol names never spell a literal, a reserved word or a theory symbol; the empty symbol || and the symbols "
    "|(| and |)| are not generated",
    "OMT extension commands are outside the standard: their term arguments are compared with the generator's reading only",
]

# ------------------------------------------------------------------------------------------
# types of the generator (independent of any pysmt environment)
B, I, R, S = ("B",), ("I",), ("R",), ("S",)


def V(w):
    return ("V", w)


def A(i, e):
    return ("A", i, e)


def U(n):
    return ("U", n)


def is_num(t):
    return t in (I, R)


class Entry:
    __slots__ = ("kind", "ty", "data")

    def __init__(self, kind, ty, data):
        self.kind = kind        # sym | fun | let | param | def
        self.ty = ty            # result type
        self.data = data


class Rejectable(Exception):
    pass


RESERVED = {
    "let", "forall", "exists", "!", "_", "as", "par", "match", "true", "false", "not", "and", "or", "xor", "=>", "=",
    "distinct", "ite", "+", "-", "*", "/", "div", "mod", "abs", "<", "<=", ">", ">=", "to_real", "to_int", "is_int",
    "select", "store", "concat", "extract", "Int", "Real", "Bool", "String", "Array", "BitVec", "pow", "const",
    "BINARY", "DECIMAL", "HEXADECIMAL", "NUMERAL", "STRING",
}

SIMPLE_NAMES = ["x", "y", "z", "p", "q", "r", "u", "v", "a", "b", "c", "f", "g", "h", "s", "t", "k", "n", "m", "w",
                "y_2", "foo", "bar!", "a.b", "?v", "$t", "@c", "~n", "x-y", "k+1", "<w>", "t%", "e^2", "&r"]
QUOTED_NAMES = ["a b", "x y z", "1x", "a;b", "a\"b", "new\nline", "(p)", "a,b", "x'", "#q", ":k", "a[0]", "{c}",
                "tab\there"]


def _is_simple(name):
    import re
    return re.match(r"^[~!@\$%\^&\*_\-+=<>\.\?\/A-Za-z][~!@\$%\^&\*_\-+=<>\.\?\/A-Za-z0-9]*$", name) is not None


class ScriptGen:
    """One generated script: text, expected command list (with denotations), tags."""

    def __init__(self, rng, profile="std"):
        self.rng = rng
        self.profile = profile
        self.env = Environment()                 # meaning side only
        self.m = self.env.formula_manager
        self.tm = self.env.type_manager
        self.tags = set()
        self.may_reject = set()                  # constructs the parser rejects today (rejection allowed)
        self.capture_prone = False               # a defined-function call whose argument mentions a name bound in the body
        self.sugar = False                       # Int literal where a Real is expected (Reals_Ints sugar): strict readers reject
        self.nonstd = False                      # text outside strict SMT-LIB (the Lean reader is not consulted)
        self.uid = 0
        self.scope = {}                          # name -> Entry (global level)
        self.sorts = {}                          # declared sort name -> arity
        self.sort_alias = {}                     # defined sort name -> type
        self.cmds = []                           # (sexp, expected)
        self.fresh_named = 0
        self.global_types = {}                   # name -> type of every symbol the parser's environment has seen
        r = rng
        self.theories = set(["bool"])
        pick = r.random()
        if pick < 0.30:
            self.theories |= {"int"}
        elif pick < 0.45:
            self.theories |= {"real"}
        elif pick < 0.65:
            self.theories |= {"int", "real"}
        elif pick < 0.85:
            self.theories |= {"bv"}
        else:
            self.theories |= {"int", "bv"}
        if r.random() < 0.35:
            self.theories.add("uf")
        if r.random() < 0.3 and (self.theories & {"int", "bv"}):
            self.theories.add("arr")
        if r.random() < 0.12 and "int" in self.theories:
            self.theories.add("str")
        self.quant = r.random() < 0.5
        self.logic = self._pick_logic()
        # numerals denote Reals in logics with Reals only
        self.numeral_is_real = self.logic in ("QF_LRA", "LRA", "QF_UFLRA")

    # ------------------------------------------------------------------ misc
    def _pick_logic(self):
        t = self.theories
        r = self.rng
        if r.random() < 0.35:
            return None
        if "str" in t:
            return None
        q = self.quant
        uf = "uf" in t
        arr = "arr" in t
        if "bv" in t and "int" in t:
            return None
        if "bv" in t:
            if q:
                return "UFBV" if uf else "BV"
            if arr:
                return "QF_AUFBV" if uf else "QF_ABV"
            return "QF_UFBV" if uf else "QF_BV"
        if "int" in t and "real" in t:
            if q or arr:
                return "AUFLIRA"
            return "QF_UFLIRA" if (uf or r.random() < 0.5) else "QF_LIRA"
        if "int" in t:
            if arr:
                return "AUFLIA" if q else ("QF_AUFLIA" if uf else "QF_ALIA")
            if q:
                return r.choice(["UFLIA", "ALL"]) if uf else "LIA"
            return "QF_UFLIA" if uf else r.choice(["QF_LIA", "QF_NIA"])
        if "real" in t:
            if arr:
                return None
            if q:
                return "UFLRA" if uf else "LRA"
            return "QF_UFLRA" if uf else "QF_LRA"
        return "QF_UF" if not q else None

    def new_uid(self):
        self.uid += 1
        return self.uid

    def ptype(self, t):
        if t == B:
            return self.tm.BOOL()
        if t == I:
            return self.tm.INT()
        if t == R:
            return self.tm.REAL()
        if t == S:
            return self.tm.STRING()
        if t[0] == "V":
            return self.tm.BVType(t[1])
        if t[0] == "A":
            return self.tm.ArrayType(self.ptype(t[1]), self.ptype(t[2]))
        if t[0] == "U":
            return self.tm.Type(t[1], 0)
        raise ValueError(t)

    def msym(self, name, t, fn_params=None):
        """symbol of the meaning environment; alpha-renamed when the name is taken with another type"""
        pt = self.ptype(t)
        if fn_params:
            pt = self.tm.FunctionType(pt, [self.ptype(x) for x in fn_params])
        n = name
        k = 0
        while True:
            try:
                return self.m.Symbol(n, pt)
            except PysmtTypeError:
                k += 1
                n = "%s!%d" % (name, k)

    def symtok(self, name):
        """spelling of the symbol `name`"""
        if not _is_simple(name) or name in ("Int", "Real", "Bool"):
            return "|" + name + "|"
        if self.rng.random() < 0.07:
            self.tags.add("quoted-simple-name")
            return "|" + name + "|"
        return name

    def sort_sx(self, t):
        r = self.rng
        for al, ty in self.sort_alias.items():
            if ty == t and r.random() < 0.5:
                self.tags.add("define-sort-use")
                return self.symtok(al)
        if t == B:
            return "Bool"
        if t == I:
            return "Int"
        if t == R:
            return "Real"
        if t == S:
            return "String"
        if t[0] == "V":
            return ["_", "BitVec", str(t[1])]
        if t[0] == "A":
            return ["Array", self.sort_sx(t[1]), self.sort_sx(t[2])]
        if t[0] == "U":
            return self.symtok(t[1])
        raise ValueError(t)

    # ------------------------------------------------------------------ names
    def fresh_name(self, scope, avoid=()):
        r = self.rng
        for _ in range(50):
            if r.random() < 0.15:
                n = r.choice(QUOTED_NAMES)
                self.tags.add("quoted-name")
            else:
                n = r.choice(SIMPLE_NAMES)
            if n not in scope and n not in self.scope and n not in RESERVED and n not in avoid \
                    and n not in self.sorts and n not in self.sort_alias:
                return n
        n = "v%d" % self.new_uid()
        return n

    def binder_name(self, scope, avoid):
        """name for a let/quantifier/parameter binder: often one that already means something"""
        r = self.rng
        cands = [n for n in scope if n not in avoid]
        if cands and r.random() < 0.6:
            n = r.choice(cands)
            self.tags.add("binder-reuses-%s" % scope[n].kind)
            return n
        return self.fresh_name(scope, avoid)

    # ------------------------------------------------------------------ types available
    def value_types(self):
        t = [B]
        th = self.theories
        if "int" in th:
            t.append(I)
        if "real" in th:
            t.append(R)
        if "bv" in th:
            t += [V(1), V(2), V(4), V(8)]
        if "str" in th:
            t.append(S)
        for n, ar in self.sorts.items():
            if ar == 0:
                t.append(U(n))
        if "arr" in th:
            if "int" in th:
                t.append(A(I, I))
                if "real" in th:
                    t.append(A(I, R))
            if "bv" in th:
                t.append(A(V(2), B))
                t.append(A(V(2), V(4)))
        return t

    def bindable_types(self):
        """types of quantified variables"""
        # bit-vector binders only at widths 1 and 2: the semantic oracle enumerates the whole domain
        return [t for t in self.value_types() if t[0] not in ("A", "S") and not (t[0] == "V" and t[1] > 2)]

    # ------------------------------------------------------------------ literals
    def lit(self, t):
        """-> (sexp, den)"""
        r, m = self.rng, self.m
        if t == B:
            v = r.random() < 0.5
            return ("true" if v else "false"), (lambda pe, v=v: m.Bool(v))
        if t == I:
            n = r.choice([0, 1, 2, 3, 7, 10, 255, 2 ** 31, 10 ** 20 + 1]) if r.random() < 0.8 else r.randint(0, 40)
            if r.random() < 0.35 and n > 0:
                self.tags.add("negative-literal")
                return ["-", str(n)], (lambda pe, n=n: m.Int(-n))
            return str(n), (lambda pe, n=n: m.Int(n))
        if t == R:
            k = r.random()
            if k < 0.45 or self.numeral_is_real and k < 0.6:
                # decimal (or numeral in a Reals-only logic)
                whole = r.choice([0, 1, 2, 3, 10, 150])
                frac = r.choice(["0", "5", "50", "25", "125", "000", "75", "05"])
                if self.numeral_is_real and r.random() < 0.5:
                    self.tags.add("numeral-as-real")
                    sx, val = str(whole), Fraction(whole)
                else:
                    self.tags.add("decimal")
                    sx, val = "%d.%s" % (whole, frac), Fraction("%d.%s" % (whole, frac))
            elif k < 0.75:
                # (/ a b) of literals
                a, b = r.choice([1, 2, 3, 7, 10]), r.choice([1, 2, 3, 4, 8])
                self.tags.add("rational-literal")
                if self.numeral_is_real and r.random() < 0.5:
                    sx = ["/", str(a), str(b)]
                else:
                    sx = ["/", "%d.0" % a, "%d.0" % b]
                val = Fraction(a, b)
            else:
                if self.numeral_is_real or "int" not in self.theories:
                    n = r.choice([0, 1, 2, 5])
                    sx, val = (str(n) if self.numeral_is_real else "%d.0" % n), Fraction(n)
                else:
                    n = r.choice([0, 1, 2, 5])
                    sx, val = "%d.0" % n, Fraction(n)
            if r.random() < 0.3 and val != 0:
                self.tags.add("negative-literal")
                return ["-", sx], (lambda pe, val=val: m.Real(-val))
            return sx, (lambda pe, val=val: m.Real(val))
        if t == S:
            s = r.choice(["", "a", "ab", "a\"b", "x y", "0", "(", ";c", "|b|", "12"])
            return wire_strlit(s), (lambda pe, s=s: m.String(s))
        if t[0] == "V":
            w = t[1]
            n = r.choice([0, 1, (1 << w) - 1, 1 << (w - 1), 5 % (1 << w)]) if r.random() < 0.6 else r.randrange(1 << w)
            k = r.random()
            if k < 0.4:
                sx = "#b" + format(n, "0%db" % w)
                self.tags.add("lit-#b")
            elif k < 0.7 and w % 4 == 0:
                h = format(n, "0%dx" % (w // 4))
                h = "".join(c.upper() if r.random() < 0.5 else c for c in h)
                sx = "#x" + h
                self.tags.add("lit-#x")
            else:
                sx = ["_", "bv%d" % n, str(w)]
                self.tags.add("lit-bvN")
            return sx, (lambda pe, n=n, w=w: m.BV(n, w))
        if t[0] == "A":
            sx_v, d_v = self.lit(t[2])
            self.tags.add("as-const")
            pt_idx = self.ptype(t[1])
            return [["as", "const", self.sort_sx(t)], sx_v], (lambda pe, d_v=d_v, pt_idx=pt_idx: m.Array(pt_idx, d_v(pe)))
        return None, None

    # ------------------------------------------------------------------ leaves
    def name_den(self, name, e):
        m = self.m
        if e.kind == "sym":
            return lambda pe, s=e.data: s
        if e.kind == "let":
            return e.data
        if e.kind == "param":
            return lambda pe, u=e.data: pe[u]
        if e.kind == "def":           # 0-ary definition
            body = e.data[1]
            return lambda pe, body=body: body({})
        raise ValueError(e.kind)

    def leaf(self, t, scope):
        r = self.rng
        cands = [n for n, e in scope.items() if e.ty == t and (e.kind in ("sym", "let", "param") or
                                                                (e.kind == "def" and not e.data[0]))]
        if cands and r.random() < 0.7:
            n = r.choice(cands)
            e = scope[n]
            if e.kind == "def":
                self.tags.add("use-define-fun-0")
            if e.kind == "sym" and self.scope.get(n) is e and r.random() < 0.04:
                # qualified identifier of a declared constant that no binder shadows here
                self.tags.add("as-qualified")
                return ["as", self.symtok(n), self.sort_sx(t)], self.name_den(n, e)
            return self.symtok(n), self.name_den(n, e)
        sx, d = self.lit(t)
        if sx is None:
            if cands:
                n = r.choice(cands)
                return self.symtok(n), self.name_den(n, scope[n])
            raise Rejectable("no leaf of type %r" % (t,))
        return sx, d

    # ------------------------------------------------------------------ terms
    def gen(self, t, depth, scope):
        r = self.rng
        if depth <= 0 or r.random() < 0.1:
            return self.leaf(t, scope)
        k = r.random()
        if k < 0.10:
            return self.gen_let(t, depth, scope)
        if k < 0.14:
            return self.gen_annot(t, depth, scope)
        if k < 0.22:
            res = self.gen_call(t, depth, scope)
            if res is not None:
                return res
        if k < 0.30:
            return self.gen_ite(t, depth, scope)
        for _ in range(6):
            res = self.gen_op(t, depth, scope)
            if res is not None:
                return res
        return self.leaf(t, scope)

    def gen_ite(self, t, depth, scope):
        m = self.m
        c, dc = self.gen(B, depth - 1, scope)
        a, da = self.gen(t, depth - 1, scope)
        b, db = self.gen(t, depth - 1, scope)
        self.tags.add("ite")
        return ["ite", c, a, b], (lambda pe: m.Ite(dc(pe), da(pe), db(pe)))

    def gen_annot(self, t, depth, scope):
        r = self.rng
        a, da = self.gen(t, depth - 1, scope)
        attrs = []
        for _ in range(r.choice([1, 1, 2])):
            if r.random() < 0.7:
                self.fresh_named += 1
                attrs += [":named", "nm!%d" % self.fresh_named]
            elif r.random() < 0.5:
                attrs += [":weight", str(r.randint(0, 9))]
            else:
                # attribute values are opaque text for the parser: written flat (no comments inside)
                if not isinstance(a, str) and '"' not in render(r, [a], False) and ";" not in render(r, [a], False):
                    # (the parser counts the parentheses of an attribute value character by character: a string literal
                    #  or quoted symbol containing a parenthesis makes it lose track -- rejected with an error)
                    attrs += [":pattern", render(r, [a], False)]
                elif not isinstance(a, str):
                    attrs += [":weight", "2"]
                elif "|" not in a and '"' not in a:
                    # (a quoted symbol as attribute value loses its bars in pySMT's annotation table: P03)
                    attrs += [":no-pattern", a]
                else:
                    attrs += [":weight", "1"]
        self.tags.add("annotation")
        return ["!", a] + attrs, da

    def gen_let(self, t, depth, scope, body_fn=None):
        r = self.rng
        nb = r.choice([1, 1, 2, 2, 3])
        names, binds, new = [], [], dict(scope)
        types = self.value_types()
        for _ in range(nb):
            n = self.binder_name(scope, names)
            bt = r.choice(types) if r.random() < 0.6 else t
            # bind preferably something mentioning names that are rebound by this very let
            sx, d = self.gen(bt, depth - 1, scope)
            names.append(n)
            binds.append([self.symtok(n), sx])
            new[n] = Entry("let", bt, d)
        if nb >= 2:
            self.tags.add("let-parallel")
        if any(n in scope for n in names):
            self.tags.add("let-shadowing")
        body, db = body_fn(new) if body_fn else self.gen(t, depth - 1, new)
        self.tags.add("let")
        return ["let", binds, body], db

    def gen_quant(self, depth, scope, body_fn=None):
        r, m = self.rng, self.m
        nb = r.choice([1, 1, 2, 3])
        names, vs, new = [], [], dict(scope)
        bts = self.bindable_types()
        binders = []
        for _ in range(nb):
            n = self.binder_name(scope, names)
            bt = r.choice(bts)
            # every binder occurrence has its own symbol on the meaning side: the expansion of a let variable bound outside
            # (mentioning an outer variable, or a declared symbol, of the same name and sort) is not captured by this binder
            s = self.msym("%s!b%d" % (n, self.new_uid()), bt)
            self.global_types.setdefault(n, bt)
            names.append(n)
            vs.append(s)
            binders.append([self.symtok(n), self.sort_sx(bt)])
            new[n] = Entry("sym", bt, s)
        body, db = body_fn(new) if body_fn else self.gen(B, depth - 1, new)
        # make a bound variable occur
        if not body_fn and r.random() < 0.7:
            n = r.choice(names)
            e = new[n]
            if e.ty == B:
                occ, docc = self.symtok(n), self.name_den(n, e)
            else:
                o2, d2 = self.gen(e.ty, max(depth - 2, 0), new)
                dn = self.name_den(n, e)
                occ, docc = ["=", self.symtok(n), o2], (lambda pe, dn=dn, d2=d2: m.Equals(dn(pe), d2(pe)))
            if r.random() < 0.5:
                body, db = ["and", body, occ], (lambda pe, db=db, docc=docc: m.And(db(pe), docc(pe)))
            else:
                body, db = ["or", occ, body], (lambda pe, db=db, docc=docc: m.Or(docc(pe), db(pe)))
        q = r.choice(["forall", "exists"])
        self.tags.add("quantifier")
        if len(set(names)) < len(names):
            self.tags.add("binder-repeated")
        Q = m.ForAll if q == "forall" else m.Exists
        return [q, binders, body], (lambda pe: Q(vs, db(pe)))

    # ------------------------------------------------------------------ simultaneous let (dedicated stream)
    def ap(self, o, *args):
        """application of a theory operator to generated (sexp, den) pairs; denotation from primitive constructors"""
        m = self.m
        F = {
            "not": m.Not, "and": lambda *a: m.And(list(a)), "or": lambda *a: m.Or(list(a)), "=>": m.Implies,
            "xor": lambda x, y: m.Not(m.Iff(x, y)), "iff": m.Iff, "eq": m.Equals, "ite": m.Ite,
            "+": lambda *a: m.Plus(list(a)), "-": m.Minus, "*": lambda *a: m.Times(list(a)),
            "<": m.LT, "<=": m.LE, ">": lambda x, y: m.LT(y, x), ">=": lambda x, y: m.LE(y, x),
            "bvnot": m.BVNot, "bvneg": m.BVNeg, "bvadd": m.BVAdd, "bvsub": m.BVSub, "bvxor": m.BVXor, "bvand": m.BVAnd,
            "bvult": m.BVULT, "bvule": m.BVULE, "bvslt": m.BVSLT,
        }[o]
        tok = {"iff": "=", "eq": "="}.get(o, o)
        return [tok] + [a[0] for a in args], (lambda pe, args=args, F=F: F(*[a[1](pe) for a in args]))

    def around(self, n, depth, scope):
        """a term of `scope` that mentions the name n -> (sexp, den, type)"""
        r = self.rng
        e = scope[n]
        ty = e.ty
        base = (self.symtok(n), self.name_den(n, e))
        if depth <= 0 or r.random() < 0.3:
            return base[0], base[1], ty
        d = max(depth - 1, 0)
        other = lambda: self.gen(ty, d, scope)
        if ty == B:
            o = r.choice(["not", "and", "or", "=>", "=>r", "xor", "ite"])
            if o == "not":
                sx, dn = self.ap("not", base)
            elif o == "=>r":
                sx, dn = self.ap("=>", other(), base)
            elif o == "ite":
                sx, dn = self.ap("ite", base, other(), other())
            else:
                sx, dn = self.ap(o, base, other())
            return sx, dn, B
        if is_num(ty):
            o = r.choice(["+", "-", "-r", "*", "<", "<=", ">", ">=", "ite"])
            if o in ("<", "<=", ">", ">="):
                sx, dn = self.ap(o, base, other())
                return sx, dn, B
            if o == "*":
                sx, dn = self.ap("*", self.lit(ty), base)
            elif o == "-r":
                sx, dn = self.ap("-", other(), base)
            elif o == "ite":
                sx, dn = self.ap("ite", self.gen(B, d, scope), base, other())
            else:
                sx, dn = self.ap(o, base, other())
            return sx, dn, ty
        if ty[0] == "V":
            o = r.choice(["bvnot", "bvneg", "bvadd", "bvsub", "bvxor", "bvult", "bvslt", "ite"])
            if o in ("bvult", "bvslt"):
                sx, dn = self.ap(o, base, other())
                return sx, dn, B
            if o in ("bvnot", "bvneg"):
                sx, dn = self.ap(o, base)
            elif o == "ite":
                sx, dn = self.ap("ite", self.gen(B, d, scope), other(), base)
            else:
                sx, dn = self.ap(o, base, other())
            return sx, dn, ty
        if r.random() < 0.5:
            sx, dn = self.ap("eq", base, other())
            return sx, dn, B
        sx, dn = self.ap("ite", self.gen(B, d, scope), base, other())
        return sx, dn, ty

    def outer_kind(self, n, scope):
        e = scope[n]
        if e.kind == "sym" and self.scope.get(n) is not e:
            return "qvar"
        return e.kind

    def gen_simlet(self, t, depth, scope):
        """a let with 2-3 bindings ALL of which rebind names that already mean something (declared symbol, 0-ary definition,
        variable of an enclosing let / quantifier / definition), whose binding terms mention names rebound by the same let:
        swap, rotation, a later binding using an earlier-rebound name.  The bindings of an SMT-LIB let are simultaneous: every
        binding term is read in the scope OUTSIDE the let -- that is how the denotations are built here."""
        r = self.rng
        vals = [n for n, e in scope.items() if e.kind in ("sym", "let", "param") or (e.kind == "def" and not e.data[0])]
        if len(vals) < 2:
            return self.gen_let(t, depth, scope)
        # prefer names introduced by enclosing binders
        inner = [n for n in vals if self.outer_kind(n, scope) in ("let", "param", "qvar")]
        nb = min(len(vals), r.choice([2, 2, 2, 3, 3]))
        names = []
        if inner and r.random() < 0.8:
            names.append(r.choice(inner))
        while len(names) < nb:
            n = r.choice(vals)
            if n not in names:
                names.append(n)
        r.shuffle(names)
        shape = r.choice(["swap", "swap", "uses-earlier", "uses-earlier", "uses-earlier", "mixed"])
        if shape == "swap" and nb == 3:
            shape = "rotate"
        binds, new = [], dict(scope)
        for i, n in enumerate(names):
            if shape in ("swap", "rotate"):
                ref = names[(i + 1) % nb]
                bare = r.random() < 0.75
            elif shape == "uses-earlier":
                ref = names[r.randrange(i)] if i else names[0]
                bare = r.random() < 0.3
            else:
                ref = r.choice(names)
                bare = r.random() < 0.4
            if bare:
                sx, d, bt = self.symtok(ref), self.name_den(ref, scope[ref]), scope[ref].ty
            else:
                sx, d, bt = self.around(ref, depth - 1, scope)
            binds.append([self.symtok(n), sx])
            new[n] = Entry("let", bt, d)
            self.tags.add("simlet-rebinds-%s" % self.outer_kind(n, scope))
        self.tags.add("simlet-%s-%d" % (shape, nb))
        self.tags.add("let")
        self.tags.add("let-parallel")
        self.tags.add("let-shadowing")
        # the body mentions every rebound name (with its new meaning)
        atoms = []
        for n in names:
            sx, d, ty = self.around(n, depth - 1, new)
            if ty != B:
                o2 = self.gen(ty, max(depth - 2, 0), new)
                if is_num(ty) and r.random() < 0.6:
                    sx, d = self.ap(r.choice(["<", "<=", ">", ">="]), (sx, d), o2)
                else:
                    sx, d = self.ap("eq", (sx, d), o2)
            atoms.append((sx, d))
        # an asymmetric relation between two rebound names of one sort
        done = False
        for i in range(nb):
            for j in range(i + 1, nb):
                ti = new[names[i]].ty
                if ti == new[names[j]].ty and not done and (is_num(ti) or ti == B or ti[0] == "V"):
                    li = (self.symtok(names[i]), self.name_den(names[i], new[names[i]]))
                    lj = (self.symtok(names[j]), self.name_den(names[j], new[names[j]]))
                    atoms.append(self.ap("<" if is_num(ti) else ("=>" if ti == B else "bvult"), li, lj))
                    done = True
        k = r.random()
        if len(atoms) == 1:
            cond = atoms[0]
        elif k < 0.25:
            cond = self.ap("and", *atoms)
        elif k < 0.4:
            cond = self.ap("or", *atoms)
        else:
            cond = atoms[-1]
            for a in reversed(atoms[:-1]):
                cond = self.ap(r.choice(["xor", "iff"]), a, cond)
        if t == B:
            if r.random() < 0.3:
                cond = self.ap(r.choice(["=>", "xor", "and"]), cond, self.gen(B, depth - 1, new))
            return ["let", binds, cond[0]], cond[1]
        same = [n for n in names if new[n].ty == t]
        if same:
            n = r.choice(same)
            b1 = (self.symtok(n), self.name_den(n, new[n]))
        else:
            b1 = self.gen(t, depth - 1, new)
        b2 = self.gen(t, depth - 1, new)
        body = self.ap("ite", cond, b1, b2) if r.random() < 0.5 else self.ap("ite", cond, b2, b1)
        return ["let", binds, body[0]], body[1]

    def gen_call(self, t, depth, scope):
        """application of a declared or defined function returning t"""
        r, m = self.rng, self.m
        fs = [n for n, e in scope.items() if e.ty == t and ((e.kind == "fun") or (e.kind == "def" and e.data[0]))]
        if not fs:
            return None
        f = r.choice(fs)
        e = scope[f]
        if e.kind == "fun":
            fsym, ptys = e.data
            args = [self.gen(pt, depth - 1, scope) for pt in ptys]
            self.tags.add("uf-app")
            return [self.symtok(f)] + [a[0] for a in args], \
                (lambda pe, fsym=fsym, args=args: m.Function(fsym, [a[1](pe) for a in args]))
        params, body = e.data[0], e.data[1]
        bound_in_body = e.data[2]
        args = [self.gen(pt, depth - 1, scope) for (_, pt) in params]
        self.tags.add("define-fun-call")
        # capture-prone: an argument mentions (freely) a name that is bound inside the body
        if bound_in_body:
            for a in args:
                try:
                    fv = set(_text_name(s.symbol_name())
                             for s in a[1]({u: self.m.Symbol("pe!%d" % u, self.ptype(pt))
                                            for (u, pt) in self._all_params()}).get_free_variables())
                except Exception:
                    fv = set()
                if fv & bound_in_body:
                    self.capture_prone = True
        return [self.symtok(f)] + [a[0] for a in args], \
            (lambda pe, params=params, body=body, args=args: body({u: a[1](pe) for (u, _), a in zip(params, args)}))

    def _all_params(self):
        return list(getattr(self, "_params_now", []))

    # ------------------------------------------------------------------ operators
    def gen_op(self, t, depth, scope):
        r, m = self.rng, self.m
        d = depth - 1
        G = lambda ty: self.gen(ty, d, scope)
        th = self.theories
        if t == B:
            ch = ["not", "and", "or", "=>", "xor", "iff", "distinct", "eq", "and", "or"]
            if th & {"int", "real"}:
                ch += ["rel", "rel"]
            if "bv" in th:
                ch += ["bvrel", "bvrel"]
            if "str" in th:
                ch += ["strrel"]
            if self.quant:
                ch += ["quant", "quant"]
            if "arr" in th and "bv" in th:
                ch += ["select"]
            k = r.choice(ch)
            if k == "not":
                a, da = G(B)
                return ["not", a], (lambda pe: m.Not(da(pe)))
            if k in ("and", "or"):
                n = r.choice([2, 2, 3, 4]) if r.random() < 0.9 else r.choice([0, 1])
                args = [G(B) for _ in range(n)]
                self.tags.add("%s-%d" % (k, n))
                if n < 2:
                    self.nonstd = True          # accepted by every solver, but not by the letter of the standard
                F = m.And if k == "and" else m.Or
                return [k] + [a[0] for a in args], (lambda pe, args=args, F=F: F([a[1](pe) for a in args]))
            if k == "=>":
                n = 2 if r.random() < 0.97 else 3
                args = [G(B) for _ in range(n)]
                if n > 2:
                    self.may_reject.add("nary-=>")

                def den(pe, args=args):
                    vs = [a[1](pe) for a in args]
                    res = vs[-1]
                    for v in reversed(vs[:-1]):      # right associative
                        res = m.Implies(v, res)
                    return res
                return ["=>"] + [a[0] for a in args], den
            if k == "xor":
                n = 2 if r.random() < 0.97 else 3
                args = [G(B) for _ in range(n)]
                if n > 2:
                    self.may_reject.add("nary-xor")

                def den(pe, args=args):
                    vs = [a[1](pe) for a in args]
                    res = vs[0]
                    for v in vs[1:]:                 # left associative
                        res = m.Not(m.Iff(res, v))
                    return res
                self.tags.add("xor")
                return ["xor"] + [a[0] for a in args], den
            if k in ("iff", "eq", "distinct"):
                if k == "iff":
                    ty = B
                else:
                    tys = [x for x in self.value_types()]
                    ty = r.choice(tys)
                n = 2 if r.random() < (0.8 if k == "distinct" else 0.97) else 3
                args = [G(ty) for _ in range(n)]
                eq = (lambda x, y: m.Iff(x, y)) if ty == B else (lambda x, y: m.Equals(x, y))
                if k == "distinct":
                    self.tags.add("distinct-%d" % n)

                    def den(pe, args=args, eq=eq):
                        vs = [a[1](pe) for a in args]
                        cs = [m.Not(eq(vs[i], vs[j])) for i in range(len(vs)) for j in range(i + 1, len(vs))]
                        return cs[0] if len(cs) == 1 else m.And(cs)
                    return ["distinct"] + [a[0] for a in args], den
                if n > 2:
                    self.may_reject.add("chain-=")

                def den(pe, args=args, eq=eq):
                    vs = [a[1](pe) for a in args]
                    cs = [eq(vs[i], vs[i + 1]) for i in range(len(vs) - 1)]
                    return cs[0] if len(cs) == 1 else m.And(cs)
                return ["="] + [a[0] for a in args], den
            if k == "rel":
                ty = r.choice([x for x in (I, R) if (x == I and "int" in th) or (x == R and "real" in th)])
                n = 2 if r.random() < 0.97 else 3
                args = [self.gen(ty, d, scope)] + [self.gen_num(ty, d, scope) for _ in range(n - 1)]
                o = r.choice(["<", "<=", ">", ">="])
                if n > 2:
                    self.may_reject.add("chain-" + o)
                P = {"<": lambda x, y: m.LT(x, y), "<=": lambda x, y: m.LE(x, y),
                     ">": lambda x, y: m.LT(y, x), ">=": lambda x, y: m.LE(y, x)}[o]

                def den(pe, args=args, P=P):
                    vs = [a[1](pe) for a in args]
                    cs = [P(vs[i], vs[i + 1]) for i in range(len(vs) - 1)]
                    return cs[0] if len(cs) == 1 else m.And(cs)
                self.tags.add("rel-" + o)
                return [o] + [a[0] for a in args], den
            if k == "bvrel":
                w = r.choice([1, 2, 4, 8])
                a, da = G(V(w))
                b, db = G(V(w))
                o = r.choice(["bvult", "bvule", "bvugt", "bvuge", "bvslt", "bvsle", "bvsgt", "bvsge"])
                P = {"bvult": lambda x, y: m.BVULT(x, y), "bvule": lambda x, y: m.BVULE(x, y),
                     "bvugt": lambda x, y: m.BVULT(y, x), "bvuge": lambda x, y: m.BVULE(y, x),
                     "bvslt": lambda x, y: m.BVSLT(x, y), "bvsle": lambda x, y: m.BVSLE(x, y),
                     "bvsgt": lambda x, y: m.BVSLT(y, x), "bvsge": lambda x, y: m.BVSLE(y, x)}[o]
                self.tags.add(o)
                return [o, a, b], (lambda pe: P(da(pe), db(pe)))
            if k == "strrel":
                a, da = G(S)
                b, db = G(S)
                o = r.choice(["str.prefixof", "str.suffixof", "str.contains"])
                P = {"str.prefixof": m.StrPrefixOf, "str.suffixof": m.StrSuffixOf, "str.contains": m.StrContains}[o]
                return [o, a, b], (lambda pe: P(da(pe), db(pe)))
            if k == "quant":
                return self.gen_quant(depth, scope)
            if k == "select":
                a, da = G(A(V(2), B))
                i, di = G(V(2))
                return ["select", a, i], (lambda pe: m.Select(da(pe), di(pe)))
            return None
        if t in (I, R):
            return self.gen_arith(t, depth, scope)
        if t[0] == "V":
            return self.gen_bv(t[1], depth, scope)
        if t == S:
            n = r.choice([2, 3])
            args = [G(S) for _ in range(n)]
            return ["str.++"] + [a[0] for a in args], (lambda pe, args=args: m.StrConcat([a[1](pe) for a in args]))
        if t[0] == "A":
            a, da = G(t)
            i, di = G(t[1])
            v, dv = G(t[2])
            self.tags.add("store")
            return ["store", a, i, v], (lambda pe: m.Store(da(pe), di(pe), dv(pe)))
        return None

    def gen_num(self, t, depth, scope):
        """numeric argument of an arithmetic operator or relation: under Reals_Ints logics (and without a logic)
        an Int literal may stand where a Real is expected"""
        r, m = self.rng, self.m
        if t == R and not self.numeral_is_real and r.random() < 0.12 and self.profile != "strict":
            n = r.choice([0, 1, 2, 3, 10])
            self.sugar = True
            self.tags.add("int-literal-as-real")
            if r.random() < 0.3 and n:
                return ["-", str(n)], (lambda pe, n=n: m.Real(-n))
            return str(n), (lambda pe, n=n: m.Real(n))
        return self.gen(t, depth, scope)

    def gen_arith(self, t, depth, scope):
        r, m = self.rng, self.m
        d = depth - 1
        th = self.theories
        ch = ["+", "-", "*", "neg", "+", "-"]
        if t == R:
            ch += ["/"]
            if "int" in th:
                ch += ["to_real", "to_real"]
        else:
            if "bv" in th:
                ch += ["bv2nat"]
            if "str" in th:
                ch += ["str.len"]
            if "arr" in th:
                ch += ["select"]
            ch += ["intdiv"] if r.random() < 0.05 else []
        k = r.choice(ch)
        N = lambda: self.gen_num(t, d, scope)
        # the first operand is never an Int literal standing for a Real: `(- 0 3)` is an Int term, whatever the context
        N1 = lambda: self.gen(t, d, scope)
        if k == "+":
            n = r.choice([2, 2, 3, 4]) if r.random() < 0.93 else 1
            args = [N1()] + [N() for _ in range(n - 1)]
            self.tags.add("plus-%d" % n)
            if n < 2:
                self.nonstd = True
            return ["+"] + [a[0] for a in args], \
                (lambda pe, args=args: (m.Plus([a[1](pe) for a in args]) if len(args) > 1 else args[0][1](pe)))
        if k == "-":
            n = 2 if r.random() < 0.97 else r.choice([3, 4])
            args = [N1()] + [N() for _ in range(n - 1)]
            if n > 2:
                self.may_reject.add("nary--")

            def den(pe, args=args):
                vs = [a[1](pe) for a in args]
                res = vs[0]
                for v in vs[1:]:
                    res = m.Minus(res, v)
                return res
            self.tags.add("minus-%d" % n)
            return ["-"] + [a[0] for a in args], den
        if k == "neg":
            a, da = self.gen(t, d, scope)
            zero = (lambda: m.Int(0)) if t == I else (lambda: m.Real(0))
            self.tags.add("unary-minus")
            return ["-", a], (lambda pe: m.Minus(zero(), da(pe)))
        if k == "*":
            # linear mostly
            n = r.choice([2, 2, 3])
            args = [N1()] + [N() for _ in range(n - 1)]
            if r.random() < 0.7:
                args[0] = self.lit(t)
            self.tags.add("times-%d" % n)
            return ["*"] + [a[0] for a in args], (lambda pe, args=args: m.Times([a[1](pe) for a in args]))
        if k == "/":
            a, da = N1()
            if r.random() < 0.7:
                b, db = self.lit(R)
            else:
                b, db = N()
            for _ in range(20):
                # (/ t 0.0) is legal SMT-LIB, but the parser folds constant quotients: ZeroDivisionError (a rejection)
                try:
                    v = db({})
                except KeyError:
                    break
                if not (v.is_constant() and v.constant_value() == 0):
                    break
                b, db = self.lit(R)
            self.tags.add("real-div")
            return ["/", a, b], (lambda pe: m.Div(da(pe), db(pe)))
        if k == "to_real":
            a, da = self.gen(I, d, scope)
            self.tags.add("to_real")
            return ["to_real", a], (lambda pe: m.ToReal(da(pe)))
        if k == "bv2nat":
            w = r.choice([1, 2, 4, 8])
            a, da = self.gen(V(w), d, scope)
            self.tags.add("bv2nat")
            return ["bv2nat", a], (lambda pe: m.BVToNatural(da(pe)))
        if k == "str.len":
            a, da = self.gen(S, d, scope)
            return ["str.len", a], (lambda pe: m.StrLength(da(pe)))
        if k == "select":
            a, da = self.gen(A(I, I), d, scope)
            i, di = self.gen(I, d, scope)
            self.tags.add("select")
            return ["select", a, i], (lambda pe: m.Select(da(pe), di(pe)))
        if k == "intdiv":
            a, da = self.gen(I, d, scope)
            n = r.choice([1, 2, 3, 7])
            self.may_reject.add("int-div")
            return ["div", a, str(n)], (lambda pe: m.Div(da(pe), m.Int(n)))
        return None

    def gen_bv(self, w, depth, scope):
        r, m = self.rng, self.m
        d = depth - 1
        G = lambda ww: self.gen(V(ww), d, scope)
        ch = ["un", "bin", "bin", "bin", "ext", "rot", "derived", "smod"] + (["nary"] if r.random() < 0.15 else [])
        if w in (2, 4, 8):
            ch += ["concat", "repeat"]
        if w < 8:
            ch += ["extract", "extract"]
        if w == 1:
            ch += ["bvcomp"]
        if w == 4 and "arr" in self.theories:
            ch += ["select"]
        k = r.choice(ch)
        if k == "smod" and getattr(self, "_in_smod", 0):
            # the intended meaning of bvsmod is its standard abbreviation, which mentions each operand half a dozen times:
            # nested in its own operands the (tree-shaped) terms of the semantic oracle grow as 6^depth
            k = "bin"
        if k == "un":
            a, da = G(w)
            o = r.choice(["bvnot", "bvneg"])
            F = m.BVNot if o == "bvnot" else m.BVNeg
            self.tags.add(o)
            return [o, a], (lambda pe: F(da(pe)))
        if k == "bin":
            a, da = G(w)
            b, db = G(w)
            o = r.choice(["bvand", "bvor", "bvxor", "bvadd", "bvsub", "bvmul", "bvudiv", "bvurem", "bvsdiv", "bvsrem",
                          "bvshl", "bvlshr", "bvashr"])
            F = {"bvand": m.BVAnd, "bvor": m.BVOr, "bvxor": m.BVXor, "bvadd": m.BVAdd, "bvsub": m.BVSub, "bvmul": m.BVMul,
                 "bvudiv": m.BVUDiv, "bvurem": m.BVURem, "bvsdiv": m.BVSDiv, "bvsrem": m.BVSRem, "bvshl": m.BVLShl,
                 "bvlshr": m.BVLShr, "bvashr": m.BVAShr}[o]
            self.tags.add(o)
            return [o, a, b], (lambda pe: F(da(pe), db(pe)))
        if k == "nary":
            o = r.choice(["bvand", "bvor", "bvxor", "bvadd", "bvmul"])
            F = {"bvand": m.BVAnd, "bvor": m.BVOr, "bvxor": m.BVXor, "bvadd": m.BVAdd, "bvmul": m.BVMul}[o]
            n = r.choice([3, 4])
            args = [G(w) for _ in range(n)]
            self.may_reject.add("nary-" + o)

            def den(pe, args=args, F=F):
                vs = [a[1](pe) for a in args]
                res = vs[0]
                for v in vs[1:]:
                    res = F(res, v)
                return res
            return [o] + [a[0] for a in args], den
        if k == "derived":
            a, da = G(w)
            b, db = G(w)
            o = r.choice(["bvnand", "bvnor", "bvxnor"])
            F = {"bvnand": lambda x, y: m.BVNot(m.BVAnd(x, y)), "bvnor": lambda x, y: m.BVNot(m.BVOr(x, y)),
                 "bvxnor": lambda x, y: m.BVNot(m.BVXor(x, y))}[o]
            self.tags.add(o)
            return [o, a, b], (lambda pe: F(da(pe), db(pe)))
        if k == "smod":
            self._in_smod = getattr(self, "_in_smod", 0) + 1
            try:
                a, da = G(w)
                b, db = G(w)
            finally:
                self._in_smod -= 1
            self.tags.add("bvsmod")
            return ["bvsmod", a, b], (lambda pe: self.smod(da(pe), db(pe), w))
        if k == "ext":
            srcs = [x for x in (1, 2, 4, 8) if x <= w]
            w0 = r.choice(srcs)
            a, da = G(w0)
            o = r.choice(["zero_extend", "sign_extend"])
            F = m.BVZExt if o == "zero_extend" else m.BVSExt
            self.tags.add(o)
            return [["_", o, str(w - w0)], a], (lambda pe: F(da(pe), w - w0))
        if k == "rot":
            a, da = G(w)
            o = r.choice(["rotate_left", "rotate_right"])
            st = r.randint(0, w)
            F = m.BVRol if o == "rotate_left" else m.BVRor
            self.tags.add(o)
            return [["_", o, str(st)], a], (lambda pe: F(da(pe), st))
        if k == "concat":
            w0 = r.choice([x for x in (1, 2, 4) if w - x in (1, 2, 4)])
            a, da = G(w0)
            b, db = G(w - w0)
            self.tags.add("concat")
            return ["concat", a, b], (lambda pe: m.BVConcat(da(pe), db(pe)))
        if k == "repeat":
            w0 = r.choice([x for x in (1, 2, 4, 8) if w % x == 0 and x <= w])
            n = w // w0
            a, da = G(w0)
            self.tags.add("repeat")

            def den(pe, da=da, n=n):
                v = da(pe)
                res = v
                for _ in range(n - 1):
                    res = m.BVConcat(v, res)
                return res
            return [["_", "repeat", str(n)], a], den
        if k == "extract":
            w0 = r.choice([x for x in (2, 4, 8) if x > w])
            lo = r.randint(0, w0 - w)
            hi = lo + w - 1
            a, da = G(w0)
            self.tags.add("extract" + ("-adjacent" if hi == lo + 1 else ""))
            return [["_", "extract", str(hi), str(lo)], a], (lambda pe: m.BVExtract(da(pe), lo, hi))
        if k == "bvcomp":
            w0 = r.choice([1, 2, 4, 8])
            a, da = G(w0)
            b, db = G(w0)
            self.tags.add("bvcomp")
            return ["bvcomp", a, b], (lambda pe: m.BVComp(da(pe), db(pe)))
        if k == "select":
            a, da = self.gen(A(V(2), V(4)), d, scope)
            i, di = G(2)
            return ["select", a, i], (lambda pe: m.Select(da(pe), di(pe)))
        return None

    def smod(self, s, t, w):
        """bvsmod by its standard abbreviation (SMT-LIB QF_BV logic), from primitive constructors"""
        m = self.m
        z1 = m.BV(0, 1)
        o1 = m.BV(1, 1)
        msb_s = m.BVExtract(s, w - 1, w - 1)
        msb_t = m.BVExtract(t, w - 1, w - 1)
        abs_s = m.Ite(m.Equals(msb_s, z1), s, m.BVNeg(s))
        abs_t = m.Ite(m.Equals(msb_t, z1), t, m.BVNeg(t))
        u = m.BVURem(abs_s, abs_t)
        return m.Ite(m.Equals(u, m.BV(0, w)), u,
                     m.Ite(m.And(m.Equals(msb_s, z1), m.Equals(msb_t, z1)), u,
                           m.Ite(m.And(m.Equals(msb_s, o1), m.Equals(msb_t, z1)), m.BVAdd(m.BVNeg(u), t),
                                 m.Ite(m.And(m.Equals(msb_s, z1), m.Equals(msb_t, o1)), m.BVAdd(u, t), m.BVNeg(u)))))

    # ------------------------------------------------------------------ commands
    def declare(self, scope_names=None):
        r = self.rng
        t = r.choice(self.value_types())
        n = self.fresh_name(self.scope)
        fn = "uf" in self.theories and r.random() < 0.35
        if fn and t[0] == "A":
            t = B
        key = ("fun", t) if fn else t
        if self.global_types.setdefault(n, key) != key:
            # pySMT keeps one sort per symbol name and environment: a name seen before (popped declaration, bound
            # variable) cannot be declared with another sort -- rejected with an error
            self.may_reject.add("name-redeclared-with-other-sort")
        if fn:
            ptys = [r.choice([x for x in self.value_types() if x[0] != "A"]) for _ in range(r.choice([1, 1, 2]))]
            if t[0] == "A":
                t = B
            fs = self.msym(n, t, ptys)
            self.scope[n] = Entry("fun", t, (fs, ptys))
            self.cmds.append((["declare-fun", self.symtok(n), [self.sort_sx(p) for p in ptys], self.sort_sx(t)],
                              ("declare", n, t, ptys)))
            return n
        s = self.msym(n, t)
        self.scope[n] = Entry("sym", t, s)
        if r.random() < 0.3:
            self.tags.add("declare-const")
            self.cmds.append((["declare-const", self.symtok(n), self.sort_sx(t)], ("declare", n, t, [])))
        else:
            self.cmds.append((["declare-fun", self.symtok(n), [], self.sort_sx(t)], ("declare", n, t, [])))
        return n

    def declare_sort(self):
        n = self.fresh_name(self.scope)
        n = n[0].upper() + n[1:] if _is_simple(n) else n
        if n in self.scope or n in RESERVED or n in self.sorts:
            return
        self.sorts[n] = 0
        self.tags.add("declare-sort")
        self.cmds.append((["declare-sort", self.symtok(n), "0"], ("declare-sort", n, 0)))

    def define_sort(self):
        r = self.rng
        n = "S" + self.fresh_name(self.scope)
        if not _is_simple(n) or n in self.sorts or n in self.sort_alias or n in self.scope:
            return
        t = r.choice(self.value_types())
        sx = self.sort_sx(t)
        self.sort_alias[n] = t
        self.tags.add("define-sort")
        self.cmds.append((["define-sort", n, [], sx], ("define-sort", n)))

    def define_fun(self, body_fn=None):
        r = self.rng
        n = self.fresh_name(self.scope)
        t = r.choice([x for x in self.value_types()])
        np = r.choice([0, 1, 1, 2, 3])
        params, new, names = [], dict(self.scope), []
        psx = []
        for _ in range(np):
            pn = self.binder_name(self.scope, names)
            pt = r.choice([x for x in self.value_types() if x[0] != "A"])
            u = self.new_uid()
            params.append((u, pt))
            names.append(pn)
            new[pn] = Entry("param", pt, u)
            psx.append([self.symtok(pn), self.sort_sx(pt)])
        self._params_now = params
        ntags = set(self.tags)
        body, db = body_fn(t, new) if body_fn else self.gen(t, r.choice([1, 2, 3]), new)
        self._params_now = []
        bound = set(_bound_names(body))
        self.scope[n] = Entry("def", t, (params, db, bound))
        self.tags.add("define-fun-%d" % min(np, 2))
        self.cmds.append((["define-fun", self.symtok(n), psx, self.sort_sx(t), body],
                          ("define-fun", n, params, t, db)))

    def assert_(self, depth=None):
        r = self.rng
        depth = depth or r.choice([2, 3, 3, 4])
        body, db = self.gen(B, depth, self.scope)
        self.cmds.append((["assert", body], ("assert", db)))

    def omt_commands(self):
        """OMT extension commands (outside SMT-LIB: compared with the generator's reading and with the model)"""
        r = self.rng
        self.nonstd = True
        self.tags.add("omt")
        for _ in range(r.choice([1, 2, 3])):
            k = r.choice(["assert-soft", "maximize", "minimize", "minmax", "maxmin", "check-allsat", "load-objective-model",
                          "get-objectives"])
            nums = [t for t in self.value_types() if t in (I, R) or t[0] == "V"]
            if k == "assert-soft":
                t, d = self.gen(B, 2, self.scope)
                sx = ["assert-soft", t]
                if r.random() < 0.6:
                    sx += [":weight", r.choice(["1", "3", "0.5" if "real" in self.theories or self.logic is None else "2"])]
                if r.random() < 0.6:
                    sx += [":id", r.choice(["goal", "g1"])]
                self.cmds.append((sx, ("omt1", k, d)))
            elif k in ("maximize", "minimize") and nums:
                t, d = self.gen(r.choice(nums), 2, self.scope)
                sx = [k, t]
                if r.random() < 0.4:
                    sx += [":id", "obj"]
                if r.random() < 0.4:
                    sx += [":signed"]
                self.cmds.append((sx, ("omt1", k, d)))
            elif k in ("minmax", "maxmin") and nums:
                ty = r.choice(nums)
                ts = [self.gen(ty, 2, self.scope) for _ in range(r.choice([1, 2, 3]))]
                sx = [k] + [t[0] for t in ts]
                if r.random() < 0.4:
                    sx += [":id", "mm"]
                if r.random() < 0.3:
                    sx += [":signed"]
                self.cmds.append((sx, ("omtN", k, [t[1] for t in ts])))
            elif k == "check-allsat":
                ps = [n for n, e in self.scope.items() if e.kind == "sym" and e.ty == B]
                chosen = r.sample(ps, min(len(ps), r.choice([0, 1, 2])))
                self.cmds.append((["check-allsat", [self.symtok(n) for n in chosen]],
                                  ("terms", "check-allsat", [(lambda pe, s=self.scope[n].data: s) for n in chosen])))
            elif k == "load-objective-model":
                self.cmds.append((["load-objective-model", "1"], ("plain", k)))
            elif k == "get-objectives":
                self.cmds.append((["get-objectives"], ("plain", k)))
            last = self.cmds[-1][0]
            if last[0] in ("minmax", "maxmin") and \
                    any(isinstance(x, str) and x.startswith("|:") for x in last[1:]):
                # a bare quoted symbol such as |:k| in the term list of minmax/maxmin is taken for an option keyword (the
                # tokenizer drops the bars: known P03 of C09) -- rejected with an error, never misread (when the parser accepts
                # such a script its terms are compared as always)
                self.may_reject.add("omt-argument-spelling-a-keyword")

    # ------------------------------------------------------------------ dedicated scripts
    def configure(self, theories, quant):
        self.theories = set(theories) | {"bool"}
        self.quant = quant
        self.logic = self._pick_logic()
        self.numeral_is_real = self.logic in ("QF_LRA", "LRA", "QF_UFLRA")

    def declare_const(self, t):
        n = self.fresh_name(self.scope)
        if self.global_types.setdefault(n, t) != t:
            self.may_reject.add("name-redeclared-with-other-sort")
        self.scope[n] = Entry("sym", t, self.msym(n, t))
        if self.rng.random() < 0.3:
            self.cmds.append((["declare-const", self.symtok(n), self.sort_sx(t)], ("declare", n, t, [])))
        else:
            self.cmds.append((["declare-fun", self.symtok(n), [], self.sort_sx(t)], ("declare", n, t, [])))
        return n

    def prelude(self):
        if self.logic is not None:
            self.cmds.append((["set-logic", self.logic], ("set-logic", self.logic)))
        if "uf" in self.theories:
            self.declare_sort()

    def build_simlet_script(self):
        """declarations, then commands whose terms are simultaneous-let shapes: at the top, inside an enclosing let, inside a
        quantifier, under operators, in the body of a definition with parameters"""
        r = self.rng
        self.configure(r.choice([("int",), ("int",), ("real",), ("bv",), ("int", "real"), ("int", "uf"), ("int", "bv")]), True)
        self.prelude()
        tys = [t for t in self.value_types() if t != B]
        main = r.choice(tys)
        for t in [B, B, main, main] + [r.choice(tys + [B]) for _ in range(r.randint(0, 3))]:
            self.declare_const(t)
        if r.random() < 0.4:
            # a 0-ary definition: a name with a meaning that a let may rebind
            n = self.fresh_name(self.scope)
            t = r.choice([B, main])
            body, db = self.gen(t, 1, self.scope)
            self.scope[n] = Entry("def", t, ([], db, set(_bound_names(body))))
            self.tags.add("define-fun-0")
            self.cmds.append((["define-fun", self.symtok(n), [], self.sort_sx(t), body], ("define-fun", n, [], t, db)))
        for _ in range(r.randint(2, 4)):
            d = r.choice([2, 2, 3])
            k = r.random()
            sim = lambda sc, d=d: self.gen_simlet(B, d, sc)
            if k < 0.30:
                body, db = sim(self.scope)
            elif k < 0.45:
                body, db = self.gen_let(B, d, self.scope, body_fn=sim)
                self.tags.add("simlet-in-let")
            elif k < 0.60:
                body, db = self.gen_quant(d, self.scope, body_fn=sim)
                self.tags.add("simlet-in-quantifier")
            elif k < 0.68:
                body, db = self.gen_quant(d, self.scope, body_fn=lambda sc: self.gen_let(B, d, sc, body_fn=sim))
                self.tags.add("simlet-in-let-in-quantifier")
            elif k < 0.76:
                body, db = self.gen_simlet(B, d, self.scope)
                o = r.choice(["not", "and", "=>"])
                body, db = self.ap(o, (body, db)) if o == "not" else self.ap(o, self.gen(B, 1, self.scope), (body, db))
                self.tags.add("simlet-under-operator")
            elif k < 0.84:
                t = r.choice(tys)
                a = self.gen_simlet(t, d, self.scope)
                body, db = self.ap("eq", a, self.gen(t, 1, self.scope))
                self.tags.add("simlet-non-bool")
            else:
                self.define_fun(body_fn=lambda t, sc, d=d: self.gen_simlet(t, d, sc))
                self.tags.add("simlet-in-define-fun")
                continue
            self.cmds.append((["assert", body], ("assert", db)))
        if r.random() < 0.5:
            self.cmds.append((["check-sat"], ("plain", "check-sat")))
        return self

    def build_defchain_script(self):
        """2-4 definitions whose parameters share names AND sorts; the later ones apply the earlier ones to their own parameters
        in another order, or to compound terms that mention parameters of later positions; then the definitions are applied to
        declared constants.  (An application substitutes all arguments simultaneously.)"""
        r, m = self.rng, self.m
        self.configure(r.choice([("int",), ("int",), ("real",), ("bv",), ("int", "real")]), False)
        self.prelude()
        T = r.choice([t for t in self.value_types() if t != B and (t[0] != "V" or t[1] in (2, 4))])
        for t in [T, T, T, B]:
            self.declare_const(t)
        np = r.choice([2, 2, 3])
        pnames = []
        while len(pnames) < np:
            n = self.binder_name(self.scope, pnames) if r.random() < 0.3 else self.fresh_name(self.scope, pnames)
            if n not in pnames:
                pnames.append(n)
        sub = "bvsub" if T[0] == "V" else "-"
        add = "bvadd" if T[0] == "V" else "+"
        defs = []
        for k in range(r.choice([2, 3, 3, 4])):
            n = self.fresh_name(self.scope, pnames)
            order = list(pnames)
            if r.random() < 0.3:
                r.shuffle(order)                     # the same names at other positions
            params, new, psx = [], dict(self.scope), []
            for pn in order:
                u = self.new_uid()
                params.append((u, T))
                new[pn] = Entry("param", T, u)
                psx.append([self.symtok(pn), self.sort_sx(T)])
            P = lambda pn: (self.symtok(pn), self.name_den(pn, new[pn]))
            self._params_now = params
            if not defs or r.random() < 0.15:
                a, b = r.sample(order, 2)
                body = self.ap(sub, P(a), P(b))
                if r.random() < 0.5:
                    body = self.ap(add, body, self.ap(sub, P(b), self.lit(T)))
                if np == 3 and r.random() < 0.6:
                    body = self.ap("ite", self.ap("eq", P(order[2]), P(a)), body, P(order[2]))
            else:
                fn, fparams, fbody = r.choice(defs)
                perm = list(order)
                while perm == order or r.random() < 0.3:
                    r.shuffle(perm)
                    if len(set(perm)) == 1:
                        break
                args = []
                for i in range(len(fparams)):
                    if r.random() < 0.65:
                        args.append(P(perm[i]))
                    else:
                        later = order[min(i + 1, len(order) - 1):]
                        args.append(self.ap(r.choice([add, sub]), P(r.choice(later)), P(r.choice(order))))
                self.tags.add("define-fun-call")
                body = ([self.symtok(fn)] + [x[0] for x in args],
                        (lambda pe, fparams=fparams, fbody=fbody, args=args:
                         fbody({u: x[1](pe) for (u, _), x in zip(fparams, args)})))
                if r.random() < 0.4:
                    body = self.ap(r.choice([add, sub]), body, P(r.choice(order)))
            self._params_now = []
            sx, db = body
            self.scope[n] = Entry("def", T, (params, db, set()))
            self.tags.add("defchain-%d" % (k + 1))
            self.cmds.append((["define-fun", self.symtok(n), psx, self.sort_sx(T), sx], ("define-fun", n, params, T, db)))
            defs.append((n, params, db))
        consts = [x for x, e in self.scope.items() if e.kind == "sym" and e.ty == T]
        for _ in range(r.choice([1, 2, 2])):
            fn, fparams, fbody = r.choice(defs[1:] if r.random() < 0.8 else defs)
            args = []
            for _i in fparams:
                c = r.choice(consts)
                args.append((self.symtok(c), self.name_den(c, self.scope[c])) if r.random() < 0.8 else self.lit(T))
            call = ([self.symtok(fn)] + [x[0] for x in args],
                    (lambda pe, fparams=fparams, fbody=fbody, args=args: fbody({u: x[1](pe) for (u, _), x in zip(fparams, args)})))
            c = r.choice(consts)
            rel = "eq" if not is_num(T) or r.random() < 0.4 else r.choice(["<", "<=", ">"])
            body = self.ap(rel, call, (self.symtok(c), self.name_den(c, self.scope[c])))
            self.cmds.append((["assert", body[0]], ("assert", body[1])))
        return self

    # operators with more arguments than two: (token, needed theory, what the STANDARD says, accepted by the parser today)
    NARY = [("=>", None, "right-assoc", False), ("=>", None, "right-assoc", False), ("xor", None, "left-assoc", False),
            ("=", "any", "chainable", False), ("=", "any", "chainable", False), ("distinct", "any", "pairwise", True),
            ("<", "num", "chainable", False), ("<=", "num", "chainable", False), (">", "num", "chainable", False),
            (">=", "num", "chainable", False), ("-", "num", "left-assoc", False), ("/", "real", "left-assoc", False),
            ("+", "num", "left-assoc", True), ("*", "num", "left-assoc", True), ("and", None, "left-assoc", True),
            ("or", None, "left-assoc", True), ("div", "int", "left-assoc", False),
            ("bvand", "bv", "left-assoc", True), ("bvor", "bv", "left-assoc", True), ("bvxor", "bv", "left-assoc", False),
            ("bvadd", "bv", "left-assoc", True), ("bvmul", "bv", "left-assoc", True), ("concat", "bv", "assoc", True),
            ("str.++", "str", "left-assoc", True)]

    def build_nary_script(self):
        """one operator applied to 3-4 arguments (the forms the standard derives from :chainable, :left-assoc, :right-assoc and
        :pairwise), intended meaning = the standard's expansion.  Forms the parser does not handle today may be rejected."""
        r, m = self.rng, self.m
        o, need, attr, accepted = r.choice(self.NARY)
        th = {"num": r.choice([("int",), ("real",), ("int", "real")]), "real": r.choice([("real",), ("int", "real")]),
              "int": ("int",), "bv": r.choice([("bv",), ("bv", "int")]), "str": ("int", "str"), None: r.choice([(), ("int",), ("bv",)]),
              "any": r.choice([("int",), ("real",), ("bv",), ("int", "uf"), ("int", "str"), ("int", "arr")])}[need]
        self.configure(th, r.random() < 0.3)
        self.prelude()
        vts = [t for t in self.value_types()]
        if need is None:
            ty = B
        elif need == "any":
            ty = r.choice(vts)
        elif need in ("num", "real", "int"):
            ty = r.choice([t for t in vts if is_num(t) and (need == "num" or (need == "real") == (t == R))])
        elif need == "bv":
            ty = V(r.choice([1, 2, 4, 8]) if o != "concat" else 4)
        else:
            ty = S
        n = r.choice([3, 3, 4]) if o != "concat" else 3
        if o == "concat":
            ws = r.choice([(2, 1, 1), (1, 2, 1), (1, 1, 2), (4, 2, 2), (2, 2, 4), (2, 4, 2), (1, 1, 1 + 1)])
            atys, rty = [V(w) for w in ws], V(sum(ws))
        else:
            atys = [ty] * n
            rty = B if attr in ("chainable", "pairwise", "right-assoc") or o in ("xor", "and", "or") else ty
        for t in [B, B] + atys + [rty]:
            self.declare_const(t)
        args = []
        used = set()
        for i, t in enumerate(atys):
            k = r.random()
            cands = [nm for nm, e in self.scope.items() if e.kind == "sym" and e.ty == t and nm not in used]
            if o == "div" and i > 0:
                c = r.choice([1, 2, 3, 7])
                args.append((str(c), (lambda pe, c=c: m.Int(c))))
            elif cands and k < 0.75:
                nm = r.choice(cands)
                used.add(nm)
                args.append((self.symtok(nm), self.name_den(nm, self.scope[nm])))
            elif o == "/" and i > 0:
                c = r.choice(["2.0", "3.0", "0.5", "10.0"])
                args.append((c, (lambda pe, c=c: m.Real(Fraction(c)))))
            elif k < 0.85 and t[0] != "U":
                args.append(self.lit(t))
            else:
                args.append(self.gen(t, r.choice([1, 2]), self.scope))
        eq = (lambda x, y: m.Iff(x, y)) if ty == B else (lambda x, y: m.Equals(x, y))
        BIN = {"=>": m.Implies, "xor": lambda x, y: m.Not(m.Iff(x, y)), "-": m.Minus, "/": m.Div, "div": m.Div,
               "+": lambda x, y: m.Plus([x, y]), "*": lambda x, y: m.Times([x, y]), "and": lambda x, y: m.And([x, y]),
               "or": lambda x, y: m.Or([x, y]), "bvand": m.BVAnd, "bvor": m.BVOr, "bvxor": m.BVXor, "bvadd": m.BVAdd,
               "bvmul": m.BVMul, "concat": m.BVConcat, "str.++": lambda x, y: m.StrConcat([x, y]),
               "=": eq, "distinct": lambda x, y: m.Not(eq(x, y)),
               "<": m.LT, "<=": m.LE, ">": lambda x, y: m.LT(y, x), ">=": lambda x, y: m.LE(y, x)}[o]

        def den(pe, args=args, attr=attr, BIN=BIN):
            vs = [a[1](pe) for a in args]
            if attr == "right-assoc":
                res = vs[-1]
                for v in reversed(vs[:-1]):
                    res = BIN(v, res)
                return res
            if attr in ("left-assoc", "assoc"):
                res = vs[0]
                for v in vs[1:]:
                    res = BIN(res, v)
                return res
            if attr == "chainable":
                return m.And([BIN(vs[i], vs[i + 1]) for i in range(len(vs) - 1)])
            return m.And([BIN(vs[i], vs[j]) for i in range(len(vs)) for j in range(i + 1, len(vs))])
        term = ([o] + [a[0] for a in args], den)
        tag = {"chainable": "chain-", "pairwise": "", "assoc": "nary-"}.get(attr, "nary-") + o
        self.tags.add("nary:%s-%d" % (o, len(args)))
        if not accepted:
            self.may_reject.add(tag)
            if o == "div":
                self.may_reject.add("int-div")
        if o == "concat":
            self.nonstd = True                       # concat is binary by the letter of the standard
        if rty != B:
            cands = [nm for nm, e in self.scope.items() if e.kind == "sym" and e.ty == rty and nm not in used]
            if cands and r.random() < 0.8:
                nm = r.choice(cands)
                oth = (self.symtok(nm), self.name_den(nm, self.scope[nm]))
            else:
                oth = self.gen(rty, 1, self.scope)
            rel = "eq" if not is_num(rty) or r.random() < 0.5 else r.choice(["<", "<=", ">"])
            term = self.ap(rel, term, oth) if r.random() < 0.5 else self.ap(rel, oth, term)
        # position of the form in the command argument
        k = r.random()
        bl = lambda: self.leaf(B, self.scope)
        if k < 0.4:
            pass
        elif k < 0.52:
            term = self.ap("not", term)
        elif k < 0.62:
            term = self.ap("and", bl(), term)
        elif k < 0.70:
            term = self.ap("or", term, bl())
        elif k < 0.78:
            term = self.ap("=>", term, bl())
        elif k < 0.86:
            term = self.ap("ite", bl(), term, bl())
        elif k < 0.93:
            l = self.fresh_name(self.scope)
            d0 = term[1]
            inner = self.ap("=>", (self.symtok(l), d0), bl())
            term = (["let", [[self.symtok(l), term[0]]], inner[0]], inner[1])
        else:
            # (empty scope: the binders take fresh names, the form keeps referring to the declared symbols)
            term = self.gen_quant(1, {}, body_fn=lambda sc, term=term: term)
        k = r.random()
        if k < 0.8:
            self.cmds.append((["assert", term[0]], ("assert", term[1])))
        elif k < 0.9:
            self.cmds.append((["get-value", [term[0]]], ("terms", "get-value", [term[1]])))
        else:
            nm = self.fresh_name(self.scope)
            self.cmds.append((["define-fun", self.symtok(nm), [], "Bool", term[0]], ("define-fun", nm, [], B, term[1])))
        if r.random() < 0.4:
            self.assert_(2)
        return self

    def build(self):
        r = self.rng
        if self.logic is not None:
            self.cmds.append((["set-logic", self.logic], ("set-logic", self.logic)))
        if r.random() < 0.2:
            self.cmds.append((["set-info", ":status", r.choice(["sat", "unsat", "unknown"])], ("plain", "set-info")))
        if r.random() < 0.15:
            self.cmds.append((["set-option", ":produce-models", "true"], ("plain", "set-option")))
        if "uf" in self.theories:
            for _ in range(r.choice([1, 1, 2])):
                self.declare_sort()
        for _ in range(r.randint(3, 7)):
            self.declare()
        if r.random() < 0.3:
            self.define_sort()
        level = 0
        saved = []
        nsteps = r.randint(2, 7)
        for _ in range(nsteps):
            k = r.random()
            if k < 0.45:
                self.assert_()
            elif k < 0.65:
                self.define_fun()
            elif k < 0.72:
                self.declare()
            elif k < 0.80:
                n = r.choice([1, 1, 2])
                self.tags.add("push")
                for _ in range(n):
                    saved.append((dict(self.scope), dict(self.sorts), dict(self.sort_alias)))
                level += n
                self.cmds.append((["push", str(n)] if r.random() < 0.8 or n > 1 else ["push"], ("push", n)))
            elif k < 0.86 and level > 0:
                n = r.randint(1, level)
                for _ in range(n):
                    self.scope, self.sorts, self.sort_alias = saved.pop()
                level -= n
                self.tags.add("pop")
                self.cmds.append((["pop", str(n)] if r.random() < 0.8 or n > 1 else ["pop"], ("pop", n)))
            elif k < 0.90:
                self.cmds.append((["check-sat"], ("plain", "check-sat")))
            elif k < 0.94:
                n = r.choice([1, 2])
                ts = [self.gen(r.choice(self.value_types()), 2, self.scope) for _ in range(n)]
                self.tags.add("get-value")
                self.cmds.append((["get-value", [t[0] for t in ts]], ("terms", "get-value", [t[1] for t in ts])))
            elif k < 0.97:
                ps = [n for n, e in self.scope.items() if e.kind == "sym" and e.ty == B]
                if ps:
                    lits = []
                    for n in r.sample(ps, min(len(ps), r.choice([1, 2]))):
                        s = self.scope[n].data
                        if r.random() < 0.5:
                            lits.append((self.symtok(n), (lambda pe, s=s: s)))
                        else:
                            lits.append((["not", self.symtok(n)], (lambda pe, s=s: self.m.Not(s))))
                    self.tags.add("check-sat-assuming")
                    self.cmds.append((["check-sat-assuming", [l[0] for l in lits]],
                                      ("terms", "check-sat-assuming", [l[1] for l in lits])))
            else:
                self.define_sort()
        if r.random() < 0.12:
            self.omt_commands()
        if not any(e[1][0] in ("assert", "define-fun", "terms", "omt1", "omtN") for e in self.cmds):
            self.assert_()
        if r.random() < 0.5:
            self.cmds.append((["check-sat"], ("plain", "check-sat")))
        if r.random() < 0.2:
            self.cmds.append((["exit"], ("plain", "exit")))
        return self


def _text_name(meaning_name):
    """the spelling in the text of a symbol of the meaning side (binder occurrences are x!b<k>, alpha-renamed symbols x!<k>)"""
    import re
    return re.sub(r"!\d+$", "", re.sub(r"!b\d+$", "", meaning_name))


def _crosses_same_named_binder(f):
    """does the (intended) term hold, under a binder of a variable the text spells n with sort t, a free occurrence of ANOTHER
    variable or symbol that the text spells n, of the same sort?  In a text that is possible only through the expansion of a
    let variable, of a definition or of a definition parameter bound outside that binder."""
    seen, stack = set(), [f]
    while stack:
        n = stack.pop()
        if id(n) in seen:
            continue
        seen.add(id(n))
        if n.is_quantifier():
            fvs = n.arg(0).get_free_variables()
            for v in n.quantifier_vars():
                base, ty = _text_name(v.symbol_name()), v.symbol_type()
                for s_ in fvs:
                    if s_ is not v and s_.symbol_type() == ty and _text_name(s_.symbol_name()) == base:
                        return True
        stack.extend(n.args())
    return False


def _bound_names(sx):
    """names bound by quantifiers (and lets) inside an s-expression"""
    out = []
    if isinstance(sx, list) and sx:
        if sx[0] in ("forall", "exists") and len(sx) == 3 and isinstance(sx[1], list):
            for b in sx[1]:
                if isinstance(b, list) and b and isinstance(b[0], str):
                    out.append(b[0].strip("|"))
        for x in sx:
            out += _bound_names(x)
    return out


def wire_strlit(s):
    return '"' + s.replace('"', '""') + '"'


# ------------------------------------------------------------------------------------------
# rendering with random layout
COMMENTS = ["; plain comment", ";; (assert false)", "; \"quote | bar", ";", "; )", "; (declare-fun x () Int)"]


def render(rng, sx, fancy):
    out = []

    def ws(force=False):
        if not fancy:
            return " " if force else ""
        k = rng.random()
        if k < 0.75:
            return " " if force else ""
        if k < 0.85:
            return "\n"
        if k < 0.90:
            return "\t"
        if k < 0.95:
            return "  "
        return " " + rng.choice(COMMENTS) + "\n"

    def go(x):
        if isinstance(x, str):
            out.append(x)
            return
        out.append("(")
        out.append(ws())
        first = True
        for e in x:
            if not first:
                s = ws(True)
                out.append(s if s else " ")
            go(e)
            first = False
        out.append(ws())
        out.append(")")
    go(sx)
    return "".join(out)


def render_script(rng, cmds, fancy=True):
    parts = []
    for sx in cmds:
        parts.append(render(rng, sx, fancy and rng.random() < 0.5))
        parts.append(rng.choice(["\n", "\n", " ", "", "\n; c\n"]) if fancy else "\n")
    return "".join(parts)


# ------------------------------------------------------------------------------------------
# malformed variants
def malform(rng, gen):
    """-> (kind, text) : a script that must be rejected"""
    r = rng
    cmds = [c[0] for c in gen.cmds]
    text = render_script(r, cmds, fancy=False)
    k = r.choice(["drop-close", "drop-open", "extra-close", "unknown-command", "unknown-operator", "undeclared-symbol",
                  "ill-sorted", "arity", "bad-literal", "assert-non-bool", "undeclared-sort", "unknown-indexed"])
    if k == "drop-close":
        idx = [i for i, ch in enumerate(text) if ch == ")" and not _in_atom(text, i)]
        i = r.choice(idx)
        return k, text[:i] + text[i + 1:]
    if k == "drop-open":
        idx = [i for i, ch in enumerate(text) if ch == "(" and not _in_atom(text, i)]
        i = r.choice(idx)
        return k, text[:i] + text[i + 1:]
    if k == "extra-close":
        idx = [i for i, ch in enumerate(text) if ch == ")" and not _in_atom(text, i)]
        i = r.choice(idx)
        return k, text[:i] + ")" + text[i:]
    if k == "unknown-command":
        i = r.randrange(len(cmds) + 1)
        bad = r.choice([["frobnicate"], ["asert", "true"], ["declare-func", "x", [], "Int"], ["check_sat"],
                        ["get-model!"], ["define-fun-rec", "f", [["x", "Int"]], "Int", "x"]])
        cmds2 = cmds[:i] + [bad] + cmds[i:]
        return k, render_script(r, cmds2, fancy=False)
    # term-level defects: wrap into an extra assert placed at the end (all declarations in scope)
    bt, _ = gen.gen(B, 2, gen.scope)
    ints = [n for n, e in gen.scope.items() if e.kind == "sym" and e.ty == I]
    bools = [n for n, e in gen.scope.items() if e.kind == "sym" and e.ty == B]
    bvs = [(n, e.ty[1]) for n, e in gen.scope.items() if e.kind == "sym" and e.ty[0] == "V"]
    if k == "unknown-operator":
        op = r.choice(["foo", "implies", "bvadd2", "iff", "==", "bvrol", "mod2", "str.lenn"])
        if op in gen.scope or op in gen.global_types:
            op = op + "_u"          # (foo is a name of the pool: it may be a declared function of the script)
        bad =["and", bt, [op, bt, bt]]
    elif k == "undeclared-symbol":
        nm = r.choice(["undeclared", "zz", "x!", "True", "FALSE", "nil"])
        if nm in gen.scope:
            nm = nm + "_u"
        bad = r.choice([["and", bt, nm], ["=", nm, nm], ["not", nm], ["or", nm], ["ite", nm, bt, bt],
                        ["let", [["l!", nm]], bt], ["!", nm, ":named", "nn"]])
    elif k == "ill-sorted":
        c = []
        c.append(["and", bt, "1"])
        c.append(["not", "0"])
        c.append(["+", "1", "true"])
        c.append(["=", "1", "true"])
        c.append(["ite", "1", bt, bt])
        c.append(["<", "true", "false"])
        c.append(["=", "#b01", "#b011"])
        c.append(["bvult", "#b01", "#b011"])
        c.append(["=", ["bvadd", "#b01", "#x1"], "#b01"])
        c.append(["=", ["concat", "#b01", "1"], "#b011"])
        c.append(["=", [["_", "extract", "5", "2"], "#b0101"], "#b0101"])
        c.append(["=", ["select", "1", "1"], "1"])
        c.append(["=", '"a"', "1"])
        if ints and bools:
            c.append(["=", gen.symtok(r.choice(ints)), gen.symtok(r.choice(bools))])
            c.append(["and", gen.symtok(r.choice(ints)), bt])
            c.append(["<", gen.symtok(r.choice(bools)), "1"])
        if bvs:
            n, w = r.choice(bvs)
            c.append(["=", gen.symtok(n), "#b" + "0" * (w + 1)])
            c.append(["bvult", gen.symtok(n), "1"])
        bad = r.choice(c)
    elif k == "arity":
        c = [["not", bt, bt], ["ite", bt, bt], ["not"], ["ite", bt, bt, bt, bt], ["=", bt],
             ["=", ["bvnot", "#b01", "#b01"], "#b01"], ["=", ["bvneg"], "#b01"],
             ["=", [["_", "extract", "1"], "#b0101"], "#b01"], ["=", ["select", "1"], "1"],
             # operators that are not :left-assoc / :chainable in the standard, applied to three arguments
             ["=", ["bvsub", "#b01", "#b01", "#b01"], "#b01"], ["bvult", "#b01", "#b01", "#b01"],
             ["bvsle", "#b01", "#b01", "#b01"], ["=", ["bvudiv", "#b01", "#b01", "#b01"], "#b01"],
             ["=", ["bvurem", "#b01", "#b01", "#b01"], "#b01"], ["=", ["bvshl", "#b01", "#b01", "#b01"], "#b01"],
             ["=", ["bvlshr", "#b01", "#b01", "#b01"], "#b01"], ["=", ["bvcomp", "#b01", "#b01", "#b01"], "#b1"],
             ["=", ["bvnand", "#b01", "#b01", "#b01"], "#b01"], ["=", ["bvneg", "#b01", "#b01"], "#b01"],
             ["=", ["to_real", "1", "2"], "1.0"], ["=", ["str.len", '"a"', '"b"'], "1"],
             ["=", ["select", [["as", "const", ["Array", "Int", "Int"]], "0"], "1", "2"], "0"],
             ["=", ["store", [["as", "const", ["Array", "Int", "Int"]], "0"], "1", "2", "3"],
              [["as", "const", ["Array", "Int", "Int"]], "0"]], ["ite", bt, bt, bt, bt, bt], ["=>", bt], ["xor", bt],
             # ((distinct t), like (and t) and (+ t), is accepted with its degenerate meaning: not part of this stream)
             ["<", "1"], [">=", "1"]]
        fs = [(n, e) for n, e in gen.scope.items() if e.kind == "fun"]
        if fs:
            n, e = r.choice(fs)
            if e.ty == B:
                c.append([gen.symtok(n)] + [gen.leaf(p, gen.scope)[0] for p in e.data[1]] + ["true"])
        bad = r.choice(c)
    elif k == "bad-literal":
        bad = r.choice([["=", "#b012", "#b012"], ["=", "#xg1", "#xg1"], ["=", "#", "#"], ["=", "#b", "#b"],
                        ["=", ["_", "bv", "3"], "#b011"], ["=", ["_", "bvx", "3"], "#b011"],
                        ["=", ["_", "bv8", "3"], "#b000"], ["=", "#o17", "#o17"]])
    elif k == "assert-non-bool":
        bad = r.choice(["1", "1.5", "#b01", '"s"', ["+", "1", "2"]] + ([gen.symtok(ints[0])] if ints else []))
        return k, render_script(r, cmds + [["assert", bad]], fancy=False)
    elif k == "undeclared-sort":
        nosort = "Foo"
        while nosort in gen.sorts or nosort in gen.sort_alias:      # (declare-sort capitalises the names of the pool: Foo)
            nosort += "_u"
        return k, render_script(r, cmds + [["declare-fun", "zz!", [], r.choice([nosort, "int", ["Array", "Int"],
                                                                                     ["_", "BitVec"], ["_", "BitVec", "x"],
                                                                                     ["List", "Int"]])]], fancy=False)
    elif k == "unknown-indexed":
        bad = ["=", [["_", r.choice(["extrakt", "zero_ext", "rotate", "repeat_n", "sign_extend_"]), "1"], "#b01"], "#b01"]
    return k, render_script(r, cmds + [["assert", bad]], fancy=False)


def _in_atom(text, i):
    """is position i inside a |quoted symbol|, a string literal or a comment?"""
    state = None
    for j, ch in enumerate(text):
        if j == i:
            return state is not None
        if state is None:
            if ch == "|":
                state = "|"
            elif ch == '"':
                state = '"'
            elif ch == ";":
                state = ";"
        elif state == "|":
            if ch == "|":
                state = None
        elif state == '"':
            if ch == '"':
                state = None
        elif state == ";":
            if ch == "\n":
                state = None
    return False


# ------------------------------------------------------------------------------------------
# interpretations
class Interps:
    INT_DOM = [-1, 0, 1, 2]
    REAL_DOM = [Fraction(0), Fraction(1), Fraction(-1, 2), Fraction(3)]

    def __init__(self, rng):
        self.rng = rng
        import gen as G
        self.G = G

    def value(self, ty):
        r = self.rng
        G = self.G
        if ty.is_bool_type():
            return r.random() < 0.5
        if ty.is_int_type():
            return r.choice(G.INT_CORNERS) if r.random() < 0.3 else r.randint(-4, 6)
        if ty.is_real_type():
            return r.choice(G.REAL_CORNERS) if r.random() < 0.5 else Fraction(r.randint(-6, 6), r.randint(1, 4))
        if ty.is_bv_type():
            w = ty.width
            return ("bv", w, r.choice(G.bv_corners(w)) if r.random() < 0.4 else r.randrange(1 << w))
        if ty.is_string_type():
            return r.choice(G.STR_CORNERS)
        if ty.is_array_type():
            d = self.value(ty.elem_type)
            ents = {}
            for _ in range(r.randint(0, 2)):
                k = self.value(ty.index_type)
                ents[repr(k)] = (k, self.value(ty.elem_type))
            return ("arr", wire.enc_type(ty.index_type), d, list(ents.values()))
        return ("u", str(ty), r.randrange(2))

    def sample(self, formulas, n=4):
        """interpretations of the free symbols of all `formulas` (possibly of different environments:
        symbols are identified by name and wire type)"""
        syms = {}
        customs = {}
        for f in formulas:
            for s in f.get_free_variables():
                syms[(s.symbol_name(), wire.enc_symty(s.symbol_type()))] = s
            self._customs(f, customs)
        out = []
        for _ in range(n):
            sy, fn = [], []
            for (nm, _), s in sorted(syms.items(), key=lambda kv: kv[0]):
                t = s.symbol_type()
                if t.is_function_type():
                    tab, seen = [], set()
                    for _ in range(self.rng.randint(0, 3)):
                        a = [self.value(p) for p in t.param_types]
                        if repr(a) not in seen:
                            seen.add(repr(a))
                            tab.append((a, self.value(t.return_type)))
                    fn.append((nm, t, tab, self.value(t.return_type)))
                else:
                    sy.append((nm, t, self.value(t)))
            from pysmt.typing import INT, REAL
            doms = [(INT, list(self.INT_DOM)), (REAL, list(self.REAL_DOM))]
            for cn, ct in sorted(customs.items()):
                doms.append((ct, [("u", cn, 0), ("u", cn, 1)]))
            out.append((sy, fn, doms))
        return out

    def _customs(self, f, acc):
        env_types = set()
        stack = [f]
        seen = set()
        while stack:
            x = stack.pop()
            if id(x) in seen:
                continue
            seen.add(id(x))
            if x.is_symbol():
                env_types.add(x.symbol_type())
            if x.is_quantifier():
                for v in x.quantifier_vars():
                    env_types.add(v.symbol_type())
            stack.extend(x.args())
            if x.is_function_application():
                env_types.add(x.function_name().symbol_type())
        def walk(t):
            if t.is_function_type():
                walk(t.return_type)
                for p in t.param_types:
                    walk(p)
            elif t.is_array_type():
                walk(t.index_type)
                walk(t.elem_type)
            elif t.is_custom_type():
                acc[str(t)] = t
        for t in env_types:
            walk(t)


# ------------------------------------------------------------------------------------------
def run_impl(text):
    """-> ("ok", script, env) | ("err", class, msg)"""
    env = Environment()
    parser = SmtLibParser(env)
    try:
        with warnings.catch_warnings():
            warnings.simplefilter("ignore")
            script = parser.get_script(io.StringIO(text))
        return ("ok", script, env)
    except RecursionError:
        raise
    except Exception as e:                     # any exception is a rejection
        return ("err", type(e).__name__, str(e)[:200])


UNKNOWN_LOGICS = ("UFLIA", "ALL", "UF")      # ignored by pySMT with a warning (numerals then denote Ints)
TERM_CMDS = ("assert", "define-fun", "get-value", "check-sat-assuming")


def expected_terms(gen, script):
    """pairs (what, intended FNode, implementation FNode) for every term-carrying command;
    raises ValueError on a structural mismatch of the command lists"""
    exp = [e for (_, e) in gen.cmds]
    got = list(script.commands)
    if len(exp) != len(got):
        raise ValueError("command count: expected %d, got %d" % (len(exp), len(got)))
    pairs = []
    for i, (e, c) in enumerate(zip(exp, got)):
        kind = e[0]
        if kind == "assert":
            if c.name != "assert":
                raise ValueError("command %d: expected assert, got %s" % (i, c.name))
            pairs.append(("assert#%d" % i, e[1]({}), c.args[0]))
        elif kind == "define-fun":
            if c.name != "define-fun":
                raise ValueError("command %d: expected define-fun, got %s" % (i, c.name))
            name, formals, rtype, body = c.args
            _, n, params, t, db = e
            if name != n:
                raise ValueError("command %d: define-fun name %r != %r" % (i, name, n))
            if len(formals) != len(params):
                raise ValueError("command %d: define-fun arity" % i)
            pe = {}
            for (u, pt), fs in zip(params, formals):
                if wire.enc_type(fs.symbol_type()) != wire.enc_type(gen.ptype(pt)):
                    raise ValueError("command %d: formal %s has sort %s" % (i, fs, fs.symbol_type()))
                pe[u] = gen.msym(fs.symbol_name(), pt)
            if wire.enc_type(rtype) != wire.enc_type(gen.ptype(t)):
                raise ValueError("command %d: define-fun return sort %s" % (i, rtype))
            pairs.append(("define-fun#%d" % i, db(pe), body))
        elif kind == "terms":
            if c.name != e[1]:
                raise ValueError("command %d: expected %s, got %s" % (i, e[1], c.name))
            if len(c.args) != len(e[2]):
                raise ValueError("command %d: %s has %d terms, expected %d" % (i, e[1], len(c.args), len(e[2])))
            for j, (d, a) in enumerate(zip(e[2], c.args)):
                pairs.append(("%s#%d.%d" % (e[1], i, j), d({}), a))
        elif kind == "omt1":
            if c.name != e[1]:
                raise ValueError("command %d: expected %s, got %s" % (i, e[1], c.name))
            pairs.append(("%s#%d" % (e[1], i), e[2]({}), c.args[0]))
        elif kind == "omtN":
            if c.name != e[1] or len(c.args[0]) != len(e[2]):
                raise ValueError("command %d: %s has %d terms, expected %d" % (i, e[1], len(c.args[0]), len(e[2])))
            for j, (d, a) in enumerate(zip(e[2], c.args[0])):
                pairs.append(("%s#%d.%d" % (e[1], i, j), d({}), a))
        elif kind == "declare":
            if c.name not in ("declare-fun", "declare-const"):
                raise ValueError("command %d: expected declaration, got %s" % (i, c.name))
            s = c.args[0]
            _, n, t, ptys = e
            want = wire.enc_symty(gen.msym(n, t, ptys).symbol_type()) if True else None
            if s.symbol_name() != n or wire.enc_symty(s.symbol_type()) != want:
                raise ValueError("command %d: declared %s : %s, expected %s : %s" % (i, s.symbol_name(), s.symbol_type(), n, want))
        elif kind == "declare-sort":
            if c.name != "declare-sort" or c.args[0].name != e[1] or c.args[0].arity != e[2]:
                raise ValueError("command %d: declare-sort mismatch" % i)
        elif kind == "define-sort":
            if c.name != "define-sort" or c.args[0] != e[1]:
                raise ValueError("command %d: define-sort mismatch" % i)
        elif kind == "set-logic":
            if c.name != "set-logic" or (str(c.args[0]) != e[1] and not (e[1] in UNKNOWN_LOGICS and c.args[0] is None)):
                raise ValueError("command %d: set-logic %s, expected %s" % (i, c.args[0], e[1]))
        elif kind in ("push", "pop"):
            if c.name != kind or c.args != [e[1]]:
                raise ValueError("command %d: %s %r, expected %r" % (i, kind, c.args, e[1]))
        elif kind == "plain":
            if c.name != e[1]:
                raise ValueError("command %d: expected %s, got %s" % (i, e[1], c.name))
    return pairs


K_TEXTS = []
STD_QUEUE = []


def std_items(ans):
    """items of a `readstd` answer -> list of lists of wire terms (one list per command)"""
    tk = wire.Tok(ans)
    assert tk.next() == "ok"
    n = tk.nat()
    out = []

    def term():
        i0 = tk.i
        wire.dec_term(tk)
        return " ".join(tk.t[i0:tk.i])
    for _ in range(n):
        t = tk.next()
        if t == "-":
            out.append([])
        elif t == "A":
            out.append([term()])
        elif t == "T":
            k = tk.nat()
            out.append([term() for _ in range(k)])
        elif t == "F":
            tk.next()
            k = tk.nat()
            for _ in range(k):
                tk.next()
                wire.dec_type(tk)
            wire.dec_type(tk)
            term()
            out.append([])
        else:
            raise ValueError("unexpected item %r" % t)
    return out


def run_std_oracle(ctx):
    """second, independent oracle: the Lean standard reader (`Std.stepStd`/`readStd`) on the very same text"""
    if not STD_QUEUE:
        return
    try:
        answers = ctx.lean_run_sharded("C08", ["readstd " + hx(t) for t, _, _, _ in STD_QUEUE])
    except common.LeanError as e:
        ctx.report_l("driver C08 does not run", str(e))
        return
    lines, meta = [], []
    for (text, pairs, rep, ig), ans in zip(STD_QUEUE, answers):
        if not ans.startswith("ok"):
            ctx.count("std_" + ans.split()[0])
            if ans.startswith("err"):
                msg = bytes.fromhex(ans.split()[2]).decode("utf-8", "replace") if len(ans.split()) > 2 else ""
                ctx.count("std_err:" + ":".join(msg.split(":")[1:3])[:50].strip())
            continue
        ctx.count("std_accepts")
        try:
            items = std_items(ans)
        except (ValueError, IndexError, AssertionError) as e:
            ctx.infra("cannot decode a readstd answer: %r" % (e,))
            continue
        for what, got in pairs:
            idx = what.split("#")[1]
            ci = int(idx.split(".")[0])
            ai = int(idx.split(".")[1]) if "." in idx else 0
            if ci >= len(items) or ai >= len(items[ci]):
                ctx.infra("readstd answer does not align with the script at %s" % what)
                continue
            if _tree_size(got) > MAX_TREE:
                continue
            try:
                interps = ig.sample([got], n=4)
                parts = ["chk_equiv_nofv", str(len(interps))]
                for (sy, fn, doms) in interps:
                    parts.append(wire.enc_interp(sy, fn, doms))
                parts.append(items[ci][ai])
                parts.append(wire.enc_term(got))
            except wire.OutOfFragment:
                continue
            lines.append(" ".join(parts))
            meta.append(({"oracle": "std-reader", "command": what.split("#")[0]},
                         dict(rep, command=what, returned=semantic.readable(got))))
    try:
        answers = ctx.lean_run_sharded("Sem", lines)
    except common.LeanError as e:
        ctx.report_l("driver Sem does not run", str(e))
        return
    for line, ans, (sig, rep) in zip(lines, answers, meta):
        if ans.startswith("ok"):
            ctx.count("std_compared", int(ans.split()[1]))
            continue
        if ans.startswith("bad-op"):
            ctx.infra("Sem driver rejected a request: %s" % ans)
            continue
        ctx.report_s(dict(sig, kind=ans.split()[1]),
                     "the term returned for %s differs from the standard reader's (Lean `readStd`) elaboration of the text (%s): "
                     "returned %s" % (rep["command"], ans[:80], rep["returned"]), dict(rep, request=line, answer=ans))


def gen_script(rng, profile="std", kind="build"):
    for _ in range(20):
        try:
            g = getattr(ScriptGen(rng, profile), kind)()
        except Rejectable:
            continue
        return g
    raise RuntimeError("generator cannot produce a script")


# ------------------------------------------------------------------------------------------
# corpus
CORPUS_REJECTED = {"fuzzed/QF_UFNIA.smt2.bz2": "PysmtSyntaxError", "small_set/negative/wrong1.smt2.bz2": "PysmtTypeError"}


def corpus_files(repo):
    base = os.path.join(repo, "pysmt", "test", "smtlib")
    fs = []
    for pat in ("small_set/*/*", "fuzzed/*.bz2", "omt/*.smt2*", "griggio/*.bz2"):
        fs += glob.glob(os.path.join(base, pat))
    return base, sorted(fs)


def read_file(path):
    if path.endswith(".bz2"):
        return bz2.open(path, "rt").read()
    return open(path).read()


def run_corpus(ctx):
    base, files = corpus_files(common.REPO)
    if not files:
        ctx.infra("offline corpus not found under %s" % base)
        return
    small = [f for f in files if os.path.getsize(f) < 3000]
    big = [f for f in files if f not in small]
    if ctx.tier == "quick":
        todo = small + ctx.rng.sample(big, min(6, len(big)))
    else:
        todo = files
    for f in todo:
        if ctx.time_left() < 45:
            break
        rel = os.path.relpath(f, base)
        text = read_file(f)
        res = run_impl(text)
        ctx.case("corpus:" + rel)
        ctx.count("corpus_files")
        want_err = CORPUS_REJECTED.get(rel)
        if want_err:
            if res[0] == "ok":
                ctx.report_s({"oracle": "reject", "kind": "corpus-negative", "file": rel},
                             "the ill-formed benchmark %s is now accepted" % rel, {"file": rel})
            continue
        if res[0] == "err":
            ctx.report_s({"oracle": "accept", "kind": "corpus", "file": rel, "error": res[1]},
                         "benchmark %s of the offline corpus is no longer accepted: %s %s" % (rel, res[1], res[2]),
                         {"file": rel})
            continue
        n = len(res[1].commands)
        want = CORPUS_COUNTS.get(rel)
        if want is not None and want != n:
            ctx.report_s({"oracle": "accept", "kind": "corpus-commands", "file": rel},
                         "benchmark %s: %d commands read, %d expected" % (rel, n, want), {"file": rel})


CORPUS_COUNTS = {'fuzzed/AUFLIA.smt2.bz2': 16,
 'fuzzed/AUFLIRA.smt2.bz2': 24,
 'fuzzed/AUFNIRA.smt2.bz2': 23,
 'fuzzed/QF_AUFBV.smt2.bz2': 10,
 'fuzzed/QF_AUFLIA.smt2.bz2': 17,
 'fuzzed/QF_AX.smt2.bz2': 19,
 'fuzzed/QF_BV.smt2.bz2': 10,
 'fuzzed/QF_IDL.smt2.bz2': 14,
 'fuzzed/QF_LIA.smt2.bz2': 10,
 'fuzzed/QF_LRA.smt2.bz2': 9,
 'fuzzed/QF_NIA.smt2.bz2': 9,
 'fuzzed/QF_NRA.smt2.bz2': 9,
 'fuzzed/QF_RDL.smt2.bz2': 14,
 'fuzzed/QF_UF.smt2.bz2': 25,
 'fuzzed/QF_UFBV.smt2.bz2': 12,
 'fuzzed/QF_UFIDL.smt2.bz2': 12,
 'fuzzed/QF_UFLIA.smt2.bz2': 10,
 'fuzzed/QF_UFLRA.smt2.bz2': 14,
 'fuzzed/QF_UFNRA.smt2.bz2': 13,
 'fuzzed/QF_UFRDL.smt2.bz2': 15,
 'griggio/test1.smt2.bz2': 14,
 'griggio/test2.smt2.bz2': 5,
 'griggio/test3.smt2.bz2': 9,
 'griggio/test4.smt2.bz2': 9,
 'griggio/test5.smt2.bz2': 11,
 'griggio/test6.smt2.bz2': 7,
 'omt/clique.smt2': 22,
 'omt/clique_bool.smt2': 14,
 'omt/coloring.smt2': 31,
 'omt/omt_test1.smt2.bz2': 19,
 'omt/omt_test2.smt2.bz2': 14,
 'omt/omt_test3.smt2.bz2': 9,
 'omt/shortpath.smt2': 30,
 'omt/smtlib2_allsat.smt2': 22,
 'omt/smtlib2_bitvector.smt2': 7,
 'omt/smtlib2_boxed.smt2': 13,
 'omt/smtlib2_boxed_int.smt2': 13,
 'omt/smtlib2_boxed_variant.smt2': 10,
 'omt/smtlib2_combination.smt2': 22,
 'omt/smtlib2_incremental.smt2': 18,
 'omt/smtlib2_lexicographic.smt2': 25,
 'omt/smtlib2_load_objective_model.smt2': 11,
 'omt/smtlib2_maxsmt.smt2': 11,
 'omt/smtlib2_maxsmt_real_weight.smt2': 11,
 'omt/smtlib2_minmax_simple.smt2': 12,
 'omt/smtlib2_pareto.smt2': 16,
 'omt/vertex_cover.smt2': 25,
 'small_set/BV/AR-fixpoint-1.smt2.bz2': 8,
 'small_set/BV/audio_ac97_common.cpp.smt2.bz2': 8,
 'small_set/LRA/intersection-example-simple.proof-node394346.smt2.bz2': 27,
 'small_set/LRA/intersection-example-simple.proof-node679466.smt2.bz2': 28,
 'small_set/LRA/water_tank-node21140.smt2.bz2': 13,
 'small_set/LRA/water_tank-node22228.smt2.bz2': 13,
 'small_set/LRA/water_tank-node24658.smt2.bz2': 13,
 'small_set/LRA/water_tank-node9350.smt2.bz2': 13,
 'small_set/QF_ABV/a268test0002.smt2.bz2': 12,
 'small_set/QF_ABV/com.galois.ecc.P384ECC64.group_add6.short.smt2.bz2': 3525,
 'small_set/QF_ALIA/ios_t1_ios_np_sf_ai_00001_001.cvc.smt2.bz2': 25,
 'small_set/QF_ALIA/pointer-invalid-15.smt2.bz2': 197,
 'small_set/QF_AUFBV/com.galois.ecc.P384ECC64.mod_div10.short.smt2.bz2': 226,
 'small_set/QF_AUFLIA/array_incompleteness1.smt2.bz2': 17,
 'small_set/QF_AUFLIA/swap_invalid_t1_pp_nf_ai_00002_002.cvc.smt2.bz2': 12,
 'small_set/QF_BV/bench_4631.smt2.bz2': 4850,
 'small_set/QF_BV/bench_4631_simp.smt2.bz2': 4842,
 'small_set/QF_BV/bench_5200.smt2.bz2': 148,
 'small_set/QF_BV/bench_9457.smt2.bz2': 604,
 'small_set/QF_BV/bench_9457_simp.smt2.bz2': 459,
 'small_set/QF_LIA/issue_159.smt2.bz2': 4,
 'small_set/QF_LIA/prp-20-46.smt2.bz2': 41,
 'small_set/QF_LIA/prp-21-46.smt2.bz2': 41,
 'small_set/QF_LIA/prp-22-46.smt2.bz2': 41,
 'small_set/QF_LIA/prp-23-46.smt2.bz2': 41,
 'small_set/QF_LIA/prp-23-47.smt2.bz2': 42,
 'small_set/QF_LIA/prp-24-46.smt2.bz2': 41,
 'small_set/QF_LIA/prp-24-47.smt2.bz2': 42,
 'small_set/QF_LIA/prp-24-48.smt2.bz2': 43,
 'small_set/QF_LIA/prp-25-46.smt2.bz2': 41,
 'small_set/QF_LIA/prp-25-47.smt2.bz2': 42,
 'small_set/QF_LIA/prp-25-48.smt2.bz2': 43,
 'small_set/QF_LIA/prp-25-49.smt2.bz2': 44,
 'small_set/QF_LIRA/lira1.smt2.bz2': 15,
 'small_set/QF_LIRA/prp-20-46.smt2.bz2': 41,
 'small_set/QF_LRA/simple_startup_11nodes.abstract.base.smt2.bz2': 146,
 'small_set/QF_LRA/simple_startup_12nodes.synchro.base.smt2.bz2': 157,
 'small_set/QF_LRA/simple_startup_14nodes.abstract.base.smt2.bz2': 179,
 'small_set/QF_LRA/simple_startup_14nodes.synchro.induct.smt2.bz2': 182,
 'small_set/QF_LRA/simple_startup_15nodes.abstract.base.smt2.bz2': 190,
 'small_set/QF_LRA/simple_startup_3nodes.bug.induct.smt2.bz2': 73,
 'small_set/QF_LRA/simple_startup_4nodes.synchro.base.smt2.bz2': 69,
 'small_set/QF_LRA/simple_startup_8nodes.missing.induct.smt2.bz2': 128,
 'small_set/QF_LRA/simple_startup_8nodes.synchro.base.smt2.bz2': 113,
 'small_set/QF_LRA/simple_startup_8nodes.synchro.induct.smt2.bz2': 116,
 'small_set/QF_LRA/simple_startup_9nodes.abstract.base.smt2.bz2': 124,
 'small_set/QF_LRA/uart-10.induction.cvc.smt2.bz2': 191,
 'small_set/QF_LRA/uart-11.induction.cvc.smt2.bz2': 208,
 'small_set/QF_LRA/uart-14.induction.cvc.smt2.bz2': 259,
 'small_set/QF_LRA/uart-16.induction.cvc.smt2.bz2': 293,
 'small_set/QF_LRA/uart-18.induction.cvc.smt2.bz2': 327,
 'small_set/QF_LRA/uart-26.induction.cvc.smt2.bz2': 463,
 'small_set/QF_LRA/uart-6.induction.cvc.smt2.bz2': 123,
 'small_set/QF_LRA/uart-8.induction.cvc.smt2.bz2': 157,
 'small_set/QF_NIA/aproveSMT3509292547826641386.smt2.bz2': 14,
 'small_set/QF_NIA/problem-000158.cvc.2.smt2.bz2': 34,
 'small_set/QF_NIA/term-DtOD2C.smt2.bz2': 116,
 'small_set/QF_NRA/ball_count_2d_hill_simple.05.redlog_global_6.smt2.bz2': 100,
 'small_set/QF_NRA/cos-problem-12-chunk-0004.smt2.bz2': 11,
 'small_set/QF_NRA/simple_ballistics_reach.01.seq_lazy_linear_enc_global_10.smt2.bz2': 107,
 'small_set/QF_UF/test0.smt2.bz2': 9,
 'small_set/QF_UFBV/btfnt_atlas_out.smt2.bz2': 113,
 'small_set/QF_UFBV/calc2_sec2_bmc10.smt2.bz2': 61,
 'small_set/UFBV/small-seq-fixpoint-10.smt2.bz2': 28,
 'small_set/UFBV/small-swap2-fixpoint-5.smt2.bz2': 23,
 'small_set/vmt/c432_0f.vmt': 2308,
 'small_set/vmt/c432_1f.vmt': 2358,
 'small_set/vmt/c432_n.vmt': 765}


# ------------------------------------------------------------------------------------------
MAX_TREE = 150000
_CALLS = [0]


def _trim_global_caches():
    """`f.get_free_variables()`, `f.get_type()`, ... go through the oracles of pySMT's GLOBAL environment, whose memo tables
    are keyed by FNodes hashed by their per-environment node id: filled with the terms of thousands of environments they
    degenerate into collision chains (the time per script grows linearly with the number of scripts).  The tables are only
    caches: they are emptied every few scripts."""
    _CALLS[0] += 1
    if _CALLS[0] % 20:
        return
    from pysmt.environment import get_env
    for v in vars(get_env()).values():
        memo = getattr(v, "memoization", None)
        if isinstance(memo, dict):
            memo.clear()


def _tree_size(f):
    """number of nodes of the formula unfolded as a tree"""
    memo = {}
    stack = [(f, False)]
    while stack:
        n, done = stack.pop()
        if id(n) in memo:
            continue
        if not done:
            stack.append((n, True))
            for c in n.args():
                if id(c) not in memo:
                    stack.append((c, False))
        else:
            memo[id(n)] = 1 + sum(memo[id(c)] for c in n.args())
    return memo[id(f)]


def check_script(ctx, g, text, ig, lines, meta, stream, std_always=False, n_interps=None):
    """run the implementation on `text`; queue semantic comparisons.
    std_always: consult the standard reader also when the script holds forms the parser may reject (it is accepted here)"""
    K_TEXTS.append((stream, text))
    _trim_global_caches()
    res = run_impl(text)
    nontriv = text
    ctx.case(nontriv)
    for tg in g.tags:
        ctx.count("tag_" + tg)
    rep = {"text": text, "stream": stream, "tags": sorted(g.tags), "may_reject": sorted(g.may_reject)}
    if res[0] == "err":
        ctx.count("rejected")
        if g.may_reject:
            ctx.count("rejected_allowed")
            for x in g.may_reject:
                ctx.count("reject_" + x)
            return
        ctx.report_s({"oracle": "accept", "kind": "generated", "error": res[1], "stream": stream},
                     "a script made only of constructs handled today is rejected: %s %s" % (res[1], res[2]),
                     dict(rep, error="%s: %s" % (res[1], res[2])))
        return
    ctx.count("accepted")
    if g.may_reject:
        for x in g.may_reject:
            ctx.count("accepted_" + x)
    script = res[1]
    try:
        pairs = expected_terms(g, script)
    except ValueError as e:
        ctx.report_s({"oracle": "commands", "kind": "structure", "stream": stream},
                     "the command list returned for the script differs from the text: %s" % e, dict(rep, error=str(e)))
        return
    if std_always or not (g.nonstd or g.sugar or g.may_reject):
        STD_QUEUE.append((text, [(what, got) for what, _, got in pairs if not what.startswith("define-fun")], rep, ig))
    for what, want, got in pairs:
        sig = {"oracle": "meaning", "stream": stream, "command": what.split("#")[0]}
        if g.capture_prone:
            sig["shape"] = "define-fun-call-capture-prone"
        elif _crosses_same_named_binder(want):
            sig["shape"] = "expansion-under-same-named-binder"
        elif g.may_reject:
            sig["shape"] = "+".join(sorted(g.may_reject))
        if max(_tree_size(want), _tree_size(got)) > MAX_TREE:
            # the oracle evaluates terms as trees: a term whose unfolding is this large is not compared (counted)
            ctx.count("sem_skipped_tree_too_large")
            continue
        try:
            interps = ig.sample([want, got], n=n_interps or (4 if ctx.tier == "quick" else 8))
            line = semantic.chk_equiv_line(want, got, interps, check_fv=True)
        except wire.OutOfFragment as e:
            ctx.count("out_of_fragment")
            continue
        lines.append(line)
        meta.append((sig, dict(rep, command=what, intended=semantic.readable(want), returned=semantic.readable(got))))


def finish_sem(ctx, lines, meta):
    try:
        answers = ctx.lean_run_sharded("Sem", lines)
    except common.LeanError as e:
        ctx.report_l("driver Sem does not run", str(e))
        return
    for line, ans, (sig, rep) in zip(lines, answers, meta):
        if ans.startswith("ok"):
            parts = ans.split()
            ctx.count("sem_compared", int(parts[1]))
            ctx.count("sem_skipped_div0", int(parts[2]))
            ctx.sample({"text": rep["text"][:300], "command": rep["command"], "returned": rep["returned"]})
            continue
        if ans.startswith("bad-op"):
            ctx.infra("Sem driver rejected a request: %s :: %s" % (ans, rep["text"][:200]))
            continue
        s = dict(sig, kind=ans.split()[1])
        ctx.report_s(s, "the term returned for %s does not denote what the text denotes (%s): returned %s, intended %s"
                     % (rep["command"], ans[:80], rep["returned"], rep["intended"]), dict(rep, request=line, answer=ans))


def run_malformed(ctx, n):
    for i in range(n):
        if ctx.time_left() < 40:
            break
        g = gen_script(ctx.rng, "strict")
        try:
            kind, text = malform(ctx.rng, g)
        except (IndexError, Rejectable):
            continue
        res = run_impl(text)
        K_TEXTS.append(("malformed-" + kind, text))
        ctx.case("malformed:" + text)
        ctx.count("malformed_" + kind)
        if res[0] == "ok":
            ctx.report_s({"oracle": "reject", "kind": kind},
                         "malformed script (%s) accepted" % kind, {"text": text, "kind": kind})


# ------------------------------------------------------------------------------------------
# undeclared symbols in every syntactic position (all must be rejected)
UNDECLARED_NAMES = ["mgs", "undeclared", "zz9", "x!", "True", "FALSE", "nil", "Msg", "cnt_", "flg", "no such", "msg ",
                    "String", "Int", "Bool", "rat2", "vec'"]
OWN_SYMBOL = {"S": "msg", "I": "cnt", "B": "flag", "R": "rat", "V": "vec", "A": "arr"}
OWN_SORT = {"S": "String", "I": "Int", "B": "Bool", "R": "Real", "V": ["_", "BitVec", "4"], "A": ["Array", "Int", "Int"]}
assert not (set(UNDECLARED_NAMES) | set(OWN_SYMBOL.values())) & (set(SIMPLE_NAMES) | set(QUOTED_NAMES))


def _undeclared_contexts(T):
    """Bool-valued terms with a hole of sort T: [(tag, builder)]"""
    s, so, f, d = OWN_SYMBOL[T], OWN_SORT[T], "f" + T, "d" + T
    c = [("eq-right", lambda H: ["=", s, H]), ("eq-left", lambda H: ["=", H, s]), ("distinct", lambda H: ["distinct", s, H]),
         ("ite-branch", lambda H: ["=", s, ["ite", "flag", H, s]]),
         ("uf-argument", lambda H: [f, H]), ("defined-fun-argument", lambda H: [d, H]),
         ("let-bound-term", lambda H: ["let", [["l!", H]], ["=", "l!", s]]),
         ("let-bound-term-second", lambda H: ["let", [["l!", s], ["k!", H]], ["=", "l!", "k!"]]),
         ("let-body", lambda H: ["let", [["l!", s]], ["=", "l!", H]]),
         ("quantifier-body", lambda H: ["forall", [["q!", "Int"]], ["=", s, H]]),
         ("quantifier-body-2", lambda H: ["exists", [["q!", so], ["q2!", "Bool"]], ["or", "q2!", ["=", "q!", H]]]),
         ("nested", lambda H: ["not", ["and", "flag", ["or", ["=", s, H], "flag"]]])]
    if T == "S":
        c += [("str.len", lambda H: ["=", "cnt", ["str.len", H]]), ("str.++", lambda H: ["=", "msg", ["str.++", "msg", H]]),
              ("str.prefixof", lambda H: ["str.prefixof", H, "msg"]), ("str.++-first", lambda H: ["=", ["str.++", H, "msg"], "msg"])]
    elif T == "I":
        c += [("<", lambda H: ["<", "cnt", H]), ("+", lambda H: ["=", "cnt", ["+", "cnt", H]]),
              ("unary-minus", lambda H: ["=", "cnt", ["-", H]]), ("select-index", lambda H: ["=", "cnt", ["select", "arr", H]]),
              ("to_real", lambda H: ["=", "rat", ["to_real", H]]), ("store-value", lambda H: ["=", "arr", ["store", "arr", "cnt", H]])]
    elif T == "B":
        c += [("not", lambda H: ["not", H]), ("and", lambda H: ["and", "flag", H]), ("=>", lambda H: ["=>", H, "flag"]),
              ("ite-condition", lambda H: ["ite", H, "flag", "flag"]), ("xor", lambda H: ["xor", H, "flag"]),
              ("or-last", lambda H: ["or", "flag", "flag", H]), ("whole-term", lambda H: H)]
    elif T == "R":
        c += [("<", lambda H: ["<", "rat", H]), ("/", lambda H: ["=", "rat", ["/", "rat", H]]),
              ("*", lambda H: ["=", "rat", ["*", "rat", H]]), ("-", lambda H: ["=", "rat", ["-", H, "rat"]])]
    elif T == "V":
        c += [("bvult", lambda H: ["bvult", "vec", H]), ("bvadd", lambda H: ["=", "vec", ["bvadd", "vec", H]]),
              ("bvnot", lambda H: ["=", "vec", ["bvnot", H]]),
              ("extract", lambda H: ["=", [["_", "extract", "1", "0"], H], [["_", "extract", "1", "0"], "vec"]]),
              ("concat", lambda H: ["=", ["concat", "vec", H], ["concat", "vec", "vec"]]),
              ("zero_extend", lambda H: ["=", [["_", "zero_extend", "2"], H], [["_", "zero_extend", "2"], "vec"]]),
              ("bv2nat", lambda H: ["=", "cnt", ["bv2nat", H]])]
    elif T == "A":
        c += [("select-array", lambda H: ["=", "cnt", ["select", H, "cnt"]]),
              ("store-array", lambda H: ["=", "arr", ["store", H, "cnt", "cnt"]])]
    return c


def undeclared_case(rng, gen):
    """-> (position tag, text with an undeclared name, the same text with a declared name of the right sort in its place | None)"""
    r = rng
    T = r.choice(["S", "S", "S", "I", "I", "B", "B", "R", "V", "A"])
    s, so = OWN_SYMBOL[T], OWN_SORT[T]
    pre = [c[0] for c in gen.cmds]
    pre += [["declare-fun", OWN_SYMBOL[k], [], OWN_SORT[k]] for k in "SIBRVA"]
    pre += [["declare-fun", "f" + T, [so], "Bool"], ["define-fun", "d" + T, [["a!", so]], "Bool", ["=", "a!", s]]]
    k = r.random()
    if k < 0.08:
        # names whose scope has ended
        which = r.choice(["after-let-scope", "after-quantifier-scope", "after-define-fun-parameters", "after-let-in-next-command"])
        if which == "after-let-scope":
            bad = [["assert", ["and", ["let", [["l!", "flag"]], "l!"], "l!"]]]
        elif which == "after-quantifier-scope":
            bad = [["assert", ["and", ["forall", [["q!", "Int"]], ["<", "q!", "cnt"]], ["<", "q!", "cnt"]]]]
        elif which == "after-define-fun-parameters":
            bad = [["define-fun", "dd2!", [["pa2!", "Int"]], "Int", "pa2!"], ["assert", ["<", "pa2!", "cnt"]]]
        else:
            bad = [["assert", ["let", [["l!", "flag"]], "l!"]], ["assert", ["=", "l!", "flag"]]]
        return which, render_script(r, pre + bad, fancy=False), None
    N = r.choice(UNDECLARED_NAMES)
    hform, hole = r.choice([
        ("bare", lambda X: X), ("bare", lambda X: X), ("bare", lambda X: X),
        ("named", lambda X: ["!", X, ":named", "nmU!"]), ("named", lambda X: ["!", X, ":named", "nmU!"]),
        ("weight", lambda X: ["!", X, ":weight", "2"]), ("named+weight", lambda X: ["!", X, ":named", "nmU!", ":weight", "1"]),
        ("pattern", lambda X: ["!", X, ":pattern", [s]]), ("no-pattern", lambda X: ["!", X, ":no-pattern", s]),
        ("nested-annotation", lambda X: ["!", ["!", X, ":named", "nmA!"], ":named", "nmB!"]),
        ("user-attribute", lambda X: ["!", X, ":origin", "here"])])
    cs = _undeclared_contexts(T)
    ctag, ctx_ = r.choice(cs)
    cmds_b = [("assert", lambda t: [["assert", t]]), ("assert", lambda t: [["assert", t]]),
              ("assert-annotated", lambda t: [["assert", ["!", t, ":named", "nmC!"]]]),
              ("define-fun", lambda t: [["define-fun", "dd!", [], "Bool", t]]),
              ("define-fun-with-parameters", lambda t: [["define-fun", "dd!", [["pa!", so]], "Bool", t]]),
              ("get-value", lambda t: [["get-value", [t]]]), ("get-value-second", lambda t: [["get-value", ["flag", t]]]),
              ("assert-soft", lambda t: [["assert-soft", t]]),
              ("assert-soft-weighted", lambda t: [["assert-soft", t, ":weight", "2", ":id", "goal"]]),
              ("check-sat-assuming", lambda t: [["check-sat-assuming", [t]]]),
              ("then-used-bare", lambda t: [["assert", t], ["assert", t]])]
    cmds_t = []
    if T in "IRV":
        grow = (lambda H: ["bvadd", s, H]) if T == "V" else (lambda H: ["+", s, H])
        cmds_t = [("maximize", lambda H: [["maximize", grow(H)]]), ("minimize", lambda H: [["minimize", grow(H), ":id", "goal"]]),
                  ("minmax", lambda H: [["minmax", grow(H), s]]), ("maxmin", lambda H: [["maxmin", s, grow(H)]]),
                  ("define-fun-of-sort", lambda H: [["define-fun", "dd!", [], so, grow(H)]])]
    elif T == "S":
        cmds_t = [("define-fun-of-sort", lambda H: [["define-fun", "dd!", [], so, ["str.++", s, H]]])]
    if hform != "bare":
        # an annotated name as the whole term of a definition
        cmds_t.append(("define-fun-of-sort-whole", lambda H: [["define-fun", "dd!", [], so, H]]))
        cmds_t.append(("define-fun-of-sort-whole-with-parameters", lambda H: [["define-fun", "dd!", [["pa!", "Int"]], so, H]]))
    if cmds_t and r.random() < 0.25:
        wtag, wrap = r.choice(cmds_t)
        mk = lambda X: wrap(hole(X))
        pos = "%s/%s/%s" % (wtag, hform, T)
    else:
        wtag, wrap = r.choice(cmds_b)
        if ctag == "whole-term" and hform == "bare" and wtag not in ("assert", "assert-annotated", "then-used-bare"):
            wtag, wrap = cmds_b[0]         # (a lone unknown name as a whole command argument is the known F15b)
        mk = lambda X: wrap(ctx_(hole(X)))
        pos = "%s/%s/%s/%s" % (wtag, ctag, hform, T)
    ntok = N if _is_simple(N) and N not in ("String", "Int", "Bool") or r.random() < 0.5 and N in ("String", "Int", "Bool") \
        else "|" + N + "|"
    return pos, render_script(r, pre + mk(ntok), fancy=False), render_script(r, pre + mk(s), fancy=False)


def run_undeclared(ctx, n, forced=False):
    for i in range(n):
        if not forced and ctx.time_left() < 40:
            break
        for _ in range(8):
            # (the script in front is made of forms the parser handles: the rejection is due to the undeclared name)
            g = gen_script(ctx.rng, "strict")
            if not g.may_reject:
                break
        else:
            continue
        pos, text, control = undeclared_case(ctx.rng, g)
        if run_impl(render_script(ctx.rng, [c[0] for c in g.cmds], fancy=False))[0] == "err":
            ctx.count("undeclared_prefix_rejected")
            continue
        K_TEXTS.append(("malformed-undeclared", text))
        res = run_impl(text)
        ctx.case("undeclared:" + text)
        ctx.count("undeclared_" + pos.split("/")[0])
        ctx.count("undeclared_form_" + (pos.split("/")[-2] if "/" in pos else "scope"))
        if res[0] == "ok":
            parts = pos.split("/")
            ctx.report_s({"oracle": "reject", "kind": "undeclared-symbol", "form": parts[-2] if len(parts) > 1 else "scope-ended",
                          "sort": parts[-1] if len(parts) > 1 else "-"},
                         "a script with an undeclared name (position: %s) is accepted" % pos,
                         {"text": text, "kind": "undeclared-symbol", "position": pos})
        if control is not None:
            K_TEXTS.append(("undeclared-control", control))
            resc = run_impl(control)
            ctx.case("undeclared-control:" + control)
            if resc[0] == "err":
                ctx.report_s({"oracle": "accept", "kind": "generated", "error": resc[1], "stream": "undeclared-control",
                              "position": pos},
                             "the same script with a declared name in place of the undeclared one is rejected: %s %s"
                             % (resc[1], resc[2]), {"text": control, "error": "%s: %s" % (resc[1], resc[2])})
            else:
                ctx.count("undeclared_control_accepted")


# simultaneous let: fixed witnesses with hand-written meanings (x, y, z : Int; p, q : Bool)
LET_DECLS = "(declare-fun x () Int)(declare-fun y () Int)(declare-fun z () Int)(declare-fun p () Bool)(declare-fun q () Bool)"
LET_WITNESSES = [
    ("swap", "(assert (let ((x y) (y x)) (> x y)))", lambda m, x, y, z, p, q: m.LT(x, y)),
    ("swap-bool", "(assert (let ((p q) (q (not p))) (and p q)))", lambda m, x, y, z, p, q: m.And(q, m.Not(p))),
    ("uses-earlier", "(assert (let ((x (+ x 1)) (y (+ x 10))) (= y (+ x 9))))",
     lambda m, x, y, z, p, q: m.Equals(m.Plus(x, m.Int(10)), m.Plus(m.Plus(x, m.Int(1)), m.Int(9)))),
    ("rotation", "(assert (let ((x y) (y z) (z x)) (and (< x y) (< y z))))", lambda m, x, y, z, p, q: m.And(m.LT(y, z), m.LT(z, x))),
    ("nested", "(assert (let ((x y)) (let ((x (- x z)) (y x)) (< (- x y) 0))))",
     lambda m, x, y, z, p, q: m.LT(m.Minus(m.Minus(y, z), y), m.Int(0))),
    ("in-quantifier", "(assert (forall ((x Int)) (let ((x y) (y x)) (> x y))))", lambda m, x, y, z, p, q: m.ForAll([x], m.LT(x, y))),
    ("in-quantifier-2", "(assert (exists ((y Int)) (let ((y x) (z y)) (and (= y x) (< z y) (< z 0)))))",
     lambda m, x, y, z, p, q: m.Exists([y], m.And(m.Equals(x, x), m.LT(y, x), m.LT(y, m.Int(0))))),
    ("define-fun-parameters", "(define-fun f ((x Int) (y Int)) Bool (let ((x y) (y x)) (> x y)))(assert (f x (+ x 1)))",
     lambda m, x, y, z, p, q: m.LT(x, m.Plus(x, m.Int(1)))),
    ("define-fun-0", "(define-fun d () Int 7)(assert (let ((d x) (x d)) (= (- d x) (- x y))))",
     lambda m, x, y, z, p, q: m.Equals(m.Minus(x, m.Int(7)), m.Minus(m.Int(7), y))),
    ("three-uses-earlier", "(assert (let ((x (+ y 1)) (y (* 2 x)) (z (+ x y))) (= z (+ x y))))",
     lambda m, x, y, z, p, q: m.Equals(m.Plus(x, y), m.Plus(m.Plus(y, m.Int(1)), m.Times(m.Int(2), x)))),
]


def run_let_witnesses(ctx, ig, lines, meta):
    from pysmt.typing import INT, BOOL
    for name, cmd, build in LET_WITNESSES:
        text = LET_DECLS + cmd
        K_TEXTS.append(("let-witness", text))
        res = run_impl(text)
        ctx.case("let-witness:" + text)
        rep = {"text": text, "stream": "let-witness", "tags": [name], "may_reject": []}
        if res[0] == "err":
            ctx.report_s({"oracle": "accept", "kind": "generated", "error": res[1], "stream": "let-witness"},
                         "a script made only of constructs handled today is rejected: %s %s" % (res[1], res[2]),
                         dict(rep, error="%s: %s" % (res[1], res[2])))
            continue
        m = Environment().formula_manager
        want = build(m, *([m.Symbol(n, INT) for n in "xyz"] + [m.Symbol(n, BOOL) for n in "pq"]))
        idx = len(res[1].commands) - 1
        got = res[1].commands[idx].args[0]
        what = "assert#%d" % idx
        STD_QUEUE.append((text, [(what, got)], rep, ig))
        try:
            lines.append(semantic.chk_equiv_line(want, got, ig.sample([want, got], n=8), check_fv=True))
        except wire.OutOfFragment:
            continue
        meta.append(({"oracle": "meaning", "stream": "let-witness", "command": "assert"},
                     dict(rep, command=what, intended=semantic.readable(want), returned=semantic.readable(got))))


# ------------------------------------------------------------------------------------------
# command sequences read by ONE parser object (get_command_generator keeps the declarations between calls): a command that is
# rejected leaves nothing behind -- the commands that follow are read as a fresh parser reads them after the declarations alone
class _Cmds(object):
    def __init__(self, commands):
        self.commands = commands


def _feed(parser, text):
    """-> ("ok", [commands]) | ("err", class, msg)"""
    try:
        with warnings.catch_warnings():
            warnings.simplefilter("ignore")
            return ("ok", list(parser.get_command_generator(io.StringIO(text))))
    except RecursionError:
        raise
    except Exception as e:
        return ("err", type(e).__name__, str(e)[:200])


def failing_command(rng, g, names, undeclared):
    """a command that is rejected while binders of the names are open, after sibling binders of the SAME names were closed:
    -> (shape tag, s-expression)"""
    r = rng
    kinds = []

    def value(ty):
        if ty == "Int":
            return r.choice(["1", "2", "20", ["+", "c!", "1"], ["-", "7"]])
        return r.choice(["true", "false", ["not", "b!"]])

    def atom(n, ty):
        if ty == "Int":
            return r.choice([[">", n, "0"], ["=", ["+", n, "1"], "c!"], ["<", "c!", n]])
        return r.choice([["or", n, "b!"], ["not", n], ["=>", "b!", n]])

    def bind(n, inner):
        """inner: function type -> term (Bool)"""
        k = r.choice(["L", "L", "Q", "L2"])
        ty = r.choice(["Int", "Int", "Bool"])
        kinds.append(k[0])
        if k == "L":
            return ["let", [[n, value(ty)]], inner(ty)]
        if k == "L2":
            other = r.choice([x for x in names if x != n] or ["w!"])
            return ["let", [[other, value("Int")], [n, value(ty)]], inner(ty)]
        return [r.choice(["forall", "exists"]), [[n, ty]], inner(ty)]

    def closed(n, depth):
        def inner(ty):
            if depth > 0 and r.random() < 0.3:
                return ["and", atom(n, ty), closed(n, depth - 1)]
            return atom(n, ty)
        return bind(n, inner)

    fail_kind = r.choice(["undeclared", "undeclared", "undeclared", "ill-sorted", "arity", "unknown-operator", "unclosed"])

    def failure(n, ty):
        if fail_kind == "undeclared":
            return [">", n, undeclared] if ty == "Int" else ["or", n, undeclared]
        if fail_kind == "ill-sorted":
            return ["+", n, "true"] if ty == "Int" else ["<", n, "1"]
        if fail_kind == "arity":
            return ["not", atom(n, ty), atom(n, ty)]
        if fail_kind == "unknown-operator":
            return ["frobnicate!", n]
        return ["and", atom(n, ty), "<UNCLOSED>"]

    def failing(n, depth):
        def inner(ty):
            if depth > 0 and r.random() < 0.6:
                return siblings(depth - 1)
            return failure(n, ty)
        return bind(n, inner)

    def siblings(depth):
        n = r.choice(names)
        before = [closed(r.choice(names) if r.random() < 0.25 else n, 1) for _ in range(r.choice([1, 1, 2]))]
        if r.random() < 0.15:
            before.append(atom(n, "Int") if g_is_int(n) else "b!")
        after = [closed(n, 0)] if r.random() < 0.3 else []
        kinds.append("(")
        t = [r.choice(["and", "and", "or"])] + before + [failing(n, depth)] + after
        kinds.append(")")
        return t

    def g_is_int(n):
        e = g.scope.get(n)
        return e is not None and e.ty == I
    shape = r.choice(["siblings", "siblings", "siblings", "nested-siblings", "single", "all-closed"])
    if shape == "siblings":
        body = siblings(r.choice([0, 0, 1]))
    elif shape == "nested-siblings":
        n = r.choice(names)
        body = bind(n, lambda ty: siblings(r.choice([0, 1])))
    elif shape == "single":
        body = failing(r.choice(names), 0)
    else:
        n = r.choice(names)
        body = ["and", closed(n, 1), closed(n, 0), failure(n, "Int") if g_is_int(n) else [">", "c!", undeclared]]
    k = r.random()
    if k < 0.45:
        cmd, wtag = ["assert", body], "assert"
    elif k < 0.70:
        pn = r.choice(names)
        cmd, wtag = ["define-fun", "ff!", [[pn, r.choice(["Int", "Bool"])], ["k!", "Int"]], "Bool", body], "define-fun"
    elif k < 0.80:
        cmd, wtag = ["get-value", ["c!", body]], "get-value"
    elif k < 0.88:
        cmd, wtag = ["assert-soft", body, ":weight", "2"], "assert-soft"
    elif k < 0.94:
        cmd, wtag = ["check-sat-assuming", [body]], "check-sat-assuming"
    else:
        cmd, wtag = ["define-fun", "ff!", [], "Int", ["ite", body, "1", "0"]], "define-fun-0"
    return "%s/%s/%s/%s" % (wtag, shape, fail_kind, "".join(kinds)), cmd


SEQ_DECLS = "(declare-fun x () Int)(declare-fun y () Int)(declare-fun p () Bool)"
SEQ_WITNESSES = [
    # (failing command: sibling binders of one name, the last one open when the command is rejected; probe)
    ("(assert (and (let ((x 1)) (> x 0)) (let ((x 2)) (> x undeclared))))", "(assert (> x y))"),
    ("(define-fun f ((k Int)) Int (+ (let ((x 10)) x) (let ((x 20)) (+ x nope))))", "(assert (= (+ x 1) y))"),
    ("(assert (or (let ((x 1)) (> x 0)) (let ((x 2)) (> x 0)) (let ((x 3)) (> x nope))))", "(assert (> (+ x x) y))"),
    ("(assert (and (forall ((x Bool)) (or x p)) (exists ((x Bool)) (and x undeclared))))", "(assert (> x y))"),
    ("(define-fun f ((x Bool)) Bool (and (let ((x true)) x) (let ((x false)) (or x nope))))", "(assert (< x y))"),
    ("(assert (let ((x 5)) (and (let ((x 1)) (> x 0)) (exists ((x Int)) (> x 0)) (let ((x 2) (y 3)) (> x (+ y true))))))",
     "(assert (> (- x y) 0))"),
    ("(get-value ((let ((p false)) p) (let ((p (> x 0))) (and p nope))))", "(assert (=> p (> x y)))"),
    ("(assert (and (let ((x 1)) (> x 0)) (let ((x 2)) (> x 0", "(assert (> x y))"),
]


def run_sequence_witnesses(ctx, ig, lines, meta):
    for bad, probe in SEQ_WITNESSES:
        session, fresh = SmtLibParser(Environment()), SmtLibParser(Environment())
        rep = {"declarations": SEQ_DECLS, "failing": bad, "probes": [probe], "stream": "command-sequence",
               "text": SEQ_DECLS + bad + probe}
        ctx.case("sequence-witness:" + bad)
        if _feed(session, SEQ_DECLS)[0] != "ok" or _feed(fresh, SEQ_DECLS)[0] != "ok":
            continue
        if _feed(session, bad)[0] == "ok":
            ctx.report_s({"oracle": "reject", "kind": "sequence-failing-command", "detail": "witness"},
                         "malformed command accepted: %s" % bad, rep)
            continue
        a, b = _feed(session, probe), _feed(fresh, probe)
        sig0 = {"stream": "command-sequence", "after": bad.split()[0].strip("("), "shape": "witness"}
        if b[0] == "err":
            continue
        if a[0] == "err":
            ctx.report_s(dict(sig0, oracle="accept", kind="after-failed-command", error=a[1]),
                         "one parser object: after the rejected command %s the valid command %s is rejected (%s %s)"
                         % (bad, probe, a[1], a[2]), dict(rep, probe=probe))
            continue
        want, got = b[1][0].args[0], a[1][0].args[0]
        lines.append(semantic.chk_equiv_line(want, got, ig.sample([want, got], n=8), check_fv=True))
        meta.append((dict(sig0, oracle="meaning", command="assert"),
                     dict(rep, command="assert#0", intended=semantic.readable(want), returned=semantic.readable(got))))


def run_command_sequences(ctx, ig, lines, meta, n, forced=False):
    quick = ctx.tier == "quick"
    run_sequence_witnesses(ctx, ig, lines, meta)
    for i in range(n):
        if not forced and ctx.time_left() < (45 if quick else 300):
            break
        r = ctx.rng
        g = ScriptGen(r, "strict")
        g.configure(r.choice([("int",), ("int",), ("int", "real"), ("int", "bv")]), True)
        if g.logic in ("QF_NIA",):
            g.logic = "QF_LIA"
        g.prelude()
        for t in [I, I, B] + [r.choice([I, B, r.choice(g.value_types())]) for _ in range(r.randint(0, 2))]:
            g.declare_const(t)
        for nm, t in (("c!", I), ("b!", B)):
            g.scope[nm] = Entry("sym", t, g.msym(nm, t))
            g.cmds.append((["declare-fun", nm, [], g.sort_sx(t)], ("declare", nm, t, [])))
        ndecl = len(g.cmds)
        declared = [x for x, e in g.scope.items() if e.kind == "sym" and x not in ("c!", "b!") and e.ty in (I, B)]
        names = r.sample(declared, min(len(declared), r.choice([1, 1, 2])))
        ghost = "e!"                                  # a name without declaration, bound by the failing command as well
        if r.random() < 0.3:
            names.append(ghost)
        shape, bad = failing_command(r, g, [symtok_plain(x) for x in names], "undeclared!")
        bad_text = render(r, bad, False).replace("<UNCLOSED>", "(and b! b!")
        # probes: valid commands that mention the names, with the generator's own meaning
        try:
            for _ in range(r.choice([2, 3])):
                nm = r.choice([x for x in names if x != ghost] or declared)
                k = r.random()
                if k < 0.6:
                    sx, d, ty = g.around(nm, 2, g.scope)
                    if ty != B:
                        sx, d = g.ap("<" if is_num(ty) else "eq", (sx, d), g.gen(ty, 1, g.scope))
                    g.cmds.append((["assert", sx], ("assert", d)))
                elif k < 0.8:
                    g.define_fun(body_fn=lambda t, sc, nm=nm: _coerce(g, g.around(nm, 2, sc), t, sc))
                else:
                    sx, d, ty = g.around(nm, 1, g.scope)
                    g.cmds.append((["get-value", [sx]], ("terms", "get-value", [d])))
        except Rejectable:
            continue
        if g.may_reject:
            continue
        decl_text = render_script(r, [c[0] for c in g.cmds[:ndecl]], fancy=False)
        probes = [render(r, c[0], False) for c in g.cmds[ndecl:]]
        ghost_probe = "(assert (> e! c!))" if ghost in names else None
        _trim_global_caches()
        session, fresh = SmtLibParser(Environment()), SmtLibParser(Environment())
        rep = {"declarations": decl_text, "failing": bad_text, "probes": probes, "shape": shape, "stream": "command-sequence",
               "text": decl_text + bad_text + "\n" + "\n".join(probes), "tags": [shape], "may_reject": []}
        sd, fd = _feed(session, decl_text), _feed(fresh, decl_text)
        ctx.case("sequence:" + rep["text"])
        ctx.count("sequence_" + shape.split("/")[1])
        if sd[0] != "ok" or fd[0] != "ok":
            ctx.report_s({"oracle": "accept", "kind": "generated", "error": (sd if sd[0] == "err" else fd)[1],
                          "stream": "command-sequence"}, "declarations rejected: %s" % (sd[1:] if sd[0] == "err" else fd[1:],), rep)
            continue
        fb = _feed(session, bad_text)
        if fb[0] == "ok":
            ctx.report_s({"oracle": "reject", "kind": "sequence-failing-command", "detail": shape.split("/")[2]},
                         "malformed command accepted: %s" % bad_text, rep)
            continue
        sig0 = {"stream": "command-sequence", "after": shape.split("/")[0], "shape": shape.split("/")[1]}
        got_cmds, ok = list(sd[1]), True
        for ptext in probes:
            a, b = _feed(session, ptext), _feed(fresh, ptext)
            if b[0] == "err":
                ctx.count("sequence_probe_rejected_by_fresh_parser")
                ok = False
                break
            if a[0] == "err":
                ctx.report_s(dict(sig0, oracle="accept", kind="after-failed-command", error=a[1]),
                             "one parser object: after the rejected command %s the valid command %s is rejected (%s %s); a fresh "
                             "parser reading the declarations accepts it" % (bad_text, ptext, a[1], a[2]), dict(rep, probe=ptext))
                ok = False
                break
            got_cmds += a[1]
        if ghost_probe:
            a, b = _feed(session, ghost_probe), _feed(fresh, ghost_probe)
            if a[0] == "ok" and b[0] == "err":
                ctx.report_s(dict(sig0, oracle="reject", kind="after-failed-command"),
                             "one parser object: after the rejected command %s the command %s (undeclared name) is accepted as %s"
                             % (bad_text, ghost_probe, semantic.readable(a[1][0].args[0])), dict(rep, probe=ghost_probe))
        if not ok:
            continue
        ctx.count("sequence_compared")
        try:
            pairs = expected_terms(g, _Cmds(got_cmds))
        except ValueError as e:
            ctx.report_s(dict(sig0, oracle="commands", kind="structure"),
                         "one parser object: the commands read after a rejected command differ from the text: %s" % e,
                         dict(rep, error=str(e)))
            continue
        for what, want, got in pairs:
            try:
                interps = ig.sample([want, got], n=6)
                line = semantic.chk_equiv_line(want, got, interps, check_fv=True)
            except wire.OutOfFragment:
                continue
            lines.append(line)
            meta.append((dict(sig0, oracle="meaning", command=what.split("#")[0]),
                         dict(rep, command=what, intended=semantic.readable(want), returned=semantic.readable(got))))


def symtok_plain(name):
    return name if _is_simple(name) and name not in ("Int", "Real", "Bool") else "|" + name + "|"


def _coerce(g, term, t, scope):
    """(sexp, den, type) -> (sexp, den) of type t"""
    sx, d, ty = term
    if ty == t:
        return sx, d
    if ty == B:
        return g.ap("ite", (sx, d), g.gen(t, 1, scope), g.gen(t, 1, scope))
    if t == B:
        return g.ap("<" if is_num(ty) else "eq", (sx, d), g.gen(ty, 1, scope))
    cond = g.ap("<" if is_num(ty) else "eq", (sx, d), g.gen(ty, 1, scope))
    return g.ap("ite", cond, g.gen(t, 1, scope), g.gen(t, 1, scope))


KNOWN_SHAPES = [
    # (id, text, what must happen)   -- deliberate witnesses of the known findings, reported with their signature
    ("F16", "(declare-fun x () Int)(assert (= x -3))", "tolerant-numeral", "-3"),
    ("F16", "(declare-fun x () Int)(assert (= x 1e2))", "tolerant-numeral", "1e2"),
    ("F16", "(declare-fun u () Real)(assert (= u 1/2))", "tolerant-numeral", "1/2"),
    ("F16", "(declare-fun x () Int)(assert (= x +3))", "tolerant-numeral", "+3"),
    ("F16", "(declare-fun x () Int)(assert (= x 007))", "tolerant-numeral", "007"),
    ("F16", "(declare-fun x () Int)(assert (= x |5|))", "tolerant-numeral", "|5|"),
    # spellings Python's Fraction()/int() accept beyond the ones above; the Lean model does not follow them (NO_K)
    ("F16", "(declare-fun x () Int)(assert (= x 1_0))", "tolerant-literal-unmodelled", "1_0"),
    ("F16", "(declare-fun x () Int)(assert (= x |1_0|))", "tolerant-literal-unmodelled", "|1_0|"),
    ("F16", "(declare-fun x () Int)(assert (= x \u0663))", "tolerant-literal-unmodelled", "non-ascii-digit"),
    ("F16", "(declare-fun s () String)(assert (= s |\"abc\"|))", "tolerant-literal-unmodelled", "quoted-symbol-as-string"),
    ("F15b", "(declare-fun x () Int)(get-value (x foo))", "lone-unknown-name", "get-value"),
    ("F15b", "(maximize foo)", "lone-unknown-name", "maximize"),
    ("F15b", "(define-fun f () String foo)", "lone-unknown-name", "define-fun"),
    ("F15b", "(minimize foo)", "lone-unknown-name", "minimize"),
    ("F15b", "(declare-fun x () Int)(minmax foo x)", "lone-unknown-name", "minmax"),
    ("F15b", "(declare-fun x () Int)(maxmin x foo)", "lone-unknown-name", "maxmin"),
    ("F15b", "(assert-soft foo)", "lone-unknown-name", "assert-soft"),
    ("F15b", "(declare-fun a () Bool)(assert-soft a :weight foo)", "lone-unknown-name", "assert-soft-weight"),
    ("F15b", "(check-sat-assuming (foo))", "lone-unknown-name", "check-sat-assuming"),
    ("F15b", "(declare-fun a () Bool)(check-allsat (a foo))", "lone-unknown-name", "check-allsat"),
    # F15d: (as name sort) with an undeclared name introduces the symbol (the syntax of abstract values in solver models)
    ("F15d", "(declare-fun m () String)(assert (= m (as mgs String)))", "undeclared-symbol", "as-qualified"),
    ("F15d", "(declare-sort U 0)(declare-fun c () U)(assert (= c (as @val1 U)))", "undeclared-symbol", "as-qualified"),
    # F13c: a let-bound name without a previous meaning is visible to the bindings that follow it
    ("F13c", "(declare-fun m () Int)(assert (let ((l m) (k l)) (= k m)))", "let-binding-sees-earlier-binding", "let"),
    ("P01", "(declare-fun x () Int)(push 1)(declare-fun a () Int)(assert (= a x))(pop 1)(assert (= a x))",
     "use-after-pop", "declare-fun"),
    ("P01", "(declare-fun x () Int)(push 1)(define-fun a () Int 5)(pop 1)(assert (= a x))", "use-after-pop", "define-fun"),
    # P12: a declared function applied to no argument is read as the bare function symbol (not a term)
    ("P12", "(declare-fun f (Int) Int)(get-value ((f)))", "nullary-application", "get-value"),
    ("P12", "(declare-fun f (Int) Int)(assert (let ((g (f))) true))", "nullary-application", "let"),
    # P13: the bare name of a declared function as a whole command argument / list element is returned as a Python callable
    ("P13", "(declare-fun f (Bool) Int)(minimize f)", "bare-function-name", "minimize"),
    ("P13", "(declare-fun f (Bool) Int)(get-value (f true))", "bare-function-name", "get-value"),
]
# shapes on which the Lean model deliberately does not mirror the code (it answers an error where the code returns a
# non-term): not sent to the correspondence run
NO_K_KINDS = {"bare-function-name", "tolerant-literal-unmodelled"}

# regression witnesses of repaired defects: (id, text, must be rejected?, expected command names when accepted)
REPAIRED_SHAPES = [
    # P14: atom() cached the String fallback of an unknown name: after (get-value (foo)) `foo` was a String constant
    ("P14", "(declare-fun s () String)(get-value (foo))(assert (= s foo))", True, None, "cached-unknown-name"),
    ("P14", "(declare-fun s () String)(maximize foo)(define-fun g () Bool (= s foo))", True, None, "cached-unknown-name"),
    # P15: (/ c d) was folded for any two constants
    ("P15", "(declare-fun u () Real)(assert (= u (/ #b01 #b11)))", True, None, "quotient-of-non-numeric-constants"),
    ("P15", "(declare-fun u () Real)(assert (= u (/ true 2)))", True, None, "quotient-of-non-numeric-constants"),
    # P16: CR is white space and ends a comment
    ("P16", "(declare-fun p () Bool)(assert p); c\r(assert false)\n(check-sat)", False,
     ["declare-fun", "assert", "assert", "check-sat"], "carriage-return"),
    ("P16", "(declare-fun p () Bool)\r\n(assert p) ; x\r\n(check-sat)\r\n", False,
     ["declare-fun", "assert", "check-sat"], "carriage-return"),
]


# ------------------------------------------------------------------------------------------
# the FORMULA-level routes of the parser (DESIGN 11.7: reach the functionality through its public glue routes too):
# `SmtLibScript.get_last_formula`, `get_formula`, `get_formula_fname(strict=False)` (and `get_formula_strict` /
# `read_smtlib` when the script has no push/pop) must return a formula with the meaning of the conjunction of the
# assertions IN FORCE at the end of the script.  Two oracles: the generator's own denotation (it keeps the assertion
# stack itself) and the Lean standard interpreter (`Std.runStd`, driver request `stdlive`).
LIVE_QUEUE = []
ROUTE_NAMES = ("get_script+get_last_formula", "get_formula", "get_formula_fname(strict=False)")
STRICT_ROUTES = ("get_formula_strict", "shortcuts.read_smtlib")


def _route_formula(route, text):
    """-> ("ok", formula, env) | ("err", class, message): the formula the public route `route` returns for `text`"""
    import tempfile
    from pysmt.smtlib import parser as P
    env = Environment()
    path = None
    try:
        with warnings.catch_warnings():
            warnings.simplefilter("ignore")
            if route == "get_script+get_last_formula":
                f = SmtLibParser(env).get_script(io.StringIO(text)).get_last_formula(env.formula_manager)
            elif route == "get_formula":
                f = P.get_formula(io.StringIO(text), environment=env)
            elif route == "get_formula_strict":
                f = P.get_formula_strict(io.StringIO(text), environment=env)
            else:
                fd, path = tempfile.mkstemp(suffix=".smt2", prefix="c08route_")
                with os.fdopen(fd, "w") as fh:
                    fh.write(text)
                if route == "get_formula_fname(strict=False)":
                    f = P.get_formula_fname(path, environment=env, strict=False)
                elif route == "shortcuts.read_smtlib":
                    # the shortcut takes no environment: it reads into the CURRENT one
                    import pysmt.shortcuts as S
                    with env:
                        f = S.read_smtlib(path)
                else:
                    raise ValueError(route)
        return ("ok", f, env)
    except RecursionError:
        raise
    except Exception as e:
        return ("err", type(e).__name__, str(e)[:200])
    finally:
        if path:
            try:
                os.unlink(path)
            except OSError:
                pass


def _route_atoms(rng):
    """a small assertion as (text, builder(mgr, syms))"""
    from pysmt.typing import BOOL, INT
    P = ["p%d" % i for i in range(4)]
    I = ["i%d" % i for i in range(3)]
    k = rng.randrange(7)
    a, b = rng.choice(P), rng.choice(P)
    x, y = rng.choice(I), rng.choice(I)
    c = rng.randint(0, 3)
    if k == 0:
        return a, lambda m, s: s[a]
    if k == 1:
        return "(not %s)" % a, lambda m, s: m.Not(s[a])
    if k == 2:
        return "(or %s (not %s))" % (a, b), lambda m, s: m.Or(s[a], m.Not(s[b]))
    if k == 3:
        return "(< %s %s)" % (x, y), lambda m, s: m.LT(s[x], s[y])
    if k == 4:
        return "(= %s (+ %s %d))" % (x, y, c), lambda m, s: m.Equals(s[x], m.Plus(s[y], m.Int(c)))
    if k == 5:
        return "(<= %s %d)" % (x, c), lambda m, s: m.LE(s[x], m.Int(c))
    return "(=> %s (< %s %d))" % (a, x, c), lambda m, s: m.Implies(s[a], m.LT(s[x], m.Int(c)))


def gen_route_script(rng, with_stack=True):
    """-> (text, live): a script of declarations, assertions, `(push n)` / `(pop n)` with n in 0..2 (n at most the
    number of open levels), `(check-sat)`; `live`: the assertions in force at the end, by the generator's own stack"""
    decls = ["(declare-fun p%d () Bool)" % i for i in range(4)] + ["(declare-const i%d Int)" % i for i in range(3)]
    parts = ["(set-logic QF_LIA)"] if rng.random() < 0.5 else []
    parts += decls
    levels = [[]]
    for _ in range(rng.randint(3, 12)):
        r = rng.random()
        if not with_stack or r < 0.5:
            t, b = _route_atoms(rng)
            parts.append("(assert %s)" % t)
            levels[-1].append((t, b))
        elif r < 0.72:
            n = rng.choice([0, 1, 1, 2])
            parts.append("(push %d)" % n if n != 1 or rng.random() < 0.7 else "(push)")
            for _ in range(n):
                levels.append([])
        elif r < 0.94:
            n = rng.choice([0, 0, 1, 1, 2])
            if n > len(levels) - 1:
                n = len(levels) - 1
            parts.append("(pop %d)" % n if n != 1 or rng.random() < 0.7 else "(pop)")
            for _ in range(n):
                levels.pop()
        else:
            parts.append("(check-sat)")
    if not with_stack:
        parts = [x for x in parts if x != "(check-sat)"] + ["(check-sat)"]
    return "\n".join(parts), [x for lv in levels for x in lv]


def _route_check(ctx, ig, lines, meta, route, text, live):
    from pysmt.typing import BOOL, INT
    res = _route_formula(route, text)
    ctx.count("route_cases")
    rep = {"text": text, "stream": "formula-routes", "route": route, "live": [t for t, _ in live],
           "command": "route " + route}
    if res[0] == "err":
        ctx.report_s({"oracle": "accept", "stream": "formula-routes", "route": route, "error": res[1]},
                     "%s raises %s (%s) on a legal script (the command list is read without error by get_script)"
                     % (route, res[1], res[2][:120]), rep)
        return
    got, env = res[1], res[2]
    m = env.formula_manager
    syms = dict([("p%d" % i, m.Symbol("p%d" % i, BOOL)) for i in range(4)] + [("i%d" % i, m.Symbol("i%d" % i, INT)) for i in range(3)])
    want = m.And([b(m, syms) for _, b in live])
    rep = dict(rep, returned=semantic.readable(got), intended=semantic.readable(want))
    if got is want:
        ctx.count("route_identical")
    try:
        interps = ig.sample([want, got], n=10)
        lines.append(semantic.chk_equiv_line(want, got, interps, check_fv=False))
        meta.append(({"oracle": "meaning", "stream": "formula-routes", "route": route}, rep))
        LIVE_QUEUE.append((text, got, interps, rep))
    except wire.OutOfFragment:
        ctx.count("out_of_fragment")


def run_formula_routes(ctx, ig, lines, meta, n):
    del LIVE_QUEUE[:]
    # witness: `(pop 0)` with an open level is a no-op
    wit = ("(declare-fun p0 () Bool)(declare-fun p1 () Bool)(declare-fun p2 () Bool)(declare-fun p3 () Bool)"
           "(declare-const i0 Int)(declare-const i1 Int)(declare-const i2 Int)"
           "(assert p0)(push 1)(assert p1)(pop 0)(assert (not p2))(push 1)(assert p3)(pop 1)")
    wl = [("p0", lambda m, s: s["p0"]), ("p1", lambda m, s: s["p1"]), ("(not p2)", lambda m, s: m.Not(s["p2"]))]
    for route in ROUTE_NAMES:
        _route_check(ctx, ig, lines, meta, route, wit, wl)
    K_TEXTS.append(("formula-routes", wit))
    for i in range(n):
        if ctx.time_left() < (45 if ctx.tier == "quick" else 300):
            break
        with_stack = ctx.rng.random() < 0.8
        text, live = gen_route_script(ctx.rng, with_stack)
        ctx.case(("route", text))
        if i % 4 == 0:
            K_TEXTS.append(("formula-routes", text))
        routes = ROUTE_NAMES if with_stack else ROUTE_NAMES + STRICT_ROUTES
        for route in ([ctx.rng.choice(routes)] if i % 3 else routes):
            _route_check(ctx, ig, lines, meta, route, text, live)


def run_live_oracle(ctx):
    """second oracle of the formula-level routes: the conjunction of the assertions the Lean standard interpreter
    (`Std.runStd`) has in force at the end of the very same text"""
    if not LIVE_QUEUE:
        return
    try:
        answers = ctx.lean_run_sharded("C08", ["stdlive " + hx(t) for t, _, _, _ in LIVE_QUEUE])
    except common.LeanError as e:
        ctx.report_l("driver C08 does not run", str(e))
        return
    lines, meta = [], []
    for (text, got, interps, rep), ans in zip(LIVE_QUEUE, answers):
        if not ans.startswith("ok "):
            ctx.report_s({"oracle": "std-live", "stream": "formula-routes", "kind": "standard-rejects"},
                         "the Lean standard interpreter does not accept a script of the formula-routes stream: %s" % ans[:120], rep)
            continue
        std_term = ans.split(" ", 2)[2]
        if int(ans.split()[1]) != len(rep["live"]):
            ctx.report_s({"oracle": "std-live", "stream": "formula-routes", "kind": "generator-disagrees"},
                         "generator and Lean standard interpreter disagree on the number of assertions in force: %d / %s"
                         % (len(rep["live"]), ans.split()[1]), rep)
            continue
        parts = ["chk_equiv_nofv", str(len(interps))]
        for (sy, fn, doms) in interps:
            parts.append(wire.enc_interp(sy, fn, doms))
        parts.append(std_term)
        prefix = " ".join(parts)
        lines.append(prefix + " " + wire.enc_term(got))
        meta.append(({"oracle": "std-live", "stream": "formula-routes", "route": rep["route"]}, dict(rep, request_prefix=prefix)))
    try:
        answers = ctx.lean_run_sharded("Sem", lines)
    except common.LeanError as e:
        ctx.report_l("driver Sem does not run", str(e))
        return
    for line, ans, (sig, rep) in zip(lines, answers, meta):
        if ans.startswith("ok"):
            ctx.count("live_compared", int(ans.split()[1]))
            continue
        if ans.startswith("bad-op"):
            ctx.infra("Sem driver rejected a request: %s" % ans)
            continue
        ctx.report_s(dict(sig, kind=ans.split()[1]),
                     "the formula %s returns does not have the meaning of the assertions in force at the end of the script "
                     "for the standard interpreter (Lean `runStd`) (%s): returned %s, in force %s"
                     % (rep["route"], ans[:80], rep["returned"], rep["live"]), dict(rep, request=line, answer=ans))


# ------------------------------------------------------------------------------------------
# extreme but legal numerals and names (DESIGN: round 5)
# (1) `/` over two NUMERALS in contexts where numerals are Int-typed (no set-logic, logics with integer arithmetic; a pure real
#     logic as control): non-dyadic quotients, operands beyond 2**53 / 2**64, negative operands.  pySMT reads the quotient as the
#     exact Real constant.  Oracles: the generator's exact rational (object identity with the formula it builds in the parser's
#     environment, and the Lean evaluator under interpretations that hold the exact value), and the Lean standard reader on the
#     DECIMALISED twin of the text (`(/ 1.0 3.0)` is well-sorted for the standard in every logic).
BIG_NUMS = [2 ** 53 + 1, 2 ** 64 + 1, 2 ** 64 + 3, 10 ** 30 + 1, 36893488147419103233, 3 ** 40]
SMALL_QUOTS = [(1, 3), (2, 10), (7, 9), (22, 7), (1, 10), (3, 10), (5, 6), (1, 7), (10, 3)]


def _num_text(n, decimal):
    t = "%d%s" % (abs(n), ".0" if decimal else "")
    return "(- %s)" % t if n < 0 else t


def numeral_division_case(rng):
    """-> (header, body(decimal) -> text of the commands after the header, build(m) -> intended formulas, hints)"""
    from pysmt.typing import REAL
    k = rng.random()
    if k < 0.45:
        n, d = rng.choice(SMALL_QUOTS)
    elif k < 0.8:
        n, d = rng.choice(BIG_NUMS), rng.choice([1, 3, 7, rng.choice(BIG_NUMS)])
        if rng.random() < 0.4:
            n, d = d, n
    else:
        n, d = rng.randint(1, 10 ** 20), rng.randint(2, 10 ** 20)
    if rng.random() < 0.3:
        n = -n
    q = Fraction(n, d)
    header = rng.choice(["", "", "(set-logic QF_UFLIRA)", "(set-logic AUFLIRA)", "(set-logic QF_LRA)"])
    form = rng.randrange(4)
    if form == 0:
        body = lambda dec: "(declare-fun x () Real)(assert (= x (/ %s %s)))" % (_num_text(n, dec), _num_text(d, dec))
        build = lambda m: [m.Equals(m.Symbol("x", REAL), m.Real(q))]
        idx = [1]
    elif form == 1:
        body = lambda dec: "(assert (= (* %s (/ %s %s)) %s))" % (_num_text(d, True), _num_text(n, dec), _num_text(d, dec),
                                                                 _num_text(n, True))
        build = lambda m: [m.Equals(m.Times(m.Real(d), m.Real(q)), m.Real(n))]
        idx = [0]
    elif form == 2:
        n2, d2 = rng.choice(SMALL_QUOTS)
        q2 = Fraction(n2, d2)
        body = lambda dec: "(assert (= (+ (/ %s %s) (/ %s %s)) %s))" % (
            _num_text(n, dec), _num_text(d, dec), _num_text(n2, dec), _num_text(d2, dec),
            "(/ %s %s)" % (_num_text((q + q2).numerator, dec), _num_text((q + q2).denominator, dec)))
        build = lambda m: [m.Equals(m.Plus(m.Real(q), m.Real(q2)), m.Real(q + q2))]
        idx = [0]
    else:
        body = lambda dec: "(declare-fun x () Real)(assert (<= (/ %s %s) x))(assert (<= x (/ %s %s)))" % (
            _num_text(n, dec), _num_text(d, dec), _num_text(n, dec), _num_text(d, dec))
        build = lambda m: [m.LE(m.Real(q), m.Symbol("x", REAL)), m.LE(m.Symbol("x", REAL), m.Real(q))]
        idx = [1, 2]
    return header, body, build, idx, q


def run_numeral_division(ctx, ig, lines, meta, n):
    from pysmt.typing import REAL
    for i in range(n):
        header, body, build, idx, q = numeral_division_case(ctx.rng)
        text = header + body(False)
        twin = header + body(True)
        off = 1 if header else 0
        ctx.case(("numdiv", text))
        ctx.count("numeral_division_cases")
        if i % 3 == 0:
            K_TEXTS.append(("numeral-division", text))
        res = run_impl(text)
        rep = {"text": text, "stream": "numeral-division", "tags": ["numeral-division"], "may_reject": [], "twin": twin}
        if res[0] == "err":
            ctx.report_s({"oracle": "accept", "kind": "generated", "error": res[1], "stream": "numeral-division"},
                         "a division of two numerals, read today as the exact Real constant, is rejected: %s %s" % (res[1], res[2]),
                         dict(rep, error="%s: %s" % (res[1], res[2])))
            continue
        wants = build(res[2].formula_manager)
        pairs = []
        for want, ci in zip(wants, idx):
            ci += off
            got = res[1].commands[ci].args[0]
            what = "assert#%d" % ci
            pairs.append((what, got))
            r2 = dict(rep, command=what, intended=semantic.readable(want), returned=semantic.readable(got))
            if got is want:
                ctx.count("numeral_division_identical")
            # interpretations: x = the exact quotient, x = the quotient rounded to a double, and random ones
            interps = ig.sample([want, got], n=3)
            for v in (q, Fraction(float(q)) if abs(q) < 10 ** 300 else q):
                interps.append(([("x", REAL, v)] if want.get_free_variables() else [], [], interps[0][2]))
            try:
                lines.append(semantic.chk_equiv_line(want, got, interps, check_fv=True))
                meta.append(({"oracle": "meaning", "stream": "numeral-division", "command": "assert"}, r2))
            except wire.OutOfFragment:
                ctx.count("out_of_fragment")
        STD_QUEUE.append((twin, pairs, dict(rep, note="standard reader on the decimalised twin of the text"), ig))


# (2) user symbols spelled like the names the parser generates: `__<param><k>` (formal parameters of define-fun) and `<var><k>`
#     (a bound variable whose name the manager knows with another sort), for k around the formula manager's fresh counter
def fresh_name_case(rng):
    """-> (text, build(m) -> [(command index, intended formula)], interps hints)"""
    from pysmt.typing import INT, REAL
    kind = rng.randrange(3)
    K = rng.randint(1, 4)
    if kind == 0:
        # K definitions with a formal `x`, each using the user's `__x<j>`
        p = rng.choice(["x", "y", "a%"]) if rng.random() < 0.8 else "x"
        p = p.replace("%", "")
        names = ["__%s%d" % (p, j) for j in range(K + 1)]
        parts = ["(declare-fun %s () Int)" % nm for nm in names]
        want = []
        for j in range(K):
            c, r = rng.randint(1, 5), rng.randint(5, 9)
            parts.append("(define-fun f%d ((%s Int)) Int (+ %s %s))" % (j, p, p, names[j]))
            parts.append("(assert (= (f%d %d) %d))" % (j, c, r))
            want.append((len(parts) - 1, (lambda nm, c, r: lambda m: m.Equals(m.Plus(m.Int(c), m.Symbol(nm, INT)), m.Int(r)))(names[j], c, r),
                         (names[j], r - c)))
        return "".join(parts), want
    if kind == 1:
        # a bound variable `v` whose name is declared with another sort, user symbols `v0 … vK`
        v = rng.choice(["x", "y", "v"])
        names = ["%s%d" % (v, j) for j in range(K + 1)]
        parts = ["(declare-fun %s () Real)" % v] + ["(declare-fun %s () Int)" % nm for nm in names]
        want = []
        for j in range(K):
            q = rng.choice(["exists", "forall"])
            parts.append("(assert (%s ((%s Int)) (> %s %s)))" % (q, v, v, names[j]))

            def mk(nm, q):
                def b(m):
                    bv = m.Symbol("bound!%s" % v, INT)
                    body = m.GT(bv, m.Symbol(nm, INT))
                    return (m.Exists if q == "exists" else m.ForAll)([bv], body)
                return b
            want.append((len(parts) - 1, mk(names[j], q), (names[j], 0)))
        return "".join(parts), want
    # both at once: the definitions advance the counter the quantifier's fresh name starts from
    parts = ["(declare-fun x () Real)"] + ["(declare-fun x%d () Int)" % j for j in range(K + 2)] + \
            ["(declare-fun __x%d () Int)" % j for j in range(K + 2)]
    want = []
    for j in range(K):
        parts.append("(define-fun g%d ((x Int)) Bool (< x __x%d))" % (j, j + 1))
        parts.append("(assert (g%d %d))" % (j, j))
        want.append((len(parts) - 1, (lambda j: lambda m: m.LT(m.Int(j), m.Symbol("__x%d" % (j + 1), INT)))(j), ("__x%d" % (j + 1), j + 1)))
        parts.append("(assert (exists ((x Int)) (> x x%d)))" % (j + 1))

        def mk(j):
            def b(m):
                bv = m.Symbol("bound!x", INT)
                return m.Exists([bv], m.GT(bv, m.Symbol("x%d" % (j + 1), INT)))
            return b
        want.append((len(parts) - 1, mk(j), ("x%d" % (j + 1), 0)))
    return "".join(parts), want


def run_fresh_names(ctx, ig, lines, meta, n):
    from pysmt.typing import INT
    for i in range(n):
        text, want = fresh_name_case(ctx.rng)
        ctx.case(("fresh", text))
        ctx.count("fresh_name_cases")
        if i % 2 == 0:
            K_TEXTS.append(("fresh-names", text))
        res = run_impl(text)
        rep = {"text": text, "stream": "fresh-names", "tags": ["fresh-names"], "may_reject": []}
        if res[0] == "err":
            ctx.report_s({"oracle": "accept", "kind": "generated", "error": res[1], "stream": "fresh-names"},
                         "a legal script whose declared symbols are spelled like the parser's generated names is rejected: %s %s"
                         % (res[1], res[2]), dict(rep, error="%s: %s" % (res[1], res[2])))
            continue
        m = Environment().formula_manager
        pairs = []
        for ci, b, (hname, hval) in want:
            w = b(m)
            got = res[1].commands[ci].args[0]
            what = "assert#%d" % ci
            pairs.append((what, got))
            interps = ig.sample([w, got], n=5)
            # … and one interpretation under which the intended formula is true (the symbol at its critical value)
            for k in range(2):
                base = ig.sample([w, got], n=1)[0]
                interps.append(([(nm, t, (hval if nm == hname else v)) for nm, t, v in base[0]], base[1], base[2]))
            try:
                lines.append(semantic.chk_equiv_line(w, got, interps, check_fv=True))
                meta.append(({"oracle": "meaning", "stream": "fresh-names", "command": "assert"},
                             dict(rep, command=what, intended=semantic.readable(w), returned=semantic.readable(got))))
            except wire.OutOfFragment:
                ctx.count("out_of_fragment")
        STD_QUEUE.append((text, pairs, rep, ig))


# ------------------------------------------------------------------------------------------
# round 6
# (1) ONE parser object reads 2-3 scripts in sequence (get_script resets the parser): different / absent set-logic, numerals
#     in every script.  Each result must be what a FRESH parser returns for that script alone (same commands, same terms with
#     the same sorts) and what the generator intends (object identity with the formula it builds in the parser's environment;
#     the Lean evaluator and the Lean standard reader on the text through the usual queues).
REUSE_LOGICS = [("(set-logic QF_LRA)", True), ("(set-logic LRA)", True), ("(set-logic QF_RDL)", True),
                ("(set-logic QF_LIA)", False), ("(set-logic QF_UFLIRA)", False), ("(set-logic QF_IDL)", False),
                ("", False), ("", False)]


def reuse_script(rng, j):
    """-> (text, [(command index, build(m))]): script number `j` of a sequence (its symbols are named …_j)"""
    from pysmt.typing import INT, REAL
    header, reals = rng.choice(REUSE_LOGICS)
    parts = [header] if header else []
    want = []
    ty, tn = (REAL, "Real") if reals else (INT, "Int")
    num = (lambda m, n: m.Real(n)) if reals else (lambda m, n: m.Int(n))
    x = "x_%d" % j
    for _ in range(rng.randint(1, 3)):
        k = rng.randrange(4)
        a, b = rng.randint(0, 9), rng.randint(0, 9)
        if k == 0:
            parts.append("(assert (< %d %d))" % (a, b))
            want.append((len(parts) - 1, (lambda a, b: lambda m: m.LT(num(m, a), num(m, b)))(a, b)))
        elif k == 1:
            if not any(p.startswith("(declare-fun %s " % x) for p in parts):
                parts.append("(declare-fun %s () %s)" % (x, tn))
            parts.append("(assert (= %s %d))" % (x, a))
            want.append((len(parts) - 1, (lambda a: lambda m: m.Equals(m.Symbol(x, ty), num(m, a)))(a)))
        elif k == 2:
            nm = "c%d_%d" % (len(parts), j)
            parts.append("(define-fun %s () %s %d)" % (nm, tn, a))
            parts.append("(assert (<= %s %d))" % (nm, b))
            want.append((len(parts) - 1, (lambda a, b: lambda m: m.LE(num(m, a), num(m, b)))(a, b)))
        else:
            if not any(p.startswith("(declare-fun %s " % x) for p in parts):
                parts.append("(declare-fun %s () %s)" % (x, tn))
            parts.append("(assert (> (+ %s %d) %d.0))" % (x, a, b) if reals else "(assert (> (+ %s %d) %d))" % (x, a, b))
            want.append((len(parts) - 1, (lambda a, b: lambda m: m.GT(m.Plus(m.Symbol(x, ty), num(m, a)), num(m, b)))(a, b)))
    return "".join(parts), want


def _reuse_read(parser, text):
    try:
        with warnings.catch_warnings():
            warnings.simplefilter("ignore")
            return ("ok", parser.get_script(io.StringIO(text)))
    except RecursionError:
        raise
    except Exception as e:
        return ("err", type(e).__name__, str(e)[:200])


def _reuse_answer(res):
    if res[0] == "err":
        return "err " + res[1]
    try:
        return enc_script(res[1])
    except wire.OutOfFragment:
        return "out-of-fragment"


def _reuse_compare(texts):
    """-> [(index, answer of the reused parser, answer of a fresh parser, result of the reused parser, its environment)]"""
    env = Environment()
    shared = SmtLibParser(env)
    out = []
    for i, t in enumerate(texts):
        r = _reuse_read(shared, t)
        f = _reuse_read(SmtLibParser(Environment()), t)
        out.append((i, _reuse_answer(r), _reuse_answer(f), r, env))
    return out


def run_parser_reuse(ctx, ig, lines, meta, n):
    for i in range(n):
        k = ctx.rng.choice([2, 2, 3])
        scripts = [reuse_script(ctx.rng, j) for j in range(k)]
        texts = [t for t, _ in scripts]
        ctx.case(("reuse",) + tuple(texts))
        ctx.count("parser_reuse_sequences")
        for (j, a_shared, a_fresh, res, env), (text, want) in zip(_reuse_compare(texts), scripts):
            rep = {"text": text, "stream": "parser-reuse", "scripts": texts, "index": j, "tags": ["parser-reuse"], "may_reject": []}
            if a_shared != a_fresh:
                ctx.report_s({"oracle": "fresh-parser", "stream": "parser-reuse",
                              "kind": "error" if a_shared.startswith("err") else "different"},
                             "script %d of a sequence read by ONE parser object is not read as a fresh parser reads it: %s / fresh %s [%s]"
                             % (j, a_shared[:150], a_fresh[:150], text[:200]), dict(rep, reused=a_shared, fresh=a_fresh))
                continue
            if res[0] == "err":
                ctx.report_s({"oracle": "accept", "kind": "generated", "error": res[1], "stream": "parser-reuse"},
                             "a legal script is rejected: %s %s" % (res[1], res[2]), dict(rep, error="%s: %s" % (res[1], res[2])))
                continue
            if j == k - 1 and i % 3 == 0:
                K_TEXTS.append(("parser-reuse", text))
            pairs = []
            for ci, b in want:
                w = b(env.formula_manager)
                got = res[1].commands[ci].args[0]
                what = "assert#%d" % ci
                pairs.append((what, got))
                if got is not w:
                    ctx.report_s({"oracle": "intended-object", "stream": "parser-reuse"},
                                 "script %d of a sequence read by one parser object: %s is read as %s, the text means %s (numerals "
                                 "have the sort the script's own logic gives them)" % (j, what, semantic.readable(got), semantic.readable(w)),
                                 dict(rep, command=what, intended=semantic.readable(w), returned=semantic.readable(got)))
                    continue
                ctx.count("parser_reuse_identical")
            if j == k - 1:
                STD_QUEUE.append((text, pairs, rep, ig))


# (2) a quantified name that is CURRENTLY an alias of a plain symbol of the same sort (a let variable bound to a symbol, a 0-ary
#     definition whose body is a symbol, a formal parameter of the enclosing definition) and that symbol occurs free in the
#     matrix: the binder binds a variable called as written, not the aliased symbol
def alias_quantifier_case(rng):
    """-> (text, command index, build(m))"""
    from pysmt.typing import INT, REAL
    ty, tn = rng.choice([(INT, "Int"), (INT, "Int"), (REAL, "Real")])
    v, y = rng.sample(["x", "y", "z", "k", "u"], 2)
    q = rng.choice(["forall", "exists"])
    rel, mk = rng.choice([(">=", "GE"), ("<", "LT"), ("=", "Equals"), (">", "GT"), ("distinct", "NotEquals")])
    swap = rng.random() < 0.4
    matrix = "(%s %s %s)" % ((rel, y, v) if swap else (rel, v, y))
    kind = rng.randrange(4)

    def build(m):
        bv, fy = m.Symbol(v, ty), m.Symbol(y, ty)
        body = getattr(m, mk)(fy, bv) if swap else getattr(m, mk)(bv, fy)
        return (m.ForAll if q == "forall" else m.Exists)([bv], body)
    decl = "(declare-fun %s () %s)" % (y, tn)
    if kind == 0:
        return decl + "(assert (let ((%s %s)) (%s ((%s %s)) %s)))" % (v, y, q, v, tn, matrix), 1, build
    if kind == 1:
        return decl + "(define-fun %s () %s %s)(assert (%s ((%s %s)) %s))" % (v, tn, y, q, v, tn, matrix), 2, build
    if kind == 2:
        return decl + "(define-fun f ((%s %s)) Bool (%s ((%s %s)) %s))(assert (f %s))" % (v, tn, q, v, tn, matrix, y), 2, build
    w = "w"
    return decl + "(assert (let ((%s %s)) (let ((%s %s)) (%s ((%s %s)) (and %s (= %s %s))))))" % (
        w, y, v, w, q, v, tn, matrix, w, y), 1, \
        (lambda m: (m.ForAll if q == "forall" else m.Exists)(
            [m.Symbol(v, ty)], m.And((lambda bv, fy: getattr(m, mk)(fy, bv) if swap else getattr(m, mk)(bv, fy))(m.Symbol(v, ty), m.Symbol(y, ty)),
                                     m.Equals(m.Symbol(y, ty), m.Symbol(y, ty)))))


def run_alias_quantifiers(ctx, ig, lines, meta, n):
    for i in range(n):
        text, ci, build = alias_quantifier_case(ctx.rng)
        ctx.case(("alias-quantifier", text))
        ctx.count("alias_quantifier_cases")
        if i % 2 == 0:
            K_TEXTS.append(("alias-quantifier", text))
        res = run_impl(text)
        rep = {"text": text, "stream": "alias-quantifier", "tags": ["alias-quantifier"], "may_reject": []}
        if res[0] == "err":
            ctx.report_s({"oracle": "accept", "kind": "generated", "error": res[1], "stream": "alias-quantifier"},
                         "a legal script (a binder re-using a name that is an alias of a symbol) is rejected: %s %s" % (res[1], res[2]),
                         dict(rep, error="%s: %s" % (res[1], res[2])))
            continue
        want = build(Environment().formula_manager)
        got = res[1].commands[ci].args[0]
        what = "assert#%d" % ci
        STD_QUEUE.append((text, [(what, got)], rep, ig))
        try:
            lines.append(semantic.chk_equiv_line(want, got, ig.sample([want, got], n=8), check_fv=True))
            meta.append(({"oracle": "meaning", "stream": "alias-quantifier", "command": "assert"},
                         dict(rep, command=what, intended=semantic.readable(want), returned=semantic.readable(got))))
        except wire.OutOfFragment:
            ctx.count("out_of_fragment")


def run_repaired_shapes(ctx):
    for fid, text, must_reject, names, kind in REPAIRED_SHAPES:
        K_TEXTS.append(("repaired-" + kind, text))
        res = run_impl(text)
        ctx.case("repaired:" + text)
        if must_reject:
            if res[0] == "ok":
                ctx.report_s({"oracle": "reject", "kind": kind}, "ill-formed text accepted again (%s, %s)" % (fid, kind),
                             {"text": text, "kind": kind})
        elif res[0] == "err":
            ctx.report_s({"oracle": "accept", "kind": kind, "error": res[1]},
                         "text no longer accepted (%s, %s): %s %s" % (fid, kind, res[1], res[2]), {"text": text})
        else:
            got = [c.name for c in res[1].commands]
            if got != names:
                ctx.report_s({"oracle": "commands", "kind": kind},
                             "commands %r read, %r expected (%s)" % (got, names, fid), {"text": text})
    # P17 (known): a declared function named like one of the parser's own non-standard tokens is not applied
    text = "(declare-fun pow (Int Int) Int)(assert (= (pow 2 3) 9))"
    K_TEXTS.append(("known-parser-token-function", text))
    res = run_impl(text)
    ctx.case("known:" + text)
    if res[0] == "ok":
        t = res[1].commands[-1].args[0]
        if not any(v.symbol_name() == "pow" for v in t.get_free_variables()):
            ctx.report_s({"oracle": "meaning", "shape": "declared-function-named-like-parser-token", "token": "pow"},
                         "the application of the declared function `pow` was read as the built-in operator: %s"
                         % semantic.readable(t), {"text": text})


def run_known_shapes(ctx):
    for fid, text, kind, detail in KNOWN_SHAPES:
        if kind not in NO_K_KINDS:
            K_TEXTS.append(("known-" + kind, text))
        res = run_impl(text)
        ctx.case("known:" + text)
        if res[0] == "ok":
            ctx.report_s({"oracle": "reject", "kind": kind, "detail": detail},
                         "text outside SMT-LIB accepted (%s: %s)" % (kind, detail), {"text": text, "kind": kind})


def run_f10_f17(ctx, ig, lines, meta):
    """deliberate witnesses of F10 (integer `/`) and F17 (capture when a defined function is applied)"""
    from pysmt.environment import Environment as E
    # F17
    text = ("(declare-fun y () Int)(define-fun f ((a Int)) Bool (exists ((y Int)) (> y a)))(assert (f y))")
    res = run_impl(text)
    ctx.case("known:" + text)
    if res[0] == "ok":
        env = E()
        m = env.formula_manager
        from pysmt.typing import INT
        y = m.Symbol("y", INT)
        y2 = m.Symbol("y!1", INT)
        want = m.Exists([y2], m.LT(y, y2))
        got = res[1].commands[-1].args[0]
        lines.append(semantic.chk_equiv_line(want, got, ig.sample([want, got], n=6)))
        meta.append(({"oracle": "meaning", "stream": "witness", "command": "assert", "shape": "define-fun-call-capture-prone"},
                     {"text": text, "command": "assert#2", "intended": semantic.readable(want),
                      "returned": semantic.readable(got)}))
    # F10: `/` applied to Int terms is read as integer division (the standard: ill-sorted; with the Reals_Ints
    # sugar: real division)
    text = "(declare-fun x () Int)(declare-fun y () Int)(declare-fun u () Real)(assert (= u (/ x y)))"
    res = run_impl(text)
    ctx.case("known:" + text)
    if res[0] == "ok":
        ctx.report_s({"oracle": "reject", "kind": "int-division-slash", "detail": "/"},
                     "`/` applied to Int terms accepted", {"text": text})
    text = "(declare-fun x () Int)(declare-fun y () Int)(assert (= 1 (/ x y)))"
    res = run_impl(text)
    ctx.case("known:" + text)
    if res[0] == "ok":
        ctx.report_s({"oracle": "reject", "kind": "int-division-slash", "detail": "/"},
                     "`/` applied to Int terms accepted (read as integer division)", {"text": text})
    # F17b: the expansion of a let variable (or of a definition) that mentions x is captured by a binder of x (same sort)
    for text, build in (("(declare-fun x () Int)(declare-fun g () Int)(assert (let ((l (- x g))) (exists ((x Int)) (<= l x))))",
                         lambda m, x, g, xb: m.Exists([xb], m.LE(m.Minus(x, g), xb))),
                        ("(declare-fun x () Int)(declare-fun g () Int)(define-fun d () Int (- x g))(assert (exists ((x Int)) (<= d x)))",
                         lambda m, x, g, xb: m.Exists([xb], m.LE(m.Minus(x, g), xb))),
                        ("(declare-fun g () Int)(assert (forall ((x Int)) (let ((l (- x g))) (exists ((x Int)) (< l x)))))",
                         lambda m, x, g, xb: m.ForAll([x], m.Exists([xb], m.LT(m.Minus(x, g), xb))))):
        res = run_impl(text)
        ctx.case("known:" + text)
        K_TEXTS.append(("known-expansion-under-binder", text))
        if res[0] == "ok":
            from pysmt.typing import INT
            m = E().formula_manager
            want = build(m, m.Symbol("x", INT), m.Symbol("g", INT), m.Symbol("x!b1", INT))
            got = res[1].commands[-1].args[0]
            lines.append(semantic.chk_equiv_line(want, got, ig.sample([want, got], n=8), check_fv=False))
            meta.append(({"oracle": "meaning", "stream": "witness", "command": "assert", "shape": "expansion-under-same-named-binder"},
                         {"text": text, "command": "assert#%d" % (len(res[1].commands) - 1), "intended": semantic.readable(want),
                          "returned": semantic.readable(got)}))
    # F15e: (as x Int) under a binder of x is the bound variable; the parser reads the global symbol of that name
    for text, build in (("(declare-fun x () Int)(assert (let ((x 5)) (= (as x Int) 5)))", lambda m, x: m.Equals(m.Int(5), m.Int(5))),
                        ("(declare-fun x () Int)(define-fun g ((x Int)) Bool (= (as x Int) 5))(assert (g 7))",
                         lambda m, x: m.Equals(m.Int(7), m.Int(5)))):
        res = run_impl(text)
        ctx.case("known:" + text)
        K_TEXTS.append(("known-as-qualified", text))
        if res[0] == "ok":
            from pysmt.typing import INT
            m = E().formula_manager
            want = build(m, m.Symbol("x", INT))
            got = res[1].commands[-1].args[0]
            lines.append(semantic.chk_equiv_line(want, got, ig.sample([want, got], n=6), check_fv=False))
            meta.append(({"oracle": "meaning", "stream": "witness", "command": "assert", "shape": "as-qualified-bound-variable"},
                         {"text": text, "command": "assert#%d" % (len(res[1].commands) - 1), "intended": semantic.readable(want),
                          "returned": semantic.readable(got)}))
    # F16b: a quoted symbol that spells a literal is a symbol; the parser reads the literal as that symbol afterwards
    text = "(declare-fun |0| () Int)(declare-fun x () Int)(assert (= x 0))"
    res = run_impl(text)
    ctx.case("known:" + text)
    if res[0] == "ok":
        env = E()
        m = env.formula_manager
        from pysmt.typing import INT
        want = m.Equals(m.Symbol("x", INT), m.Int(0))
        got = res[1].commands[-1].args[0]
        lines.append(semantic.chk_equiv_line(want, got, ig.sample([want, got], n=6), check_fv=False))
        meta.append(({"oracle": "meaning", "stream": "witness", "command": "assert", "shape": "quoted-symbol-spelling-a-literal"},
                     {"text": text, "command": "assert#2", "intended": semantic.readable(want),
                      "returned": semantic.readable(got)}))


def run(ctx):
    warnings.simplefilter("ignore")
    quick = ctx.tier == "quick"
    ig = Interps(ctx.rng)
    lines, meta = [], []
    del K_TEXTS[:]
    del STD_QUEUE[:]
    import time as _time
    marks = [("start", _time.time())]

    def mark(name):
        ctx.count("seconds_" + name, int(round(_time.time() - marks[-1][1])))
        marks.append((name, _time.time()))
    ctx.count("seconds_before_run", int(round(ctx.budget_s - ctx.time_left())))
    run_known_shapes(ctx)
    run_repaired_shapes(ctx)
    run_f10_f17(ctx, ig, lines, meta)
    # the dedicated streams are small and run first: they are not cut when building the Lean side took most of the budget
    run_let_witnesses(ctx, ig, lines, meta)
    run_formula_routes(ctx, ig, lines, meta, 120 if quick else 1500)
    mark("formula-routes")
    run_numeral_division(ctx, ig, lines, meta, 90 if quick else 1200)
    run_fresh_names(ctx, ig, lines, meta, 60 if quick else 800)
    mark("numerals-and-names")
    run_parser_reuse(ctx, ig, lines, meta, 80 if quick else 1000)
    run_alias_quantifiers(ctx, ig, lines, meta, 80 if quick else 1000)
    mark("reuse-and-aliases")
    # (when building the Lean side has used up the budget -- the sources changed -- a reduced number of cases of each dedicated
    #  stream is still run: a few seconds in all)
    short = ctx.time_left() < (60 if quick else 400)
    if short:
        ctx.count("dedicated_streams_reduced")
    for i in range((40 if short else 160) if quick else 1000):
        # simultaneous let: swaps, rotations, later bindings mentioning earlier-rebound names
        if not short and ctx.time_left() < (45 if quick else 300):
            break
        g = gen_script(ctx.rng, "strict", "build_simlet_script")
        text = render_script(ctx.rng, [c[0] for c in g.cmds], fancy=ctx.rng.random() < 0.3)
        check_script(ctx, g, text, ig, lines, meta, "let-sim", n_interps=6)
    mark("let-sim")
    for i in range((100 if short else 260) if quick else 1500):
        # n-ary forms of chainable / left-assoc / right-assoc / pairwise operators: the standard's meaning, or a rejection
        if not short and ctx.time_left() < (45 if quick else 300):
            break
        g = gen_script(ctx.rng, "strict", "build_nary_script")
        text = render_script(ctx.rng, [c[0] for c in g.cmds], fancy=ctx.rng.random() < 0.2)
        check_script(ctx, g, text, ig, lines, meta, "nary", std_always=True, n_interps=8)
    mark("nary")
    for i in range((40 if short else 120) if quick else 500):
        # definitions with equally named and sorted parameters applied to each other's parameters in another order
        if not short and ctx.time_left() < (45 if quick else 300):
            break
        g = gen_script(ctx.rng, "strict", "build_defchain_script")
        text = render_script(ctx.rng, [c[0] for c in g.cmds], fancy=ctx.rng.random() < 0.2)
        check_script(ctx, g, text, ig, lines, meta, "define-chain", n_interps=6)
    mark("define-chain")
    run_undeclared(ctx, (80 if short else 220) if quick else 1500, forced=short)
    mark("undeclared")
    run_command_sequences(ctx, ig, lines, meta, (80 if short else 250) if quick else 1200, forced=short)
    mark("command-sequences")
    n = 700 if quick else 6000
    for i in range(n):
        if ctx.time_left() < (75 if quick else 700):
            break
        g = gen_script(ctx.rng)
        text = render_script(ctx.rng, [c[0] for c in g.cmds], fancy=True)
        check_script(ctx, g, text, ig, lines, meta, "generated")
    mark("generated")
    run_malformed(ctx, 250 if quick else 2500)
    mark("malformed")
    run_corpus(ctx)
    mark("corpus")
    finish_sem(ctx, lines, meta)
    mark("sem-oracle")
    run_std_oracle(ctx)
    mark("std-oracle")
    run_live_oracle(ctx)
    mark("live-oracle")
    run_model(ctx, K_TEXTS)
    mark("model")


# ------------------------------------------------------------------------------------------
# K: the implementation against the Lean model of the parser (driver request `pread`)
ERR_CLASS = {"PysmtSyntaxError": "syntax", "PysmtTypeError": "type", "PysmtValueError": "value",
             "UnknownSmtLibCommandError": "unknown-command", "NotImplementedError": "not-implemented"}


def hx(s):
    return s.encode("utf-8").hex() or "_"


def enc_script(script):
    """the command list in the notation of lean/Drivers/C08.lean"""
    parts = []
    for c in script.commands:
        n = c.name
        if n == "set-logic":
            parts.append("L " + (hx(c.args[0].name) if c.args[0] is not None else "-"))
        elif n in ("push", "pop"):
            parts.append("%s %d" % ("U" if n == "push" else "O", c.args[0]))
        elif n == "declare-sort":
            parts.append("DS %s %d" % (hx(c.args[0].name), c.args[0].arity))
        elif n == "define-sort":
            parts.append("FS %s %s" % (hx(c.args[0]), wire.enc_type(c.args[2])))
        elif n in ("declare-fun", "declare-const"):
            sy = c.args[0]
            parts.append("D %s %s %s" % (hx(n), hx(sy.symbol_name()), wire.enc_symty(sy.symbol_type())))
        elif n == "define-fun":
            name, formals, rtype, body = c.args
            parts.append("F %s %d%s %s %s" % (hx(name), len(formals),
                                              "".join(" %s %s" % (hx(f.symbol_name()), wire.enc_type(f.symbol_type()))
                                                      for f in formals),
                                              wire.enc_type(rtype), wire.enc_term(body)))
        elif n == "assert":
            parts.append("A " + wire.enc_term(c.args[0]))
        elif n == "assert-soft":
            opts = dict(c.args[1])
            parts.append("AS %s %s %s" % (wire.enc_term(c.args[0]), wire.enc_term(opts[":weight"]), hx(opts[":id"])))
        elif n in ("maximize", "minimize"):
            parts.append("OB %s %s %d%s" % (hx(n), wire.enc_term(c.args[0]), len(c.args[1]),
                                           "".join(" %s %s" % (hx(k), hx(str(v))) for k, v in c.args[1])))
        elif n in ("minmax", "maxmin"):
            parts.append("MM %s %d%s %d%s" % (hx(n), len(c.args[0]), "".join(" " + wire.enc_term(t) for t in c.args[0]),
                                              len(c.args[1]), "".join(" %s %s" % (hx(k), hx(str(v))) for k, v in c.args[1])))
        elif n == "load-objective-model":
            parts.append("LO %d" % c.args[0])
        elif n in ("get-value", "check-sat-assuming", "check-allsat"):
            parts.append("T %s %d%s" % (hx(n), len(c.args), "".join(" " + wire.enc_term(a) for a in c.args)))
        else:
            if not all(isinstance(a, str) for a in c.args):
                raise wire.OutOfFragment("command %s is not modelled" % n)
            parts.append("P %s %d%s" % (hx(n), len(c.args), "".join(" " + hx(a) for a in c.args)))
    return "ok %d %s" % (len(parts), " ".join(parts)) if parts else "ok 0"


def impl_answer(text):
    res = run_impl(text)
    if res[0] == "err":
        return "err " + ERR_CLASS.get(res[1], "other")
    try:
        return enc_script(res[1])
    except wire.OutOfFragment:
        return "out-of-fragment"


def run_model(ctx, texts):
    """texts: [(stream, text)]"""
    lines = ["pread " + hx(t) for _, t in texts]
    try:
        answers = ctx.lean_run_sharded("C08", lines)
    except common.LeanError as e:
        ctx.report_l("driver C08 does not run", str(e))
        return
    for (stream, text), ans in zip(texts, answers):
        ctx.count("k_cases")
        if ans.startswith("bad-op"):
            ctx.infra("C08 driver rejected a request: %s" % text[:200])
            continue
        if ans == "out-of-fragment" or ans.startswith("lex "):
            ctx.count("k_" + ans.split()[0])
            continue
        got = impl_answer(text)
        if got == "out-of-fragment":
            ctx.count("k_out-of-fragment")
            continue
        if ans.startswith("err") and got.startswith("err"):
            ctx.count("k_both_reject")
            if ans != got:
                ctx.count("k_error_class_differs:%s/%s" % (ans.split()[1], got.split()[1]))
            continue
        if ans == got:
            ctx.count("k_agree")
            continue
        ctx.report_k("the parser model and SmtLibParser.get_script disagree (%s stream): model %s, implementation %s"
                     % (stream, ans[:150], got[:150]), {"text": text, "model": ans, "implementation": got})


def _term_of(script, what):
    """the term of the command argument named `assert#i`, `define-fun#i`, `get-value#i.j`"""
    idx = what.split("#")[1]
    ci = int(idx.split(".")[0])
    ai = int(idx.split(".")[1]) if "." in idx else 0
    c = script.commands[ci]
    if c.name == "define-fun":
        return c.args[3]
    if c.name in ("minmax", "maxmin"):
        return c.args[0][ai]
    return c.args[ai]


def replay(ctx, rep):
    """re-run the recorded case against the current tree"""
    r = rep["replay"]
    sig = rep.get("sig", {})
    if "file" in r:
        base, _ = corpus_files(common.REPO)
        res = run_impl(read_file(os.path.join(base, r["file"])))
        print("corpus file", r["file"], "->", res[0], res[1:] if res[0] == "err" else "")
        if (res[0] == "err") != (r["file"] in CORPUS_REJECTED):
            ctx.report_s(sig, rep["what"], r)
        return
    if r.get("stream") == "command-sequence" and "declarations" in r:
        # one parser object: declarations, the rejected command, the probes; against a fresh parser without the rejected command
        session, fresh = SmtLibParser(Environment()), SmtLibParser(Environment())
        print("declarations:", r["declarations"], "\nrejected command:", r["failing"])
        _feed(session, r["declarations"]), _feed(fresh, r["declarations"])
        print("  ->", _feed(session, r["failing"])[:2])
        for ptext in r["probes"] + ([r["probe"]] if r.get("probe") and r["probe"] not in r["probes"] else []):
            a, b = _feed(session, ptext), _feed(fresh, ptext)
            sa = [semantic.readable(x) if hasattr(x, "serialize") else x for x in a[1][0].args] if a[0] == "ok" and a[1] else a[1:]
            sb = [semantic.readable(x) if hasattr(x, "serialize") else x for x in b[1][0].args] if b[0] == "ok" and b[1] else b[1:]
            print("probe:", ptext, "\n  same parser :", sa, "\n  fresh parser:", sb)
            import re
            norm = lambda x: re.sub(r"(__[^\s()]*?)\d+", r"\1#", str(x))      # fresh names of definition parameters
            if a[0] != b[0] or norm(sa) != norm(sb):
                ctx.report_s(sig, rep["what"], r)
                return
        return
    if r.get("stream") == "parser-reuse" and "scripts" in r:
        bad = False
        for (j, a_shared, a_fresh, res, env) in _reuse_compare(r["scripts"]):
            print("script %d: %s\n  one parser object: %s\n  fresh parser     : %s" % (j, r["scripts"][j], a_shared[:300], a_fresh[:300]))
            if j == r["index"] and res[0] == "ok" and "command" in r:
                got = _term_of(res[1], r["command"])
                print("  %s read as %s; intended %s" % (r["command"], semantic.readable(got), r.get("intended")))
                bad = bad or semantic.readable(got) != r.get("intended")
            bad = bad or a_shared != a_fresh
        if bad:
            ctx.report_s(sig, rep["what"], r)
        return
    if r.get("stream") == "formula-routes" and "route" in r:
        print("text:\n" + r["text"], "\nroute:", r["route"], "\nassertions in force at the end:", r.get("live"))
        res = _route_formula(r["route"], r["text"])
        if res[0] == "err":
            print("the route raises %s: %s" % (res[1], res[2]))
            ctx.report_s(sig, rep["what"], r)
            return
        print("returned now:", semantic.readable(res[1]))
        line = r.get("request")
        if line and "request_prefix" in r:
            line = r["request_prefix"] + " " + wire.enc_term(res[1])
        elif line:
            # `chk_equiv… k <interps> <intended> <returned>`: keep everything up to the intended term
            from pysmt.typing import BOOL, INT
            m = res[2].formula_manager
            sy = dict([("p%d" % i, m.Symbol("p%d" % i, BOOL)) for i in range(4)] + [("i%d" % i, m.Symbol("i%d" % i, INT)) for i in range(3)])
            sub = run_impl("".join("(declare-fun p%d () Bool)" % i for i in range(4)) + "".join("(declare-const i%d Int)" % i for i in range(3))
                           + "".join("(assert %s)" % t for t in r.get("live", [])))
            want = sub[2].formula_manager.And([c.args[0] for c in sub[1].commands if c.name == "assert"])
            old_want = wire.enc_term(want)
            if old_want in line:
                line = line[:line.index(old_want) + len(old_want)] + " " + wire.enc_term(res[1])
        if line:
            ans = ctx.lean_run("Sem", [line])[0]
            print("semantic oracle:", ans)
            if not ans.startswith("ok"):
                ctx.report_s(sig, rep["what"], dict(r, request=line, answer=ans))
        return
    if "text" not in r:
        print("nothing to replay:", rep.get("what"))
        return
    text = r["text"]
    res = run_impl(text)
    print("text:\n" + text)
    if res[0] == "err":
        print("implementation: rejected with %s: %s" % (res[1], res[2]))
        if sig.get("oracle") in ("accept", "meaning", "std-reader", "commands"):
            if sig.get("oracle") == "accept":
                ctx.report_s(sig, rep["what"], r)
        return
    print("implementation: accepted")
    for c in res[1].commands:
        if c.name in TERM_CMDS:
            print("  ", c.name, [semantic.readable(a) if hasattr(a, "serialize") else a for a in c.args])
    if sig.get("oracle") == "reject":
        ctx.report_s(sig, rep["what"], r)
    elif "request" in r and "command" in r:
        # the recorded request is `chk_equiv k <interps> <intended> <returned>`: replace the returned term by the one the
        # current tree returns for the same command argument
        line = r["request"]
        try:
            got = _term_of(res[1], r["command"])
            line = line[:line.rindex(" T ")] + " " + wire.enc_term(got)
            print("returned now:", semantic.readable(got))
        except (IndexError, ValueError, wire.OutOfFragment) as e:
            print("cannot locate the command argument in the new parse (%r): using the recorded term" % (e,))
        ans = ctx.lean_run("Sem", [line])[0]
        print("intended:", r.get("intended"), "\nsemantic oracle:", ans)
        if not ans.startswith("ok"):
            ctx.report_s(sig, rep["what"], dict(r, request=line, answer=ans))
    elif sig.get("oracle") == "commands":
        ctx.report_s(sig, rep["what"], r)
