"""C15 -- a failing call leaves no trace.

Fault injection from the outside (no source hooks): a failing call (ill-typed construction, ill-typed substitution
deep in a shared DAG, a callback that raises by itself, an exception injected at the k-th callback of a walker,
undefined symbol / malformed text / unsupported command in the SMT-LIB parser) is made on an environment (or parser)
and then a fixed probe sequence runs on the same object and on an untouched twin built from the same seed.
"""
import io
import random
import sys
import time
import warnings

warnings.simplefilter("ignore")

import common
from props import c20 as W

import pysmt.operators as op
import pysmt.typing as types
from pysmt.environment import Environment, push_env, pop_env
from pysmt.walkers import IdentityDagWalker
from pysmt.oracles import SizeOracle, get_logic
import pysmt.rewritings as rewritings
import pysmt.smtlib.printers as smt_printers
from pysmt.smtlib.parser import SmtLibParser
from pysmt.smtlib.script import smtlibscript_from_formula

LEAN_MODULES = ["PySMT.Props.C15"]
RULE = ("scenario = (seeded pool of formulas sharing sub-DAGs, one failing call, fixed probe sequence); failing calls: "
        "ill-typed constructions, ill-typed substitutions, callbacks raising by themselves (Pow(0,-1) in simplify, a "
        "walker without handler for one operator, cnf below a quantifier), exceptions injected at the k-th callback of "
        "every environment walker for every k (exhaustive over the crash point), parser errors (undefined symbol, "
        "malformed text, unsupported command); non-trivial = the failing call really raised after at least one "
        "callback / token was processed")
ASSUMPTIONS = [
    "results are compared with the twin by structural key; when they differ, by the key modulo the order of "
    "commutative arguments (node ids, hence set iteration orders, legitimately differ after a failed call created nodes) "
    "-- the number of such fall-backs is reported",
    "solver objects are not exercised here (no native solver in the check's interpreter; C16/C17 cover the text solvers)",
    "the Lean model covers the walker objects; the parser's cache is compared with the twin only",
]


# ----------------------------------------------------------------------------------------------
def make_env(seed, n):
    env = Environment()
    push_env(env)
    try:
        fam = W.random_dag(env, random.Random(seed), n)
    finally:
        pop_env()
    fam.seed_n = (seed, n)
    return env, fam


def foreign_formulas(fam):
    """the same pool built in ANOTHER environment (formulas of a foreign manager), kept with the family"""
    if getattr(fam, "foreign", None) is None:
        fenv, ffam = make_env(*fam.seed_n)
        fam.foreign = (fenv, ffam, aux_formulas(fenv, ffam))
    return fam.foreign


def foreign_clash(fam):
    """a formula of a third environment in which `x` is a Real (here it is an Int): cannot be normalised; the clash is
    below the root and has siblings, so that the failing walk leaves work behind"""
    if getattr(fam, "clash", None) is None:
        cenv = Environment()
        m = cenv.formula_manager
        x = m.Symbol("x", types.REAL)
        r = m.Symbol("r", types.REAL)
        p0, p1 = m.Symbol("p0"), m.Symbol("p1")
        y = m.Symbol("y", types.INT)
        fam.clash = (cenv, m.And(m.Or(p0, m.LE(y, m.Int(3))), m.Or(m.LT(m.Plus(x, r), r), p1), m.Not(p0),
                                 m.Iff(p1, m.LT(r, x))))
    return fam.clash[1]


def outcome(fn):
    try:
        return ("ok", fn())
    except RecursionError:
        raise
    except Exception as e:     # noqa
        return ("exc", type(e).__name__)


def aux_formulas(env, fam):
    """formulas sharing sub-DAGs with phi (deterministic in the pool)"""
    m = env.formula_manager
    P = fam.pool
    g1 = P["b"][-2] if len(P["b"]) > 3 else P["b"][0]
    g2 = m.And(P["b"][len(P["b"]) // 2], m.LE(P["i"][-1], P["i"][len(P["i"]) // 2]))
    g3 = m.Or(m.BVULT(P["v"][-1], P["v"][0]), m.Equals(P["a"][-1], P["a"][0]), m.LT(P["r"][-1], P["r"][1]))
    return [fam.phi, g1, g2, g3]


def probes(env, fam, parser=None):
    """the fixed probe sequence: [(name, thunk)]"""
    m = env.formula_manager
    P = fam.pool
    F = aux_formulas(env, fam)
    x, y = P["i"][0], P["i"][1]
    p0, p1 = P["b"][0], P["b"][1]
    v, w = P["v"][0], P["v"][1]
    r, q = P["r"][0], P["r"][1]
    res = []
    for i, f in enumerate(F):
        res.append(("simplify%d" % i, lambda f=f: f.simplify()))
    for i, f in enumerate(F):
        res.append(("subst_xy%d" % i, lambda f=f: f.substitute({x: y})))
        res.append(("subst_multi%d" % i, lambda f=f: f.substitute({p0: p1, v: w, r: q})))
        res.append(("subst_term%d" % i, lambda f=f: f.substitute({m.Plus(x, y): x, y: m.Int(7)})))
    for i, f in enumerate(F):
        res.append(("fv%d" % i, lambda f=f: f.get_free_variables()))
        res.append(("atoms%d" % i, lambda f=f: f.get_atoms()))
        res.append(("qf%d" % i, lambda f=f: env.qfo.is_qf(f)))
        res.append(("types%d" % i, lambda f=f: env.typeso.get_types(f)))
        res.append(("theory%d" % i, lambda f=f: str(env.theoryo.get_theory(f))))
        res.append(("logic%d" % i, lambda f=f: str(get_logic(f, env))))
        res.append(("type%d" % i, lambda f=f: env.stc.get_type(f)))
        for ms in range(6):
            res.append(("size%d_%d" % (ms, i), lambda f=f, ms=ms: f.size(ms)))
    res.append(("to_smtlib_dag", lambda: F[0].to_smtlib(daggify=True)))
    res.append(("to_smtlib_tree", lambda: F[2].to_smtlib(daggify=False)))
    res.append(("serialize", lambda: F[3].serialize()))

    def reparse(f):
        buf = io.StringIO()
        smtlibscript_from_formula(f).serialize(buf, daggify=True)
        pr = parser if parser is not None else SmtLibParser(env)
        return pr.get_script(io.StringIO(buf.getvalue())).get_last_formula()
    res.append(("reparse0", lambda: reparse(F[0])))
    res.append(("reparse3", lambda: reparse(F[3])))

    def read(text):
        pr = parser if parser is not None else SmtLibParser(env)
        return pr.get_script(io.StringIO(text)).get_last_formula()
    # names that only a (failed) earlier script introduced must be unknown again
    res.append(("parse_uses_f", lambda: read("(assert (> (f 1) 0))")))
    res.append(("parse_uses_x", lambda: read("(declare-fun zq () Int)(assert (and p0 (> zq x)))")))
    res.append(("parse_uses_sort", lambda: read("(declare-fun s2 () S)(assert (= s2 s2))")))
    res.append(("parse_let", lambda: read("(declare-fun a () Int)(assert (let ((b (+ a 1))) (> b a)))")))
    res.append(("nnf", lambda: rewritings.nnf(m.Not(F[0]), env)))
    res.append(("aig", lambda: rewritings.aig(F[2], env)))
    res.append(("prenex", lambda: rewritings.prenex_normal_form(F[1], env)))
    res.append(("cnf", lambda: rewritings.cnf(F[2], env)))
    # formulas of a foreign environment: normalize, and the shortcuts that normalise their argument
    # (expensive: a second environment and the solver factory; run for the scenarios that ask for it)
    if getattr(fam, "want_foreign", False):
        FF = foreign_formulas(fam)[2]
        for i in (0, 2, 3, 1):
            res.append(("normalize_foreign%d" % i, lambda i=i: m.normalize(FF[i])))
        res.append(("normalize_is_own", lambda: m.normalize(FF[0]) is F[0]))

        def via_shortcut(fn, *a, **kw):
            import pysmt.shortcuts as sc
            return getattr(sc, fn)(*a, **kw)
        res.append(("shortcut_is_sat_foreign", lambda: via_shortcut("is_sat", FF[2])))
        res.append(("shortcut_simplify_foreign", lambda: via_shortcut("simplify", FF[3])))
    res.append(("size_valid", lambda: env.sizeo.get_size(F[0], measure=1)))
    tm = env.type_manager
    res.append(("type_function", lambda: str(tm.FunctionType(types.INT, [types.INT, types.REAL]))))
    res.append(("type_array_bv", lambda: str(tm.ArrayType(tm.BVType(8), types.INT))))
    res.append(("type_symbol", lambda: m.Symbol("ftyped", tm.FunctionType(types.BOOL, [types.INT]))))
    res.append(("type_instance", lambda: str(tm.get_type_instance(tm.Type("PairOK", 2), types.INT, types.REAL))))
    res.append(("build_and", lambda: m.And(F[0], m.Not(F[1]), F[2])))
    res.append(("build_plus", lambda: m.LE(m.Plus(P["i"][-1], x, m.Int(3)), m.Times(m.Int(2), y))))
    res.append(("build_ill_again", lambda: m.Plus(x, r)))
    res.append(("build_ill_bv", lambda: m.BVAdd(v, m.BV(1, 4))))
    res.append(("int_const", lambda: m.Int(12345)))
    res.append(("simplify_again", lambda: F[0].simplify()))
    return res


def run_probes(env, fam, parser=None):
    push_env(env)
    try:
        out = []
        for name, th in probes(env, fam, parser):
            kind, val = outcome(th)
            out.append((name, kind, val))
        return out
    finally:
        pop_env()


def keys_of(results, ac):
    return [(n, k, W.result_key(v, ac=ac) if k == "ok" else v) for n, k, v in results]


ENV_WALKERS = ["simplifier", "substituter", "fvo", "ao", "qfo", "typeso", "theoryo", "sizeo", "stc"]


def leftovers(env):
    """independent oracle: no walker of the environment keeps work of a failed call"""
    bad = []
    walkers = [(name, getattr(env, name)) for name in ENV_WALKERS]
    if getattr(env.formula_manager, "_normalizer", None) is not None:
        walkers.append(("formula_manager._normalizer", env.formula_manager._normalizer))
    for name, w in walkers:
        if len(w.stack) != 0:
            bad.append((name, "stack", len(w.stack)))
        if w.invalidate_memoization and len(w.memoization) != 0:
            bad.append((name, "one-shot memo", len(w.memoization)))
    return bad


# ----------------------------------------------------------------------------------------------
# failing calls
# ----------------------------------------------------------------------------------------------
class Partial(IdentityDagWalker):
    """an identity walker that lacks the handler of one operator"""

    def __init__(self, env, missing):
        IdentityDagWalker.__init__(self, env)
        for nt in missing:
            self.functions[nt] = self.walk_error


_CUSTOM_NT = []


def custom_node_type():
    """a node type registered with `new_node_type` for which no walker has a rule (process-wide, created once)"""
    if not _CUSTOM_NT:
        _CUSTOM_NT.append(op.new_node_type(node_str="VERIF_C15_CUSTOM"))
    return _CUSTOM_NT[0]


def parse_in(env, text):
    return SmtLibParser(env).get_script(io.StringIO(text)).get_last_formula()


POOL_DECLS = ("(declare-fun x () Int)(declare-fun y () Int)(declare-fun r () Real)(declare-fun q () Real)"
              "(declare-fun v () (_ BitVec 8))(declare-fun w () (_ BitVec 8))(declare-fun p0 () Bool)"
              "(declare-fun p1 () Bool)(declare-fun a () (Array Int Int))(declare-fun b () (Array Int Int))")


def repeats_of(env, fam, kind, th):
    """later calls that build the SAME content as the failing construction `kind` (the call itself again, a derived
    constructor with swapped operands, the parser): they must fail exactly as they do on an untouched twin"""
    m = env.formula_manager
    P = fam.pool
    x, v, r = P["i"][0], P["v"][0], P["r"][0]
    reps = [("again", th), ("again2", th)]
    extra = {
        "construct:bvult-int": [("swapped", lambda: m.BVUGT(v, x)),
                                ("parser", lambda: parse_in(env, POOL_DECLS + "(assert (bvult x v))"))],
        "construct:bvule-int": [("swapped", lambda: m.BVUGE(v, x)),
                                ("parser", lambda: parse_in(env, POOL_DECLS + "(assert (bvule x v))"))],
        "construct:bvslt-real": [("swapped", lambda: m.BVSGT(v, r)),
                                 ("parser", lambda: parse_in(env, POOL_DECLS + "(assert (bvslt r v))"))],
        "construct:bvsle-int": [("swapped", lambda: m.BVSGE(v, x)),
                                ("parser", lambda: parse_in(env, POOL_DECLS + "(assert (bvsle x v))"))],
        "construct:plus-int-real": [("parser", lambda: parse_in(env, POOL_DECLS + "(assert (< (+ x r) r))"))],
        "construct:custom-no-rule": [("same-content", lambda: m.create_node(node_type=custom_node_type(), args=(x,)))],
        "construct:bvult-int-raw": [("constructor", lambda: m.BVULT(x, v)), ("swapped", lambda: m.BVUGT(v, x))],
    }
    return reps + extra.get(kind, [])


def _sc(fn, *a, **kw):
    import pysmt.shortcuts as sc
    return getattr(sc, fn)(*a, **kw)


def natural_failures(env, fam, rng):
    """[(kind, thunk)] -- calls that raise on their own"""
    m = env.formula_manager
    P = fam.pool
    F = aux_formulas(env, fam)
    x, y = P["i"][0], P["i"][1]
    p0 = P["b"][0]
    v = P["v"][0]
    r = P["r"][0]
    a = P["a"][0]
    deep = F[0]
    calls = [
        ("construct:plus-int-real", lambda: m.Plus(P["i"][-1], r)),
        ("construct:and-int", lambda: m.And(deep, x)),
        ("construct:bvadd-width", lambda: m.BVAdd(P["v"][-1], m.BV(1, 4))),
        ("construct:ite-cond", lambda: m.Ite(x, deep, p0)),
        ("construct:store-index", lambda: m.Store(P["a"][-1], r, x)),
        ("construct:le-bool", lambda: m.LE(deep, x)),
        ("construct:bvult-int", lambda: m.BVULT(x, v)),            # AttributeError, not PysmtTypeError
        ("construct:bvule-intterm", lambda: m.BVULE(P["i"][-1], v)),
        ("construct:bvule-int", lambda: m.BVULE(x, v)),
        ("construct:bvslt-real", lambda: m.BVSLT(r, v)),
        ("construct:bvsle-int", lambda: m.BVSLE(x, v)),
        ("construct:bvult-bool-first", lambda: m.BVULT(p0, v)),
        ("construct:bvult-int-raw", lambda: m.create_node(node_type=op.BV_ULT, args=(x, v))),
        ("construct:bvadd-int-first", lambda: m.create_node(node_type=op.BV_ADD, args=(x, v), payload=(8,))),
        ("construct:bvconcat-int", lambda: m.create_node(node_type=op.BV_CONCAT, args=(x, v), payload=(16,))),
        ("construct:bvextract-int", lambda: m.create_node(node_type=op.BV_EXTRACT, args=(x,), payload=(4, 0, 3))),
        ("construct:bvnot-int", lambda: m.create_node(node_type=op.BV_NOT, args=(x,), payload=(8,))),
        ("construct:bvconcat-ctor-int", lambda: m.BVConcat(x, v)),
        ("construct:custom-no-rule", lambda: m.create_node(node_type=custom_node_type(), args=(x,))),
        ("construct:custom-no-rule-deep", lambda: m.create_node(node_type=custom_node_type(), args=(deep, P["i"][-1]))),
        ("construct:select-bv-index", lambda: m.Select(a, v)),
        ("construct:int-float", lambda: m.Int(1.0)),
        ("construct:real-bool", lambda: m.Real(True)),
        ("substitute:int->real", lambda: deep.substitute({x: m.Real(1)})),
        ("substitute:int->real2", lambda: F[2].substitute({y: r})),
        ("substitute:bool->int", lambda: deep.substitute({p0: x})),
        ("substitute:bv-width", lambda: deep.substitute({v: m.BV(1, 4)})),
        ("substitute:array->int", lambda: F[3].substitute({a: x})),
        ("substitute:non-term-key", lambda: deep.substitute({m.Symbol("ff", types.FunctionType(types.INT, [types.INT])): x})),
        ("callback:pow-zero-neg", lambda: m.And(deep, m.LT(m.Pow(m.Ite(p0, m.Real(0), m.Real(0)), m.Real(-1)), r)).simplify()),
        ("callback:cnf-quantifier", lambda: rewritings.cnf(m.And(deep, m.ForAll([x], m.LE(x, y))), env)),
        ("unsupported:partial-walker", lambda: Partial(env, [op.LE, op.BV_ULE, op.EQUALS, op.LT]).walk(deep)),
        # an optional / enumerated argument with an INVALID value (asked again by `repeats_of`)
        ("invalid:size-measure-6", lambda: env.sizeo.get_size(deep, measure=6)),
        ("invalid:size-measure-neg", lambda: deep.size(-1)),
        ("invalid:size-measure-str", lambda: deep.size("dag")),
        ("invalid:get_formula_size", lambda: _sc("get_formula_size", F[2], measure=17)),
        ("invalid:solver-name", lambda: _sc("is_sat", F[1], solver_name="no_such_solver")),
        ("invalid:logic-name", lambda: _sc("is_sat", F[1], logic="NO_SUCH_LOGIC")),
        ("invalid:get_model-solver", lambda: _sc("get_model", F[1], solver_name="no_such_solver")),
        ("invalid:qelim-solver", lambda: _sc("qelim", F[1], solver_name="no_such_qe")),
        ("invalid:logic-by-name", lambda: __import__("pysmt.logics").logics.get_logic_by_name("QF_NOPE")),
        ("invalid:factory-solver", lambda: env.factory.Solver(name="no_such_solver")),
        ("invalid:script-logic", lambda: smtlibscript_from_formula(F[1], logic="QF_NOPE")),
        # TYPE constructors with invalid arguments (asked again by `repeats_of`), through the API and the parser
        ("invalid-type:function-param-decl", lambda: env.type_manager.FunctionType(types.INT, [env.type_manager.Type("PairT", 2)])),
        ("invalid-type:function-return-decl", lambda: env.type_manager.FunctionType(env.type_manager.Type("PairU", 2), [types.INT])),
        ("invalid-type:function-param-int", lambda: env.type_manager.FunctionType(types.INT, [5])),
        ("invalid-type:function-param-str", lambda: env.type_manager.FunctionType(types.INT, [types.INT, "Int"])),
        ("invalid-type:array-elem-str", lambda: env.type_manager.ArrayType(types.INT, "x")),
        ("invalid-type:array-index-decl", lambda: env.type_manager.ArrayType(env.type_manager.Type("PairV", 2), types.INT)),
        ("invalid-type:bv-width-0", lambda: env.type_manager.BVType(0)),
        ("invalid-type:bv-width-neg", lambda: env.type_manager.BVType(-3)),
        ("invalid-type:bv-width-str", lambda: env.type_manager.BVType("8")),
        ("invalid-type:instance-arity", lambda: env.type_manager.get_type_instance(env.type_manager.Type("PairW", 2), types.INT)),
        ("invalid-type:instance-nonsort", lambda: env.type_manager.get_type_instance(env.type_manager.Type("PairX", 2), types.INT, 7)),
        ("invalid-type:redeclare-arity", lambda: (env.type_manager.Type("SortQ", 1), env.type_manager.Type("SortQ", 2))),
        ("invalid-type:symbol-of-decl", lambda: m.Symbol("sd", env.type_manager.Type("PairY", 2))),
        ("invalid-type:parser-bare-parametric", lambda: parse_in(env, "(declare-sort SP 1)(declare-fun gsp (SP) Int)(assert (> (gsp gsp) 0))")),
        ("invalid-type:parser-bare-parametric2", lambda: parse_in(env, "(declare-sort SP2 1)(declare-fun gsp2 (SP2) Int)")),
        ("invalid-type:parser-define-sort-bare", lambda: parse_in(env, "(define-sort PS (X) (Array X X))(declare-fun hps (PS) Int)")),
        ("invalid-type:parser-bv0", lambda: parse_in(env, "(declare-fun bz () (_ BitVec 0))(assert (= bz bz))")),
        ("invalid-type:parser-array-arity", lambda: parse_in(env, "(declare-fun az () (Array Int))")),
        # a formula of another environment that cannot be brought into this one (name clash with another type)
        ("foreign:normalize-clash", lambda: m.normalize(foreign_clash(fam))),
        ("foreign:is_sat-clash", lambda: _sc("is_sat", foreign_clash(fam))),
        ("foreign:simplify-clash", lambda: _sc("simplify", foreign_clash(fam))),
    ]

    def stc_inject():
        # exception inside the type checker's callback while a new node is being constructed
        tap = W.Tap(env.stc, fail_at=1)
        try:
            return m.Or(m.Not(deep), F[1], m.LE(m.Plus(x, y, m.Int(41)), y))
        finally:
            tap.restore()
    calls.append(("inject:stc-at-construction", stc_inject))
    return calls


def walker_specs():
    """operations whose walker can be tapped for injection"""
    return W.make_ops()


# ----------------------------------------------------------------------------------------------
def scenario_natural(ctx, seed, n, ref_cache, stats, only=None):
    env, fam = make_env(seed, n)
    push_env(env)
    try:
        fails = natural_failures(env, fam, ctx.rng)
    finally:
        pop_env()
    pick = ctx.rng.randrange(len(fails)) if only is None else [i for i, f in enumerate(fails) if f[0] == only][0]
    kind, th = fails[pick]
    fam.want_foreign = kind.startswith(("foreign:", "invalid:")) or ctx.rng.random() < 0.1
    ref = reference(seed, n, ref_cache, fam.want_foreign)
    push_env(env)
    try:
        k, v = outcome(th)
        got_rep = [(nm,) + outcome_key(rt) for nm, rt in repeats_of(env, fam, kind, th)] if k == "exc" else []
    finally:
        pop_env()
    if k != "exc":
        ctx.case(None)
        ctx.count("natural-did-not-raise")
        return
    ctx.count("fail:" + kind.split(":")[0])
    replay = {"fail": kind, "seed": seed, "n": n}
    sig = {"fail": kind.split(":")[0], "call": kind}
    # the same content again (same call, swapped derived constructor, parser): as on an untouched twin
    rkey = ("repeat", seed, n, pick)
    if rkey not in ref_cache:
        tenv, tfam = make_env(seed, n)
        push_env(tenv)
        try:
            tkind, tth = natural_failures(tenv, tfam, None)[pick]
            ref_cache[rkey] = [(nm,) + outcome_key(rt) for nm, rt in repeats_of(tenv, tfam, tkind, tth)]
        finally:
            pop_env()
    for g, t in zip(got_rep, ref_cache[rkey]):
        if g != t:
            ctx.report_s(dict(sig, oracle="repeat-differs", probe=g[0]),
                         "after the failing call %s, building the same content again (%s) gives %s; on the untouched "
                         "twin %s" % (kind, g[0], str(g[1:])[:100], str(t[1:])[:100]), dict(replay, probe=g[0]))
            break
    judge(ctx, env, fam, ref, replay, sig, stats)
    ctx.case(("natural", kind, seed))


def outcome_key(th):
    k, v = outcome(th)
    return (k, W.result_key(v, ac=False) if k == "ok" else v)


def reference(seed, n, ref_cache, foreign=False):
    key = ("ref", seed, n, foreign)
    if key not in ref_cache:
        tenv, tfam = make_env(seed, n)
        tfam.want_foreign = foreign
        r = run_probes(tenv, tfam)
        ref_cache[key] = (keys_of(r, False), keys_of(r, True))
    return ref_cache[key]


def judge(ctx, env, fam, ref, replay, sig, stats, parser=None):
    """S: leftovers + probe sequence against the twin"""
    lo = leftovers(env)
    if lo:
        ctx.report_s(dict(sig, oracle="leftover", walker=lo[0][0], what=lo[0][1]),
                     "after the failing call %s: %s of env.%s has %d entries" % (replay.get("fail"), lo[0][1], lo[0][0], lo[0][2]),
                     replay)
    got = run_probes(env, fam, parser)
    exact, ac = keys_of(got, False), None
    if exact != ref[0]:
        ac = keys_of(got, True)
        stats["ac_fallback"] += 1
        if ac == ref[1] and not stats.get("order_only_reported"):
            # "exactly" in the property: a difference in the order of commutative arguments / in fresh names only
            stats["order_only_reported"] = True
            for (n1, k1, v1), (n2, k2, v2) in zip(exact, ref[0]):
                if (k1, v1) != (k2, v2):
                    ctx.report_s({"oracle": "order-or-fresh-names-only", "fail": sig.get("fail"),
                                  "probe": n1.rstrip("0123456789_")},
                                 "after the failing call %s the probe %s returns a formula that differs from the twin's "
                                 "only in the order of commutative arguments or in the names of fresh symbols" % (
                                     replay.get("fail"), n1), dict(replay, probe=n1))
                    break
        if ac != ref[1]:
            for (n1, k1, v1), (n2, k2, v2) in zip(ac, ref[1]):
                if (k1, v1) != (k2, v2):
                    ctx.report_s(dict(sig, oracle="probe-differs", probe=n1.rstrip("0123456789_")),
                                 "after the failing call %s the probe %s gives %s, on the untouched twin %s" % (
                                     replay.get("fail"), n1, (k1, str(v1)[:80]), (k2, str(v2)[:80])),
                                 dict(replay, probe=n1))
                    break
            return False
    return not lo


def scenario_inject(ctx, seed, n, spec_idx, ks, ref_cache, stats, reqs):
    """exception injected at the k-th callback of one walker, for the given ks; walker-level K + twin S"""
    specs = walker_specs()
    spec = specs[spec_idx % len(specs)]
    ref = reference(seed, n, ref_cache)
    # how many callbacks does the un-faulted operation make? (on a scratch environment)
    env0, fam0 = make_env(seed, n)
    push_env(env0)
    try:
        rec0 = W.run_op(ctx, spec, env0, fam0, want_full=True)
    finally:
        pop_env()
    total = rec0["ncalls"]
    if total == 0:
        ctx.case(None)
        return
    for k in ks(total):
        env, fam = make_env(seed, n)
        push_env(env)
        try:
            # walker-level sequence on one walker object: failing op, then the same op on other roots
            w = spec.make(env)
            fresh_walker = not any(w is getattr(env, nm) for nm in ENV_WALKERS)
            F = aux_formulas(env, fam)
            rec = W.run_op(ctx, spec, env, fam, fail_at=k, want_full=True)
        finally:
            pop_env()
        replay = {"fail": "inject:%s@%d" % (spec.name, k), "seed": seed, "n": n}
        sig = {"fail": "inject", "walker": spec.name}
        if rec["out"] != "err":
            ctx.report_k("injection at callback %d of %s did not raise (%s)" % (k, spec.name, rec["out"]), replay)
            continue
        reqs.append((rec["req"], rec, replay))
        ctx.count("fail:inject")
        ctx.count("inject:" + spec.name)
        judge(ctx, env, fam, ref, replay, sig, stats)
        ctx.case(("inject", spec.name, seed, k))


PARSER_PREFIX = ("(set-logic QF_LIA)(define-fun lim () Int 5)(define-fun inc ((k Int)) Int (+ k 1))"
                 "(define-sort MyInt () Int)(declare-fun cst () MyInt)(declare-fun flag () Bool)")
PARSER_IMMEDIATE = [
    "(assert (> lim 0))",                                                # a 0-ary definition of the failed script
    "(declare-fun yy () Int)(assert (> (inc yy) 0))",                    # a definition with parameters
    "(declare-fun kk () MyInt)(assert (= kk 1))",                        # a defined sort
    "(assert (and flag (> cst 0)))",                                     # declarations
    "(declare-fun yy () Int)(assert (let ((lim 1) (yy lim)) (= yy 1)))", # let shadowing the stale definition
    "(declare-fun yy () Int)(assert (forall ((lim Int)) (> lim yy)))",   # quantifier shadowing it
    "(declare-fun yy () Int)(assert (exists ((flag Bool)) (and flag (> yy 0))))",
    "(declare-fun rr () Real)(assert (> rr 5))",                         # the literal 5 was read as an Int before
    "(declare-fun yy () Int)(assert (> yy 5))(check-sat)",               # no set-logic here
    "(define-fun lim () Int 7)(assert (> lim 6))",                       # re-definition
]


def scenario_parser(ctx, seed, n, ref_cache, stats):
    """failing get_script on a parser object, then the probe sequence re-parses with the same object"""
    env, fam = make_env(seed, n)
    ref = reference(seed, n, ref_cache)
    rng = ctx.rng
    parser = SmtLibParser(env)
    decl = "(declare-fun x () Int)(declare-fun p0 () Bool)(define-fun f ((a Int)) Int (+ a 1))"
    bads = [
        ("parser:undefined-symbol", decl + "(assert (> zz 0))"),
        ("parser:undefined-in-let", decl + "(assert (let ((a 1) (x 2)) (> (+ a x) zz)))"),
        ("parser:undefined-in-quantifier", decl + "(assert (forall ((x Bool) (q Int)) (> q zz)))"),
        ("parser:malformed-eof", decl + "(assert (and p0 (> x"),
        ("parser:malformed-paren", decl + "(assert (and p0 )) )"),
        ("parser:unsupported-command", decl + "(frobnicate x)"),
        ("parser:ill-typed", decl + "(assert (+ x p0))"),
        ("parser:bad-define", decl + "(define-fun g ((b Int)) Int (+ b zz))"),
        ("parser:bad-sort", "(declare-sort S 0)(declare-fun s () S)" + decl + "(assert (= s x))"),
    ]
    kind, text = bads[rng.randrange(len(bads))]
    # the successfully read prefix of the failing script defines / declares names, a sort and the logic
    text = PARSER_PREFIX + text
    k, v = outcome(lambda: parser.get_script(io.StringIO(text)))
    if k != "exc":
        ctx.case(None)
        ctx.count("parser-did-not-raise")
        return
    ctx.count("fail:parser")
    # probes on the parser object right after the failure (the failing script is read again before each of them):
    # names defined / declared by the failed script, shadowed by binders, literals it cached, its set-logic
    def read_cmds(pr, t):
        sc = pr.get_script(io.StringIO(t))
        return [(c.name, W.result_key(list(c.args), ac=False)) for c in sc.commands]
    tenv, tfam = make_env(seed, n)
    for pi, ptext in enumerate(PARSER_IMMEDIATE):
        outcome(lambda: parser.get_script(io.StringIO(text)))
        got = outcome(lambda: read_cmds(parser, ptext))
        want = outcome(lambda: read_cmds(SmtLibParser(tenv), ptext))
        if got != want:
            ctx.report_s({"fail": "parser", "call": kind, "oracle": "probe-differs", "probe": "parser-immediate"},
                         "parser object: right after the failing script %s, the script %s gives %s; on a new parser "
                         "of an untouched twin %s" % (text[:120], ptext, str(got)[:120], str(want)[:120]),
                         {"fail": kind, "seed": seed, "n": n, "text": text, "probe_text": ptext})
            break
    judge(ctx, env, fam, ref, {"fail": kind, "seed": seed, "n": n, "text": text}, {"fail": "parser", "call": kind},
          stats, parser=parser)
    ctx.case(("parser", kind, seed))


Y = "(declare-fun y () Int)"
COMMAND_SEQS = [
    # (name, prelude, failing command, later commands, kind of probe); one parser object reads them one after the other
    ("let-body", Y, "(assert (let ((a 1)) (> a zz)))", ["(assert (> a y))"], "uses-leaked-binder"),
    ("let-body-shadow", Y, "(assert (let ((y 5)) (> y zz)))", ["(assert (> y 0))"], "uses-leaked-binder"),
    ("quantifier-body", Y, "(assert (forall ((q Int)) (> q zz)))", ["(assert (> q y))"], "uses-leaked-binder"),
    ("quantifier-body-shadow", Y, "(assert (exists ((y Bool)) (and y zz)))", ["(assert (> y 0))"], "uses-leaked-binder"),
    ("define-fun-body", Y, "(define-fun g ((b Int)) Int (+ b zz))", ["(assert (> b y))"], "uses-leaked-binder"),
    ("undefined-top", Y, "(assert (> zz 0))", ["(assert (> y 0))", "(assert (> zz 0))"], "plain"),
    ("unsupported-command", Y, "(frobnicate y)", ["(assert (> y 0))", "(declare-fun k () Int)", "(assert (> k y))"], "plain"),
    ("malformed", Y, "(assert (> y ))", ["(assert (> y 0))"], "plain"),
    ("ill-typed", Y, "(assert (+ y true))", ["(assert (> y 0))", "(assert (+ y true))"], "plain"),
    # the formal parameters of a definition are fresh symbols of the environment
    ("define-fun-fresh-name", Y, "(define-fun g ((z Int)) Int (+ z zz))", ["(define-fun h ((z Int)) Int (+ z 1))"],
     "plain"),
]


def _nested_binder_seqs():
    """a command failing under 2-3 simultaneously open binders that all re-bind ONE name, every combination of
    binder kinds (L = let, Q = forall/exists, D = define-fun parameter, outermost only); the name is a declared
    symbol (`a`) or has no declaration (`e`)"""
    out = []

    def wrap(kind, name, depth, body):
        if kind == "L":
            return "(let ((%s (+ c %d))) %s)" % (name, depth, body)
        return "(%s ((%s Int)) %s)" % ("forall" if depth % 2 else "exists", name, body)
    for name, decl in (("a", "(declare-fun c () Int)(declare-fun a () Int)"), ("e", "(declare-fun c () Int)")):
        for outer in "LQD":
            for mid in ("", "L", "Q"):
                for inner in "LQ":
                    kinds = [k for k in (mid, inner) if k]
                    body = "(> %s undefined_symbol)" % name
                    for d, k in enumerate(reversed(kinds)):
                        body = wrap(k, name, d + 1, body)
                    if outer == "D":
                        bad = "(define-fun g ((%s Int)) Bool %s)" % (name, body)
                    else:
                        bad = "(assert %s)" % wrap(outer, name, 7, body)
                    later = ["(assert (> %s 0))" % name, "(assert (= (+ %s 1) c))" % name]
                    out.append(("nested:%s%s%s:%s" % (outer, mid, inner, name), decl, bad, later, "uses-leaked-binder"))
    return out


COMMAND_SEQS += _nested_binder_seqs()


def _garbage_seqs():
    """a valid command head followed by trailing garbage / a missing parenthesis, for every command that could set
    parser or cache state before it has consumed its closing parenthesis; then probes sensitive to that state"""
    pre = "(declare-fun i () Int)(declare-fun rr () Real)(declare-fun bb () Bool)"
    numerals = ["(assert (= i 3))", "(assert (= rr 3))", "(assert (and bb (< i 2) (< rr 2.5)))"]
    heads = [
        ("set-logic", "(set-logic QF_LRA", numerals),
        ("set-logic2", "(set-logic QF_BV", numerals),
        ("set-logic3", "(set-logic QF_NIA", numerals),
        ("set-option", "(set-option :produce-models true", numerals),
        ("set-info", "(set-info :status sat", numerals),
        ("declare-fun", "(declare-fun nn () Int", ["(assert (> nn 0))", "(declare-fun nn () Int)", "(assert (> nn i))"]),
        ("declare-const", "(declare-const nc Int", ["(assert (> nc 0))", "(declare-const nc Int)"]),
        ("declare-sort", "(declare-sort SS 0", ["(declare-fun q1 () SS)", "(declare-sort SS 0)", "(declare-fun q2 () SS)"]),
        ("define-fun", "(define-fun dd () Int 5", ["(assert (> dd 0))", "(define-fun dd () Int 6)", "(assert (> dd i))"]),
        ("define-fun-params", "(define-fun de ((k Int)) Int (+ k 1)", ["(assert (> (de i) 0))", "(assert (> k 0))"]),
        ("define-sort", "(define-sort DS () Int", ["(declare-fun q3 () DS)"]),
        ("push", "(push 1", numerals[:1] + ["(pop 1)"]),
        ("pop", "(pop 1", numerals[:1]),
        ("assert", "(assert (> i 0)", numerals[:1]),
        ("check-sat", "(check-sat", numerals[:1]),
        ("get-value", "(get-value (i)", numerals[:1]),
    ]
    out = []
    for name, head, later in heads:
        out.append(("garbage:%s:extra-token" % name, pre, head + " extra_token)", later, "plain"))
        out.append(("garbage:%s:extra-list" % name, pre, head + " (extra list))", later, "plain"))
        out.append(("garbage:%s:unterminated" % name, pre, head, later, "plain"))
    return out


COMMAND_SEQS += _garbage_seqs()
COMMAND_SEQS += [
    # a failing term inside get-value, a failing get_assignment_list
    ("get-value-bad-term", Y, "(get-value ((+ y zz)))", ["(get-value (y))", "(assert (> y 0))"], "plain"),
    ("get-value-bad-let", Y, "(get-value ((let ((t 1)) (+ t zz))))", ["(assert (> t y))", "(get-value (y))"],
     "uses-leaked-binder"),
    ("assignment-list-bad", Y, "@assign:((y 3) (zz", ["(assert (> y 0))", "@assign:((y 4))"], "plain"),
    ("assignment-list-bad-let", Y, "@assign:((y (let ((t 1)) (+ t zz))))", ["(assert (> t y))"], "uses-leaked-binder"),
    # a binder that shadows an existing name is CLOSED inside the failing command, the failure comes later
    ("closed-let-then-fail", "(declare-fun c () Int)(declare-fun a () Int)(declare-fun bb () Bool)",
     "(assert (and (let ((a (+ c 1))) (> a 0)) (> zz 0)))", ["(assert (> a 0))", "(assert (and bb (= a c)))"],
     "uses-declared-name"),
    ("closed-quantifier-then-fail", "(declare-fun c () Int)(declare-fun a () Int)(declare-fun bb () Bool)",
     "(assert (and (forall ((a Int)) (> a c)) (exists ((bb Int)) (> bb 0)) zz))",
     ["(assert (> a 0))", "(assert bb)"], "uses-declared-name"),
    ("closed-let-true-then-fail", "(declare-fun bb () Bool)",
     "(assert (and (let ((true bb) (false bb)) (and true false)) zz))", ["(assert (and bb true))", "(assert (or false bb))"],
     "uses-declared-name"),
    ("closed-nested-lets-then-fail", "(declare-fun c () Int)(declare-fun a () Int)",
     "(assert (> (+ (let ((a 1)) (let ((a (+ a 1))) a)) (let ((c 5)) c)) zz))",
     ["(assert (> a c))", "(assert (let ((a 2)) (> a c)))"], "uses-declared-name"),
    ("closed-let-in-define-fun-then-fail", "(declare-fun c () Int)(declare-fun a () Int)",
     "(define-fun g ((k Int)) Bool (and (let ((a 1) (c k)) (> a c)) zz))", ["(assert (> a c))", "(assert (> k 0))"],
     "uses-declared-name"),
    ("closed-let-in-get-value-then-fail", "(declare-fun c () Int)(declare-fun a () Int)",
     "(get-value ((let ((a 1)) a) zz))", ["(assert (> a c))", "(get-value (a))"], "uses-declared-name"),
    ("closed-let-then-garbage", "(declare-fun c () Int)(declare-fun a () Int)",
     "(assert (let ((a 1)) (> a c)) extra)", ["(assert (> a c))"], "uses-declared-name"),
    # truncated / unterminated assignment lists (the answer of a solver that died): the environment's symbols, which
    # get_assignment_list binds while it reads, must be unbound again
    ("assignment-list-truncated", Y, "@assign:((y 1) (envx ",
     ["(assert (> envx 0))", "(assert (let ((envx 1) (zq (+ envx 1))) (> zq y)))", "(assert envb)", "@assign:((envx 2))"],
     "uses-leaked-binder"),
    ("assignment-list-truncated2", Y, "@assign:((y 1",
     ["(assert (and envb (> envx 0)))", "@assign:((envx 2) (y 3))", "(assert (> envx y))"], "uses-leaked-binder"),
    ("assignment-list-truncated3", Y, "@assign:(", ["(assert (> envx 0))", "(assert (forall ((envx Bool)) envx))"],
     "uses-leaked-binder"),
    ("assignment-list-no-paren", Y, "@assign:((y 1) envx)", ["(assert (> envx 0))", "(assert envb)"], "uses-leaked-binder"),
    ("assignment-list-bad-term-env", Y, "@assign:((envx (+ envx zz)))", ["(assert (> envx 0))"], "uses-leaked-binder"),
    ("get-value-unterminated", Y, "(get-value ((+ y 1)", ["(assert (> envx 0))", "(get-value (y))"], "plain"),
    # a failing quantified assertion has already created the symbols of its bound variables in the manager
    ("quantifier-symbol-leak", Y, "(assert (forall ((w Int)) zz))", ["(declare-fun w () Real)"], "declare-other-sort"),
]



def _stale_literal_seqs():
    """a numeral FIRST read inside a failing command (its reading depends on the logic in force: Int without a logic
    or with an integer logic, Real under a real-only logic), then set-logic to the other kind of logic, then the same
    numeral where the parser does not coerce constants: argument of an uninterpreted function, array index"""
    out = []
    shapes = [("undeclared", "(assert (and p (< %s zz)))"), ("let-body", "(assert (let ((t %s)) (> t zz)))"),
              ("garbage", "(assert (< x %s) extra)"), ("get-value", "(get-value ((+ %s zz)))"),
              ("define-fun", "(define-fun k9 () Real (+ %s zz))"), ("unterminated", "(assert (< x %s)"),
              ("ill-typed", "(assert (and p %s))")]
    for lit in ("7", "12"):
        for nm, bad in shapes:
            out.append(("stale-literal:%s:%s:to-real" % (nm, lit), "(declare-fun x () Real)(declare-fun p () Bool)",
                        bad % lit,
                        ["(assert (or p (< x 2)))", "(set-logic QF_UFLRA)", "(declare-fun f (Real) Real)",
                         "(assert (< (f %s) (f x)))" % lit, "(declare-fun ar () (Array Real Real))",
                         "(assert (= (select ar %s) x))" % lit, "(assert (< x %s))" % lit,
                         "(define-fun k () Real (ite p %s x))" % lit, "(assert (= k x))"], "stale-literal"))
            out.append(("stale-literal:%s:%s:to-int" % (nm, lit),
                        "(set-logic QF_LRA)(declare-fun x () Real)(declare-fun p () Bool)(declare-fun yi () Int)",
                        bad % lit,
                        ["(set-logic QF_UFLIA)", "(declare-fun g (Int) Int)", "(assert (< (g %s) (g yi)))" % lit,
                         "(declare-fun ai () (Array Int Int))", "(assert (= (select ai %s) yi))" % lit,
                         "(assert (< yi %s))" % lit], "stale-literal"))
    return out


COMMAND_SEQS += _stale_literal_seqs()

_FRESH_NAME = __import__("re").compile(r"__([A-Za-z_]+?)\d+")


def scenario_commands(ctx, idx, stats):
    """one parser object reading a stream of commands (get_command_generator does not reset the parser)"""
    name, prelude, bad, later, probe_kind = COMMAND_SEQS[idx % len(COMMAND_SEQS)]

    def run(with_bad):
        env = Environment()
        push_env(env)
        try:
            # symbols of the ENVIRONMENT that the parser object never declared
            env.formula_manager.Symbol("envx", types.INT)
            env.formula_manager.Symbol("envb", types.BOOL)
            parser = SmtLibParser(env)
            out, norm = [], []

            def cmds(text):
                if text.startswith("@assign:"):
                    lst = parser.get_assignment_list(io.StringIO(text[len("@assign:"):]))
                    return ([("assign", [W.result_key(list(p_), ac=False) for p_ in lst])],
                            [("assign", [str(p_) for p_ in lst])])
                res = list(parser.get_command_generator(io.StringIO(text)))
                return ([(c.name, [W.result_key(a, ac=False) for a in c.args]) for c in res],
                        [(c.name, [_FRESH_NAME.sub(r"__\1#", str(a)) for a in c.args]) for c in res])
            outcome(lambda: cmds(prelude))
            if with_bad:
                k, v = outcome(lambda: cmds(bad))
                if k != "exc":
                    return None
            for t in later:
                k, v = outcome(lambda: cmds(t))
                out.append((k, v[0] if k == "ok" else v))
                norm.append((k, v[1] if k == "ok" else v))
            return out, norm
        finally:
            pop_env()
    got, ref = run(True), run(False)
    if got is None:
        ctx.case(None)
        return
    ctx.count("fail:parser-command")
    ctx.case(("commands", name))
    if got[0] != ref[0]:
        only_names = got[1] == ref[1]
        ctx.report_s({"oracle": "parser-command-sequence", "fail": name.split(":")[0], "shape": name,
                      "probe": "fresh-name" if only_names else probe_kind},
                     "parser object: after the failing command %s the commands %s give %s; without the failing "
                     "command %s" % (bad, later, str(got[1])[:160], str(ref[1])[:160]),
                     {"fail": "commands:" + name, "bad": bad, "later": later})


# ----------------------------------------------------------------------------------------------
# solver objects: the real SmtLibSolver driving the strict reference solver process of C17
# ----------------------------------------------------------------------------------------------
SOLVER_FAILS = ["decl-rejected-bv8", "decl-rejected-fun", "assert-rejected", "unknown-answer",
                "assert-rejected-new-symbol", "decl-rejected-bv8-again"]


def solver_run(fail, with_fail):
    """one solver object: prelude, (failing call), probes -> list of outcomes"""
    import os
    from pysmt.logics import QF_AUFBVLIRA
    env = Environment()
    m = env.formula_manager
    here = os.path.dirname(os.path.dirname(os.path.abspath(__file__)))
    env.factory.add_generic_solver("c15ref", [sys.executable, "-S", "-E", "-B", os.path.join(here, "refsolver.py"),
                                              "--int-range", "3", "--usize", "3"], [QF_AUFBVLIRA])
    INT = types.INT
    x, y = m.Symbol("x", INT), m.Symbol("y", INT)
    v2, v8 = m.Symbol("v2", types.BVType(2)), m.Symbol("v8", types.BVType(8))
    vnew = m.Symbol("vnew", types.BVType(3))
    f = m.Symbol("f", types.FunctionType(INT, [INT]))
    ub = m.Symbol("UNKNOWNb", types.BOOL)
    s = env.factory.Solver(name="c15ref", logic=QF_AUFBVLIRA)
    out = []

    def do(name, th):
        k, v = outcome(th)
        out.append((name, k, v if k == "exc" else str(v)))
        return k
    try:
        s.add_assertion(m.GT(x, m.Int(0)))
        s.add_assertion(m.BVULT(v2, m.BV(3, 2)))
        s.solve()
        fails = {
            "decl-rejected-bv8": lambda: s.add_assertion(m.And(m.GT(x, m.Int(1)), m.BVULT(v8, m.BV(3, 8)))),
            "decl-rejected-bv8-again": lambda: s.add_assertion(m.BVULT(v8, m.BV(3, 8))),
            "decl-rejected-fun": lambda: s.add_assertion(m.Equals(m.Function(f, [x]), x)),
            "assert-rejected": lambda: s.add_assertion(m.Equals(m.BVToNatural(v2), x)),
            "assert-rejected-new-symbol": lambda: s.add_assertion(m.Equals(m.BVToNatural(vnew), x)),
        }
        if fail == "unknown-answer":
            s.push()
            s.add_assertion(ub)
            if with_fail:
                if outcome(s.solve)[0] != "exc":
                    return None
            do("pop", lambda: s.pop())
        elif with_fail:
            if outcome(fails[fail])[0] != "exc":
                return None
        model = lambda: sorted((str(k), str(v)) for k, v in s.get_model())
        do("solve", s.solve)
        do("get_model", model)
        do("get_value", lambda: s.get_value(x))
        do("assert_more", lambda: s.add_assertion(m.LT(x, m.Int(3))))
        do("solve2", s.solve)
        do("push", lambda: s.push())
        do("assert_neg", lambda: s.add_assertion(m.LT(x, m.Int(0))))
        do("solve3", s.solve)
        do("pop", lambda: s.pop())
        do("solve4", s.solve)
        do("get_model2", model)
        do("new_symbol", lambda: s.add_assertion(m.GT(y, x)))
        do("solve5", s.solve)
        do("get_model3", model)
        if fail.startswith("decl-rejected-bv8"):
            # the rejected symbol again: must be rejected exactly as on a solver that never saw it
            do("same_symbol_again", lambda: s.add_assertion(m.BVULT(v8, m.BV(1, 8))))
            do("get_model4", model)
        return out
    finally:
        try:
            s.exit()
        except Exception:     # noqa
            pass


def make_fake_solver_class():
    from pysmt.solvers.solver import IncrementalTrackingSolver
    from pysmt.solvers.options import SolverOptions
    from pysmt.decorators import clear_pending_pop
    from pysmt.exceptions import ConvertExpressionError, InternalSolverError, SolverReturnedUnknownResultError
    from pysmt.logics import QF_BOOL
    import itertools

    class FakeTracking(IncrementalTrackingSolver):
        """Boolean enumerating solver, decorated like solvers/z3.py; the k-th call of a primitive can be made to raise"""
        LOGICS = [QF_BOOL]
        OptionsClass = SolverOptions

        def __init__(self, environment, logic=QF_BOOL, **options):
            IncrementalTrackingSolver.__init__(self, environment, logic, **options)
            self.levels = [[]]
            self.fail_next = None        # name of the primitive whose next call raises

        def _maybe_fail(self, name, exc):
            if self.fail_next == name:
                self.fail_next = None
                raise exc

        @clear_pending_pop
        def _reset_assertions(self):
            self.levels = [[]]

        @clear_pending_pop
        def _add_assertion(self, formula, named=None):
            self._maybe_fail("add", ConvertExpressionError(message="cannot convert", expression=formula))
            self.levels[-1].append(formula)
            return formula

        @clear_pending_pop
        def _solve(self, assumptions=None):
            self._maybe_fail("solve", SolverReturnedUnknownResultError())
            fs = [f for lv in self.levels for f in lv] + list(assumptions or [])
            m = self.environment.formula_manager
            syms = sorted(set().union(*[self.environment.fvo.get_free_variables(f) for f in fs]) if fs else [],
                          key=lambda s_: s_.symbol_name())
            for vals in itertools.product([False, True], repeat=len(syms)):
                asg = {s_: m.Bool(v) for s_, v in zip(syms, vals)}
                env_ = self.environment
                if all(env_.simplifier.simplify(env_.substituter.substitute(f, asg)).is_true() for f in fs):
                    return True
            return False

        @clear_pending_pop
        def _push(self, levels=1):
            self._maybe_fail("push", InternalSolverError("push refused"))
            for _ in range(levels):
                self.levels.append([])

        @clear_pending_pop
        def _pop(self, levels=1):
            for _ in range(levels):
                self.levels.pop()

        def _exit(self):
            pass

    return FakeTracking


TRACK_FAILS = [(q, prim) for q in ("is_sat", "is_valid", "is_unsat") for prim in ("add", "solve", "push")]
# the failure INSIDE the query itself (after its internal push): the temporary formula's add_assertion raises, solve
# raises, or the internal push raises; with and without an earlier successful query (a pending pop) before it
TRACK_FAILS += [(q, prim + mode) for q in ("is_sat", "is_valid", "is_unsat") for prim in ("add", "solve", "push")
                for mode in ("@inside", "@inside-first")]


def tracking_run(Fake, query, prim, with_fail):
    env = Environment()
    m = env.formula_manager
    a, b, c, d = [m.Symbol(nm) for nm in "abcd"]
    s = Fake(env)
    out = []

    def do(name, th):
        k, v = outcome(th)
        out.append((name, k, W.result_key(v, ac=False) if k == "ok" else v))
    s.add_assertion(m.Or(a, b))
    s.push()
    s.add_assertion(m.Not(a))
    prim, _, mode = prim.partition("@")
    if mode != "inside-first":
        getattr(s, query)(m.And(b, c))            # leaves a pending pop behind
    if with_fail and mode:
        s.fail_next = prim
        if outcome(lambda: getattr(s, query)(m.And(m.Or(b, c), d)))[0] != "exc":
            return None
        s.fail_next = None
    elif with_fail:
        s.fail_next = prim
        call = {"add": lambda: s.add_assertion(m.Implies(c, d)), "solve": lambda: s.solve(),
                "push": lambda: s.push()}[prim]
        if outcome(call)[0] != "exc":
            return None
    do("assertions", lambda: list(s.assertions))
    do("backend", lambda: [list(lv) for lv in s.levels] if not s.pending_pop else [list(lv) for lv in s.levels[:-1]])
    do("is_sat", lambda: s.is_sat(m.And(a, b)))
    do("is_sat2", lambda: s.is_sat(b))
    do("solve", lambda: s.solve())
    do("assertions2", lambda: list(s.assertions))
    do("user_pop", lambda: s.pop())
    do("assertions3", lambda: list(s.assertions))
    do("is_sat3", lambda: s.is_sat(m.And(a, m.Not(b))))
    do("is_valid", lambda: s.is_valid(m.Or(a, b)))
    do("push_add", lambda: (s.push(), s.add_assertion(d), s.solve()))
    do("assertions4", lambda: list(s.assertions))
    do("user_pop2", lambda: s.pop())
    do("assertions5", lambda: list(s.assertions))
    do("pop_too_many", lambda: s.pop())
    return out


def scenario_tracking(ctx, idx, stats, Fake):
    query, prim = TRACK_FAILS[idx % len(TRACK_FAILS)]
    got, ref = tracking_run(Fake, query, prim, True), tracking_run(Fake, query, prim, False)
    if got is None:
        ctx.case(None)
        return
    ctx.count("fail:tracking-solver")
    ctx.case(("tracking", query, prim))
    for g, r in zip(got, ref):
        if g != r:
            ctx.report_s({"oracle": "tracking-solver", "fail": "%s-then-failing-%s" % (query, prim),
                          "probe": g[0].rstrip("0123456789")},
                         "IncrementalTrackingSolver: after %s(...) and a %s that raises, the probe %s gives %s; on a "
                         "twin solver that skipped the failing call %s" % (query, prim, g[0], str(g[1:])[:100],
                                                                             str(r[1:])[:100]),
                         {"fail": "tracking:%d" % (idx % len(TRACK_FAILS))})
            break


def scenario_solver(ctx, idx, stats):
    fail = SOLVER_FAILS[idx % len(SOLVER_FAILS)]
    try:
        got, ref = solver_run(fail, True), solver_run(fail, False)
    except Exception as e:      # noqa  (the reference solver process could not be started)
        ctx.count("solver-infra-skip")
        ctx.extra["solver_stream_error"] = repr(e)[:200]
        return
    if got is None:
        ctx.case(None)
        ctx.count("solver-fail-did-not-raise")
        return
    ctx.count("fail:solver")
    ctx.case(("solver", fail))
    for g, r in zip(got, ref):
        if g != r:
            ctx.report_s({"oracle": "solver-object", "fail": fail, "probe": g[0].rstrip("0123456789")},
                         "solver object: after the failing call %s the probe %s gives %s; on a twin solver that did "
                         "not make the failing call %s" % (fail, g[0], str(g[1:])[:120], str(r[1:])[:120]),
                         {"fail": "solver:" + fail})
            break


# ----------------------------------------------------------------------------------------------
def generic_sequences(ctx, rng, count, reqs_generic):
    """HashWalker op sequences with faults (walkers/dag.py itself): model predicts everything incl. results"""
    for _ in range(count):
        env, fam = make_env(rng.randrange(10 ** 9), rng.choice([6, 12, 25, 40]))
        push_env(env)
        try:
            req, obs = W.generic_case(ctx, rng, env, fam, n_ops=rng.randint(3, 7))
        finally:
            pop_env()
        reqs_generic.append((req, obs))


def run(ctx):
    sys.setrecursionlimit(1000)
    rng = ctx.rng
    quick = ctx.tier == "quick"
    stats = {"ac_fallback": 0}
    ref_cache = {}
    reqs = []
    reqs_generic = []
    pools = [(rng.randrange(10 ** 9), rng.choice([10, 18, 28, 40])) for _ in range(6 if quick else 40)]
    # 1. natural failures
    for i in range(400 if quick else 4000):
        if ctx.time_left() < 60:
            break
        seed, n = pools[i % len(pools)]
        scenario_natural(ctx, seed, n, ref_cache, stats)
    # 2. parser objects
    for i in range(120 if quick else 1200):
        if ctx.time_left() < 60:
            break
        seed, n = pools[i % len(pools)]
        scenario_parser(ctx, seed, n, ref_cache, stats)
    for i in range(len(COMMAND_SEQS)):
        scenario_commands(ctx, i, stats)
    # 2b. solver objects
    for i in range(len(SOLVER_FAILS)):
        scenario_solver(ctx, i, stats)
    Fake = make_fake_solver_class()
    for i in range(len(TRACK_FAILS)):
        scenario_tracking(ctx, i, stats, Fake)
    # 3. injection at the k-th callback: exhaustive in k for small pools, sampled for the others
    nspec = len(walker_specs())
    exhaustive_pool = (rng.randrange(10 ** 9), 6)
    for si in range(nspec):
        if ctx.time_left() < 50:
            ctx.count("injection-cut-by-time-budget")
            break
        scenario_inject(ctx, exhaustive_pool[0], exhaustive_pool[1], si, lambda t: range(1, t + 1) if (not quick or t <= 16) else sorted(set([1, 2, t] + [rng.randint(1, t) for _ in range(8)])),
                        ref_cache, stats, reqs)
    extra = 40 if quick else 1200
    for i in range(extra):
        if ctx.time_left() < 45:
            ctx.count("injection-cut-by-time-budget")
            break
        seed, n = pools[i % len(pools)]
        scenario_inject(ctx, seed, n, rng.randrange(nspec),
                        lambda t: sorted(set([1, t] + [rng.randint(1, t) for _ in range(3)])), ref_cache, stats, reqs)
    ctx.extra["exhaustive_injection_pool_nodes"] = exhaustive_pool[1]
    # 4. generic DagWalker sequences with faults
    generic_sequences(ctx, rng, 200 if quick else 4000, reqs_generic)
    # ---- model
    table = W.model_answers(ctx, "C15", [r for r, _, _ in reqs] + [r for r, _ in reqs_generic])
    if table is not None:
        for req, rec, replay in reqs:
            ans = W.parse_answer(table[req])
            if ans is None:
                ctx.report_k("model rejected %s" % req[:200], replay)
                continue
            a = ans[0]
            diffs = []
            if not a["out"].startswith("err"):
                diffs.append("outcome model=%s impl=err" % a["out"])
            for fld, mine in (("c", rec["c"]), ("st", str(rec["st"])), ("m", rec["m"]), ("p", str(rec["p"])), ("i", str(rec["i"]))):
                if a.get(fld) != mine:
                    diffs.append("%s model=%s impl=%s" % (fld, a.get(fld), mine))
            if diffs:
                ctx.report_k("%s: %s" % (replay["fail"], "; ".join(diffs)), dict(replay, req=req[:1500]))
        for req, obs in reqs_generic:
            ans = W.parse_answer(table[req])
            ctx.case(("generic", req[:160]))
            if ans is None or len(ans) != len(obs):
                ctx.report_k("generic walker: model rejected %s" % req[:300], {"req": req})
                continue
            for j, (a, o) in enumerate(zip(ans, obs)):
                d = [f for f in ("out", "c", "st", "m", "p", "i") if a.get(f) != o[f]]
                if d:
                    ctx.report_k("generic DagWalker op %d: %s" % (j, ", ".join(
                        "%s model=%s impl=%s" % (f, a.get(f), o[f]) for f in d)), {"req": req, "op": j})
                    if o["st"] != "0":
                        ctx.report_s({"oracle": "leftover", "fail": "inject", "walker": "generic", "what": "stack"},
                                     "DagWalker keeps %s stack entries after an injected exception" % o["st"], {"req": req})
                    break
    ctx.extra["ac_fallbacks"] = stats["ac_fallback"]
    k0 = ("ref", pools[0][0], pools[0][1], False)
    ctx.sample({"pool_seed": pools[0][0], "n": pools[0][1], "probes": len(ref_cache[k0][0]) if k0 in ref_cache else 0})
    if reqs:
        ctx.sample({"failing": reqs[0][2], "request": reqs[0][0][:300],
                    "observed": {k: reqs[0][1][k] for k in ("out", "c", "st", "m", "p", "i")}})


def replay(ctx, rep):
    sys.setrecursionlimit(1000)
    r = rep.get("replay", {})
    stats = {"ac_fallback": 0}
    ref_cache = {}
    fail = r.get("fail", "")
    if fail.startswith("tracking:"):
        scenario_tracking(ctx, int(fail.split(":")[1]), stats, make_fake_solver_class())
        return
    if fail.startswith("solver:"):
        scenario_solver(ctx, SOLVER_FAILS.index(fail.split(":", 1)[1]), stats)
        return
    if fail.startswith("commands:"):
        names = [c[0] for c in COMMAND_SEQS]
        scenario_commands(ctx, names.index(fail.split(":", 1)[1]), stats)
        return
    if "seed" not in r:
        ctx.report_k("replay: re-run VERIF_SEED=%s ./check C15" % rep.get("seed"), r)
        return
    seed, n = r["seed"], r["n"]
    if fail.startswith("inject:"):
        name, k = fail[len("inject:"):].rsplit("@", 1)
        idx = [s.name for s in walker_specs()].index(name)
        reqs = []
        scenario_inject(ctx, seed, n, idx, lambda t: [int(k)], ref_cache, stats, reqs)
        return
    env, fam = make_env(seed, n)
    ref = reference(seed, n, ref_cache)
    if fail.startswith("parser:"):
        parser = SmtLibParser(env)
        outcome(lambda: parser.get_script(io.StringIO(r.get("text", ""))))
        judge(ctx, env, fam, ref, r, {"fail": "parser", "call": fail}, stats, parser=parser)
        return
    scenario_natural(ctx, seed, n, ref_cache, stats, only=fail)
