"""C05 — substitution (pysmt/substituter.py: MGSubstituter, MSSubstituter, FunctionInterpretation).

K  the Lean model (lean/PySMT/Impl/Subst.lean via Drivers/C05) against the real classes, literal
   comparison of wire encodings (array values up to the order of their pairs, which pySMT derives
   from object ids), error classes of `substitute()`; every generated formula must be `Build.normal`;
   the harness' NoCapture / spec implementations are cross-checked against the Lean definitions.
S  independent of the model:
   (a) semantic — symbol-keyed, type-correct map, proviso NoCapture decided here: for sampled
       interpretations I, value(result, I) = value(original, I[x := value(map[x], I)]) (Sem driver);
       function interpretations over finite argument sorts: value(result, I) = value(original,
       I[f := table of the body]);
   (b) syntactic — the result is the most-general / most-specific replacement computed by the two
       direct recursive definitions below (written from the class docstrings);
   (c) a map whose keys are symbols that do not occur free leaves the formula unchanged.
"""
import itertools
from fractions import Fraction

import pysmt.operators as op
from pysmt.environment import Environment
from pysmt.exceptions import PysmtException
from pysmt.substituter import MGSubstituter, MSSubstituter, FunctionInterpretation
from pysmt.typing import BOOL, INT, REAL, STRING, BVType, ArrayType, FunctionType

import time
import warnings

import common
import gen
import semantic
import wire

LEAN_MODULES = ["PySMT.Props.C05"]
RULE = ("formulas over Bool/Int/Real/BV/String/Array/UF with nested and shadowing quantifiers and shared sub-DAGs; maps "
        "with symbol keys, sub-term keys, a key inside another key, a key and its negation, keys mentioning bound "
        "variables, whole quantified sub-formulas as keys, identity pairs t -> t on compound keys with other keys inside t, keys that only appear after replacing a child (most-specific "
        "chains), type-correct values (some mentioning bound variables); function interpretations of arity 1-3 with "
        "applications nested in arguments; both substituter classes and both environment default classes; a case is "
        "non-trivial when the result differs from the input formula or an error is raised; distinct = distinct requests")
ASSUMPTIONS = ["formulas, keys and values are terms of one FormulaManager (foreign terms only exercise the validation)",
               "reals are rationals; arrays are finitely supported",
               "interpretations under which a division by zero is evaluated are skipped",
               "capture (a free symbol of a replacement falling under a binder of it) is excluded by the property's proviso"]


# ------------------------------------------------------------------------------------------------
# universe / generation
# ------------------------------------------------------------------------------------------------
class Uni(gen.Universe):
    def __init__(self, env, theories):
        gen.Universe.__init__(self, env, theories=theories, widths=(1, 2, 4))
        m = self.mgr
        self.fin_funs = []
        if "uf" in self.theories:
            b2 = BVType(2)
            self.fin_funs = [m.Symbol("fb", FunctionType(b2, [b2])),
                             m.Symbol("gb", FunctionType(BOOL, [BOOL, b2])),
                             m.Symbol("hb", FunctionType(b2, [b2, b2, BOOL]))]
            self.funs.extend(self.fin_funs)
            self.funs.append(m.Symbol("k3", FunctionType(INT, [INT, BOOL, INT])))


class FGen(gen.FormulaGen):
    """bit-vector valued applications are not produced by gen.FormulaGen: add them"""

    def _gen_op(self, ty, depth):
        if ty.is_bv_type() and ty.width == 2 and self.u.funs and self.rng.random() < 0.25:
            fs = [f for f in self.u.funs if f.symbol_type().return_type == ty]
            if fs:
                f = self._pick(fs)
                return self.m.Function(f, [self.gen(t, depth - 1) for t in f.symbol_type().param_types])
        return gen.FormulaGen._gen_op(self, ty, depth)


def subterms(f):
    """distinct sub-terms in pre-order, with the set of variables bound above each (first visit)"""
    out, seen = [], set()
    stack = [(f, frozenset())]
    while stack:
        n, bound = stack.pop()
        if n in seen:
            continue
        seen.add(n)
        out.append((n, bound))
        b2 = bound | frozenset(n.quantifier_vars()) if n.is_quantifier() else bound
        for c in reversed(n.args()):
            stack.append((c, b2))
    return out


def free_vars(f, memo=None):
    """free symbols (incl. applied function symbols) — direct recursive definition"""
    if memo is None:
        memo = {}
    if f in memo:
        return memo[f]
    if f.is_symbol():
        r = frozenset([f])
    elif f.is_quantifier():
        r = free_vars(f.arg(0), memo) - frozenset(f.quantifier_vars())
    else:
        r = frozenset()
        for a in f.args():
            r = r | free_vars(a, memo)
        if f.is_function_application():
            r = r | frozenset([f.function_name()])
    memo[f] = r
    return r


# ------------------------------------------------------------------------------------------------
# independent definitions (S oracles)
# ------------------------------------------------------------------------------------------------
def constructor_table(m):
    """the FormulaManager constructor of every node type, applied to new children"""
    def bvext(c):
        return lambda f, a: c(a[0], f.bv_extend_step())

    def bvrot(c):
        return lambda f, a: c(a[0], f.bv_rotation_step())

    def nary(c):
        return lambda f, a: c(list(a))

    def fixed(c):
        return lambda f, a: c(*a)
    t = {
        op.AND: nary(m.And), op.OR: nary(m.Or), op.PLUS: nary(m.Plus), op.TIMES: nary(m.Times),
        op.STR_CONCAT: nary(m.StrConcat),
        op.FORALL: lambda f, a: m.ForAll(f.quantifier_vars(), a[0]),
        op.EXISTS: lambda f, a: m.Exists(f.quantifier_vars(), a[0]),
        op.SYMBOL: lambda f, a: f, op.REAL_CONSTANT: lambda f, a: f, op.BOOL_CONSTANT: lambda f, a: f,
        op.INT_CONSTANT: lambda f, a: f, op.STR_CONSTANT: lambda f, a: f, op.BV_CONSTANT: lambda f, a: f,
        op.FUNCTION: lambda f, a: m.Function(f.function_name(), list(a)),
        op.BV_EXTRACT: lambda f, a: m.BVExtract(a[0], f.bv_extract_start(), f.bv_extract_end()),
        op.BV_ROL: bvrot(m.BVRol), op.BV_ROR: bvrot(m.BVRor),
        op.BV_ZEXT: bvext(m.BVZExt), op.BV_SEXT: bvext(m.BVSExt),
        op.ARRAY_VALUE: lambda f, a: m.Array(f.array_value_index_type(), a[0], dict(zip(a[1::2], a[2::2]))),
    }
    for nt, c in [(op.NOT, m.Not), (op.IMPLIES, m.Implies), (op.IFF, m.Iff), (op.MINUS, m.Minus), (op.LE, m.LE),
                  (op.LT, m.LT), (op.EQUALS, m.Equals), (op.ITE, m.Ite), (op.TOREAL, m.ToReal), (op.BV_NOT, m.BVNot),
                  (op.BV_AND, m.BVAnd), (op.BV_OR, m.BVOr), (op.BV_XOR, m.BVXor), (op.BV_CONCAT, m.BVConcat),
                  (op.BV_ULT, m.BVULT), (op.BV_ULE, m.BVULE), (op.BV_NEG, m.BVNeg), (op.BV_ADD, m.BVAdd),
                  (op.BV_SUB, m.BVSub), (op.BV_MUL, m.BVMul), (op.BV_UDIV, m.BVUDiv), (op.BV_UREM, m.BVURem),
                  (op.BV_LSHL, m.BVLShl), (op.BV_LSHR, m.BVLShr), (op.BV_SLT, m.BVSLT), (op.BV_SLE, m.BVSLE),
                  (op.BV_COMP, m.BVComp), (op.BV_SDIV, m.BVSDiv), (op.BV_SREM, m.BVSRem), (op.BV_ASHR, m.BVAShr),
                  (op.STR_LENGTH, m.StrLength), (op.STR_CONTAINS, m.StrContains), (op.STR_INDEXOF, m.StrIndexOf),
                  (op.STR_REPLACE, m.StrReplace), (op.STR_SUBSTR, m.StrSubstr), (op.STR_PREFIXOF, m.StrPrefixOf),
                  (op.STR_SUFFIXOF, m.StrSuffixOf), (op.STR_TO_INT, m.StrToInt), (op.INT_TO_STR, m.IntToStr),
                  (op.STR_CHARAT, m.StrCharAt), (op.ARRAY_SELECT, m.Select), (op.ARRAY_STORE, m.Store),
                  (op.DIV, m.Div), (op.POW, m.Pow), (op.BV_TONATURAL, m.BVToNatural)]:
        t[nt] = fixed(c)
    return t


class Spec:
    """"replace the outermost matching sub-term" / "rebuild the children, then replace the result if
    it is a key", written from the docstrings of MGSubstituter / MSSubstituter."""

    def __init__(self, env, env_ms):
        self.mgr = env.formula_manager
        self.table = constructor_table(self.mgr)
        self.env_ms = env_ms
        self.fvmemo = {}

    def below(self, subs, qvars):
        qs = frozenset(qvars)
        return {k: v for k, v in subs.items() if not (free_vars(k, self.fvmemo) & qs)}

    def children(self, rec, f, subs, interps):
        if f.is_quantifier():
            return [rec(f.arg(0), self.below(subs, f.quantifier_vars()), interps)]
        return [rec(a, subs, interps) for a in f.args()]

    def construct(self, f, args, interps):
        if f.is_function_application() and f.function_name() in interps:
            formals, body = interps[f.function_name()]
            if len(formals) != len(args):
                raise ValueError("arity")
            inst = dict(zip(formals, args))
            return (self.ms if self.env_ms else self.mg)(body, inst, {})
        return self.table[f.node_type()](f, args)

    def mg(self, f, subs, interps):
        if f in subs:
            # the children are still visited by a post-order traversal: an error below is an error
            self.children(self.mg, f, subs, interps)
            return subs[f]
        return self.construct(f, self.children(self.mg, f, subs, interps), interps)

    def ms(self, f, subs, interps):
        r = self.construct(f, self.children(self.ms, f, subs, interps), interps)
        return subs.get(r, r)


def no_capture(f, smap, fvmemo):
    """the proviso, decided directly: walking down, `active` = keys still replaced; at a binder of
    vs every active key (not in vs) that is free in the body must have a replacement without free
    symbol in vs"""
    def go(n, active):
        if n.is_quantifier():
            vs = frozenset(n.quantifier_vars())
            act2 = [x for x in active if x not in vs]
            bfv = free_vars(n.arg(0), fvmemo)
            for x in act2:
                if x in bfv and (free_vars(smap[x], fvmemo) & vs):
                    return False
            return go(n.arg(0), act2)
        return all(go(a, active) for a in n.args())
    return go(f, list(smap.keys()))


# ------------------------------------------------------------------------------------------------
# wire -> FNode (replay)
# ------------------------------------------------------------------------------------------------
def type_from_wire(env, t):
    if t == ("B",):
        return BOOL
    if t == ("I",):
        return INT
    if t == ("R",):
        return REAL
    if t == ("S",):
        return STRING
    if t[0] == "V":
        return BVType(t[1])
    if t[0] == "A":
        return ArrayType(type_from_wire(env, t[1]), type_from_wire(env, t[2]))
    if t[0] == "C":
        return env.type_manager.Type(t[1], 0)
    if t[0] == "F":
        return FunctionType(type_from_wire(env, t[1]), [type_from_wire(env, p) for p in t[2]])
    raise ValueError(t)


def fnode_from_wire(env, s):
    m = env.formula_manager
    nodes = wire.dec_term(wire.Tok(s) if isinstance(s, str) else s)
    built = []
    for (o, p, ch) in nodes:
        args = tuple(built[c] for c in ch)
        if o == "symbol":
            n = m.Symbol(p[1], type_from_wire(env, p[2]))
        elif o == "function":
            n = m.create_node(op.FUNCTION, args, m.Symbol(p[1], type_from_wire(env, p[2])))
        elif o == "boolConst":
            n = m.Bool(p[1])
        elif o == "intConst":
            n = m.Int(p[1])
        elif o == "realConst":
            n = m.Real(p[1])
        elif o == "strConst":
            n = m.String(p[1])
        elif o == "bvConst":
            n = m.BV(p[1], p[2])
        elif o in ("forall", "exists"):
            vs = tuple(m.Symbol(nm, type_from_wire(env, t)) for nm, t in p[1:])
            n = m.create_node(wire.OPID[o], args, vs)
        elif o == "arrayValue":
            n = m.create_node(op.ARRAY_VALUE, args, type_from_wire(env, p[1]))
        else:
            n = m.create_node(wire.OPID[o], args, None if p is None else tuple(p[1:]))
        built.append(n)
    return built[-1]


# ------------------------------------------------------------------------------------------------
# cases
# ------------------------------------------------------------------------------------------------
class Case:
    __slots__ = ("f", "subs", "interps", "ms", "env_ms", "kind", "foreign", "route", "seq")

    def __init__(self, f, subs, interps, ms, env_ms, kind, foreign=(), route=None):
        self.f, self.subs, self.interps, self.ms, self.env_ms, self.kind = f, subs, interps, ms, env_ms, kind
        self.foreign = foreign
        # None: a fresh substituter object; "env": the environment's long-lived env.substituter;
        # "fnode": FNode.substitute (which is env.substituter of the current environment)
        self.route = route
        self.seq = None       # id of the call sequence the case belongs to


def enc_case(c, mgr, verb="subst"):
    parts = [verb, "ms" if c.ms else "mg", "envms" if c.env_ms else "envmg", str(len(c.subs))]
    for k, v in c.subs.items():
        parts += ["1" if k in mgr else "0", wire.enc_term(k), "1" if v in mgr else "0", wire.enc_term(v)]
    parts.append(str(len(c.interps)))
    for k, (formals, body) in c.interps.items():
        parts += ["1" if k in mgr else "0", wire.enc_term(k), str(len(formals))]
        for x in formals:
            parts += [wire.hexs(x.symbol_name()), wire.enc_type(x.symbol_type())]
        parts.append(wire.enc_term(body))
    parts.append(wire.enc_term(c.f))
    return " ".join(parts)


def decode_case(env, line):
    tk = wire.Tok(line)
    tk.next()
    ms = tk.next() == "ms"
    env_ms = tk.next() == "envms"
    subs = {}
    for _ in range(tk.nat()):
        tk.next()
        k = fnode_from_wire(env, tk)
        tk.next()
        subs[k] = fnode_from_wire(env, tk)
    interps = {}
    for _ in range(tk.nat()):
        tk.next()
        k = fnode_from_wire(env, tk)
        formals = []
        for _ in range(tk.nat()):
            nm = wire.unhex(tk.next())
            formals.append(env.formula_manager.Symbol(nm, type_from_wire(env, wire.dec_type(tk))))
        interps[k] = (formals, fnode_from_wire(env, tk))
    f = fnode_from_wire(env, tk)
    return Case(f, subs, interps, ms, env_ms, "replay")


class MSEnvironment(Environment):
    SubstituterClass = MSSubstituter


def classify_exception(e):
    msg = str(e)
    if isinstance(e, PysmtException):
        if "substitute() can only be used on terms" in msg:
            return "err formula-not-term"
        if "Only terms should be provided as substitutions" in msg:
            return "err not-term"
        if "Only function symbols should be provided as interpretation" in msg:
            return "err ikey-not-function"
        if "does not belong to the Formula Manager" in msg:
            w = msg.split()
            return "err %s-foreign %s" % (w[0].lower(), w[1])
    return "err raised"


def norm_model_err(ans):
    w = ans.split()
    if w[1] in ("key-not-term", "value-not-term"):
        return "err not-term"
    if w[1] == "ikey-foreign":
        return "err key-foreign " + w[2]
    if w[1] == "ikey-not-function":
        return "err ikey-not-function"
    return ans


def run_impl(env, c, via_fnode=False):
    """the real code; -> ('ok', fnode) | ('err', class, exception)"""
    interps = None
    try:
        if c.interps:
            interps = {}
            for k, (formals, body) in c.interps.items():
                interps[k] = FunctionInterpretation(formals, body, allow_free_vars=True)
        if via_fnode or c.route == "fnode":
            import pysmt.environment
            pysmt.environment.push_env(env)
            try:
                r = c.f.substitute(c.subs, interpretations=interps)
            finally:
                pysmt.environment.pop_env()
        elif c.route == "shortcut":
            import pysmt.environment
            import pysmt.shortcuts
            pysmt.environment.push_env(env)
            try:
                r = pysmt.shortcuts.substitute(c.f, c.subs, interpretations=interps)
            finally:
                pysmt.environment.pop_env()
        elif c.route == "env":
            r = env.substituter.substitute(c.f, c.subs, interpretations=interps)
        else:
            cls = MSSubstituter if c.ms else MGSubstituter
            r = cls(env).substitute(c.f, c.subs, interpretations=interps)
        return ("ok", r)
    except Exception as e:      # every exception class is an outcome
        return ("err", classify_exception(e), e)


def has_array_value(*fs):
    for f in fs:
        for n, _ in subterms(f):
            if n.is_array_value() and len(n.args()) > 3:
                return True
    return False


def same_wire(a, b, loose):
    if a == b:
        return True
    if not loose:
        return False
    try:
        ka = wire.canon_key(wire.dec_term(a[3:]), ac_ops=set(), sort_qvars=False)
        kb = wire.canon_key(wire.dec_term(b[3:]), ac_ops=set(), sort_qvars=False)
    except Exception:
        return False
    return ka == kb


class Generator:
    def __init__(self, ctx, env, env_ms):
        self.ctx = ctx
        self.rng = ctx.rng
        self.env = env
        self.env_ms = env_ms
        self.mgr = env.formula_manager
        self.uni = Uni(env, ("bool", "int", "real", "bv", "str", "arr", "uf", "quant"))
        self.fg = FGen(self.rng, self.uni, max_depth=4, quant_prob=0.3, share_prob=0.3)
        self.fg_small = FGen(self.rng, self.uni, max_depth=2, quant_prob=0.1, share_prob=0.2)
        self.foreign_env = Environment()
        self.foreign_uni = Uni(self.foreign_env, ("bool", "int", "uf"))
        self.mg = MGSubstituter(env)

    # ---- values
    def value_for(self, ty, bound=()):
        r = self.rng
        if bound and r.random() < 0.25:
            cands = [b for b in bound if b.symbol_type() == ty]
            if cands:
                return r.choice(cands)
        if r.random() < 0.3:
            return self.fg_small.leaf(ty)
        return self.fg_small.gen(ty, r.choice([1, 2]))

    # ---- formulas
    def formula(self):
        r = self.rng
        m = self.mgr
        ty = BOOL if r.random() < 0.8 else self.fg.any_type(0.0)
        f = self.fg.gen(ty, r.choice([3, 4, 4]))
        if ty.is_bool_type() and r.random() < 0.35:
            # force nesting / shadowing
            vs = r.sample(self.uni.qvars, r.choice([1, 2]))
            inner = self.fg.gen(BOOL, 3)
            occ = [v if v.symbol_type().is_bool_type() else m.Equals(v, self.fg_small.gen(v.symbol_type(), 1))
                   for v in vs]
            if r.random() < 0.5:
                body = r.choice([m.And, m.Or, m.Implies])(occ[0], m.And([f, inner] + occ[1:]))
            else:
                body = m.Or([f, inner] + occ)
            f = (m.ForAll if r.random() < 0.5 else m.Exists)(vs, body)
            if r.random() < 0.5:
                v2 = r.choice(self.uni.qvars)
                occ2 = v2 if v2.symbol_type().is_bool_type() else m.Equals(v2, self.fg_small.gen(v2.symbol_type(), 1))
                f = m.And(f, (m.ForAll if r.random() < 0.5 else m.Exists)([v2], m.Or(f, occ2)))
        return f

    # ---- maps
    def symbol_map(self, f):
        """symbol keys only (S(a))"""
        r = self.rng
        subs = {}
        st = subterms(f)
        syms = [(n, b) for n, b in st if n.is_symbol() and not n.symbol_type().is_function_type()]
        allbound = set()
        for n, b in st:
            if n.is_quantifier():
                allbound |= set(n.quantifier_vars())
        r.shuffle(syms)
        for n, b in syms[:r.choice([1, 1, 2, 3])]:
            ty = n.symbol_type()
            v = self.value_for(ty, bound=sorted(allbound, key=lambda s: s.symbol_name()) if r.random() < 0.3 else ())
            if r.random() < 0.15 and ty.is_bool_type():
                v = self.mgr.Not(v)
            subs[n] = v
        if r.random() < 0.2:
            extra = r.choice(self.uni.syms[BOOL] + self.uni.syms.get(INT, []))
            subs.setdefault(extra, self.value_for(extra.symbol_type()))
        return subs

    def term_map(self, f):
        r = self.rng
        m = self.mgr
        subs = {}
        st = subterms(f)
        kinds = []
        nonleaf = [(n, b) for n, b in st if n.args() and not (n.is_symbol() and n.symbol_type().is_function_type())]
        anyt = [(n, b) for n, b in st if not (n.is_symbol() and n.symbol_type().is_function_type())]
        for _ in range(r.choice([1, 2, 2, 3, 4])):
            k = r.random()
            pick = None
            if k < 0.25 and anyt:
                pick = r.choice(anyt)
                kinds.append("sub")
            elif k < 0.4 and nonleaf:
                # a key and a key inside it
                pick = r.choice(nonleaf)
                inner = [x for x, _ in subterms(pick[0]) if x is not pick[0] and not (x.is_symbol() and x.symbol_type().is_function_type())]
                if inner:
                    s2 = r.choice(inner)
                    subs.setdefault(s2, self.value_for(self.type_of(s2)))
                kinds.append("nested-keys")
            elif k < 0.5:
                bools = [(n, b) for n, b in anyt if self.type_of(n).is_bool_type()]
                if bools:
                    pick = r.choice(bools)
                    neg = m.Not(pick[0])
                    subs.setdefault(neg, self.value_for(BOOL))
                    kinds.append("key-and-negation")
            elif k < 0.62:
                underq = [(n, b) for n, b in anyt if b and (free_vars(n) & b)]
                if underq:
                    pick = r.choice(underq)
                    kinds.append("mentions-bound")
            elif k < 0.72:
                qs = [(n, b) for n, b in st if n.is_quantifier()]
                if qs:
                    pick = r.choice(qs)
                    kinds.append("quantifier-key")
            elif k < 0.9 and nonleaf:
                # most-specific chain: the key is a parent with one child already replaced
                par = r.choice(nonleaf)
                ch = [c for c in par[0].args()]
                if par[0].is_quantifier():
                    ch = []
                if ch:
                    c0 = r.choice(ch)
                    if not (c0.is_symbol() and c0.symbol_type().is_function_type()):
                        v0 = subs.get(c0) or self.value_for(self.type_of(c0))
                        subs.setdefault(c0, v0)
                        try:
                            newpar = self.mg.substitute(par[0], {c0: subs[c0]})
                        except Exception:
                            newpar = None
                        if newpar is not None and newpar is not par[0]:
                            subs.setdefault(newpar, self.value_for(self.type_of(newpar)))
                            kinds.append("ms-chain")
            else:
                t = self.fg_small.gen(self.fg.any_type(0.6), 2)
                pick = (t, frozenset())
                kinds.append("absent")
            if pick is not None:
                n, b = pick
                subs.setdefault(n, self.value_for(self.type_of(n), bound=sorted(b, key=lambda s: s.symbol_name())))
        return subs, kinds

    def type_of(self, f):
        return self.env.stc.get_type(f)

    def pinned_map(self, f):
        """an identity pair `t -> t` on a compound sub-term (sum, atom, literal, whole quantifier, ...)
        together with other keys that occur inside `t`: the most-general strategy must leave `t` alone
        (the outermost match wins), the most-specific one replaces inside and then looks the rebuilt
        node up"""
        r = self.rng
        st = subterms(f)
        nonleaf = [(n, b) for n, b in st if n.args()]
        if not nonleaf:
            return None
        prefer = [(n, b) for n, b in nonleaf if n.is_quantifier() or n.is_not() or n.is_plus() or n.is_times()
                  or self.type_of(n).is_bool_type()]
        pin, _ = r.choice(prefer if prefer and r.random() < 0.7 else nonleaf)
        inner = [(x, b) for x, b in subterms(pin) if x is not pin
                 and not (x.is_symbol() and x.symbol_type().is_function_type())]
        if not inner:
            return None
        subs = {pin: pin}
        r.shuffle(inner)
        for x, b in inner[:r.choice([1, 1, 2, 3])]:
            if x in subs:
                continue
            if r.random() < 0.15:
                subs[x] = x                       # a second identity pair, nested
            else:
                subs[x] = self.value_for(self.type_of(x))
        if r.random() < 0.3:
            # the same inner key also occurs outside the pinned term sometimes: add an outer key too
            outer = [n for n, b in st if n is not pin and n.args() and n not in subs]
            if outer:
                o = r.choice(outer)
                subs[o] = self.value_for(self.type_of(o))
        if r.random() < 0.5:
            items = list(subs.items())
            r.shuffle(items)
            subs = dict(items)
        return subs

    def interps_for(self, f, finite_only=False):
        r = self.rng
        m = self.mgr
        fsyms = sorted([s for s in free_vars(f) if s.symbol_type().is_function_type()], key=lambda s: s.symbol_name())
        if finite_only:
            fsyms = [s for s in fsyms if s in self.uni.fin_funs]
        out = {}
        for s in fsyms:
            if r.random() < 0.3 and not finite_only:
                continue
            ft = s.symbol_type()
            names = [formal_name(i, t) for i, t in enumerate(ft.param_types)]
            if r.random() < 0.3 and not finite_only:
                # formal parameters that share names with symbols of the formula
                pool = {t: [x.symbol_name() for x in self.uni.syms.get(t, [])] for t in set(ft.param_types)}
                names = []
                for i, t in enumerate(ft.param_types):
                    c = [x for x in pool.get(t, []) if x not in names]
                    names.append(c[0] if c else formal_name(i, t))
            formals = [m.Symbol(nm, t) for nm, t in zip(names, ft.param_types)]
            body = self.body(ft.return_type, formals, closed=finite_only or r.random() < 0.85)
            out[s] = (formals, body)
        return out

    def body(self, ty, formals, closed):
        """a term of type ty over the formal parameters"""
        r = self.rng
        m = self.mgr
        t = self.fg_small.gen(ty, r.choice([1, 2, 2]))
        # replace some leaves by formals of the same type
        fv = sorted([s for s in free_vars(t) if not s.symbol_type().is_function_type()], key=lambda s: s.symbol_name())
        sub = {}
        for s in fv:
            c = [x for x in formals if x.symbol_type() == s.symbol_type()]
            if c and (closed or r.random() < 0.7):
                sub[s] = r.choice(c)
        if sub:
            t = self.mg.substitute(t, sub)
        same = [x for x in formals if x.symbol_type() == ty]
        if same and r.random() < 0.3:
            t = m.Ite(self.bool_over(formals), same[0], t) if r.random() < 0.7 else same[0]
        if closed:
            left = [s for s in free_vars(t) if s not in formals]
            if left:
                # close what is left with constants / no applications
                sub = {}
                for s in left:
                    if s.symbol_type().is_function_type():
                        return same[0] if same else self.fg_small.const(ty)
                    c = self.fg_small.const(s.symbol_type())
                    if c is None:
                        return same[0] if same else self.fg_small.const(ty)
                    sub[s] = c
                t = self.mg.substitute(t, sub)
        return t

    def bool_over(self, formals):
        m = self.mgr
        for x in formals:
            if x.symbol_type().is_bool_type():
                return x
        x = formals[0]
        return m.Equals(x, x) if not x.symbol_type().is_bool_type() else x


# ------------------------------------------------------------------------------------------------
# interpretations for the semantic oracle
# ------------------------------------------------------------------------------------------------
def interp_for(ig, fs):
    """values for every free symbol of the terms fs"""
    syms, fns, seen = [], [], set()
    allfv = set()
    for f in fs:
        allfv |= free_vars(f)
    for s in sorted(allfv, key=lambda s: s.symbol_name()):
        t = s.symbol_type()
        if t.is_function_type():
            tab, seen_a = [], set()
            for _ in range(ig.rng.randint(0, 3)):
                a = [ig.value(p) for p in t.param_types]
                if repr(a) not in seen_a:
                    seen_a.add(repr(a))
                    tab.append((a, ig.value(t.return_type)))
            fns.append((s.symbol_name(), t, tab, ig.value(t.return_type)))
        else:
            syms.append((s.symbol_name(), t, ig.value(t)))
    return syms, fns, ig.domains()


def formal_name(i, t):
    return "a%d_%s" % (i, wire.enc_type(t).replace(" ", ""))


def all_values(ty):
    if ty.is_bool_type():
        return [False, True]
    if ty.is_bv_type():
        return [("bv", ty.width, n) for n in range(1 << ty.width)]
    raise ValueError(ty)


# ------------------------------------------------------------------------------------------------
# run
# ------------------------------------------------------------------------------------------------
def shape_of(c, res, mgres):
    """which defect shape a semantic mismatch has (for known-finding matching)"""
    if c.ms:
        # MSS looks the rebuilt node up again: Not(a)[a := Not(t)] collapses to t, and t is replaced once more
        for n, _ in subterms(c.f):
            if n.is_not() and n.arg(0) in c.subs and c.subs[n.arg(0)].is_not() and c.subs[n.arg(0)].arg(0) in c.subs:
                return "ms-resubstitutes-collapsed-double-negation"
    return "other"


def run(ctx):
    import sys
    sys.setrecursionlimit(max(sys.getrecursionlimit(), 20000))
    warnings.filterwarnings("ignore", message=".*Division by 0.*")
    quick = ctx.tier == "quick"
    n_k = 900 if quick else 12000
    n_sa = 350 if quick else 5000
    n_si = 120 if quick else 1500
    envs = {False: Environment(), True: MSEnvironment()}
    gens = {e: Generator(ctx, envs[e], e) for e in (False, True)}
    specs = {e: Spec(envs[e], e) for e in (False, True)}
    rng = ctx.rng

    cases = []          # (Case, tag)
    # ---------------------------------------------------------------- generation
    for i in range(n_k):
        env_ms = rng.random() < 0.25
        g = gens[env_ms]
        f = g.formula()
        mode = rng.random()
        interps = {}
        if mode < 0.2:
            subs, kinds = g.symbol_map(f), ["symbols"]
        elif mode < 0.8:
            subs, kinds = g.term_map(f)
        else:
            subs, kinds = ({}, ["interp-only"]) if rng.random() < 0.5 else g.term_map(f)
            interps = g.interps_for(f)
            if interps:
                kinds = kinds + ["interp"]
        if rng.random() < 0.04:
            # validation errors
            which = rng.choice(["fkey", "fval", "foreign-key", "foreign-val", "formula", "ikey", "iforeign"])
            fsym = rng.choice(g.uni.funs)
            if which == "fkey":
                subs[fsym] = g.value_for(BOOL)
            elif which == "fval":
                subs[rng.choice(g.uni.syms[BOOL])] = fsym
            elif which == "foreign-key":
                subs[rng.choice(g.foreign_uni.syms[BOOL])] = g.value_for(BOOL)
            elif which == "foreign-val":
                subs[rng.choice(g.uni.syms[BOOL])] = rng.choice(g.foreign_uni.syms[BOOL])
            elif which == "formula":
                f = fsym
            elif which == "ikey":
                x = rng.choice(g.uni.syms[BOOL])
                interps = dict(interps)
                interps[x] = ([], g.value_for(BOOL))
            else:
                fs2 = rng.choice(g.foreign_uni.funs)
                interps = dict(interps)
                pts = fs2.symbol_type().param_types
                interps[fs2] = ([g.foreign_env.formula_manager.Symbol(formal_name(i, t), t) for i, t in enumerate(pts)],
                                g.foreign_env.formula_manager.Symbol(formal_name(0, pts[0]), pts[0]))
            kinds = ["validation-" + which]
        for ms in (False, True):
            cases.append((Case(f, dict(subs), dict(interps), ms, env_ms, "+".join(sorted(set(kinds)))), "k"))
    for i in range(n_sa):
        env_ms = rng.random() < 0.2
        g = gens[env_ms]
        f = g.formula()
        subs = g.symbol_map(f)
        for ms in (False, True):
            cases.append((Case(f, dict(subs), {}, ms, env_ms, "symbols"), "sa"))
    # directed: array LITERALS with symbolic entries (default and assigned values) under binders of those
    # symbols; term keys / replacement values that mention the bound variable only inside such an entry
    for i in range(50 if quick else 600):
        env_ms = rng.random() < 0.25
        g = gens[env_ms]
        m = g.mgr
        xv = rng.choice([q_ for q_ in g.uni.qvars if q_.symbol_type().is_int_type()])
        others = [s_ for s_ in g.uni.syms[INT] if s_ is not xv]
        yv = rng.choice(others)

        def ent(with_x):
            base = xv if with_x else rng.choice(others)
            k = rng.random()
            return base if k < 0.5 else m.Plus(base, m.Int(rng.choice([1, 2, -1]))) if k < 0.8 else m.Times(m.Int(2), base)
        where = rng.choice(["assigned", "assigned", "default", "both"])
        dflt = ent(where in ("default", "both")) if rng.random() < 0.8 or where != "assigned" else m.Int(0)
        keys = rng.sample([1, 2, 3, 5, 7], rng.choice([1, 2, 3]))
        assign = {}
        for j, kk in enumerate(keys):
            assign[m.Int(kk)] = ent(where in ("assigned", "both") and j == 0)
        arr = m.Array(INT, dflt, assign)
        idx = rng.choice([m.Int(keys[0]), yv, m.Plus(yv, m.Int(1))])
        sel = m.Select(arr, idx)
        shape = rng.random()
        if shape < 0.4:
            atom = m.GT(sel, m.Int(0))
            key = sel
        elif shape < 0.7:
            a_sym = g.uni.syms[ArrayType(INT, INT)][0]
            atom = m.Equals(m.Store(arr, yv, m.Int(4)), a_sym)
            key = arr
        else:
            atom = m.LE(m.Plus(sel, yv), m.Select(arr, m.Int(9)))
            key = rng.choice([sel, arr, m.Plus(sel, yv)])
        body = atom if rng.random() < 0.5 else m.And(atom, m.Equals(xv, g.fg_small.gen(INT, 1)))
        vs = [xv] if rng.random() < 0.7 else [xv, rng.choice([q_ for q_ in g.uni.qvars if q_ is not xv])]
        q = (m.ForAll if rng.random() < 0.5 else m.Exists)(vs, body)
        f = q if rng.random() < 0.4 else rng.choice([m.And, m.Or])(q, atom if rng.random() < 0.6 else g.fg_small.gen(BOOL, 1))
        kt = g.type_of(key)
        if rng.random() < 0.3 and kt.is_array_type():
            val = m.Array(INT, ent(rng.random() < 0.5), {m.Int(4): ent(rng.random() < 0.5)})
        else:
            val = g.value_for(kt) if not kt.is_array_type() else g.uni.syms[kt][1]
        subs = {key: val}
        if rng.random() < 0.3:
            subs[yv] = ent(rng.random() < 0.5)
        for ms in (False, True):
            cases.append((Case(f, dict(subs), {}, ms, env_ms, "array-literal-entries+mentions-bound"), "k"))
    # directed: extreme but legal sizes — interpreted functions of large arity, maps with very many
    # entries, operators with very many arguments, deep nesting
    big = gens[False]
    m = big.mgr
    for n_ar in ([257, 300, 1000] if quick else [256, 257, 258, 300, 1000, 2000]):
        fsym = m.Symbol("wide%d" % n_ar, FunctionType(INT, [INT] * n_ar))
        formals = [m.Symbol("w%d" % j, INT) for j in range(n_ar)]
        body = m.Plus(formals[0], formals[n_ar - 1], m.Times(m.Int(2), formals[n_ar // 2]))
        actuals = [m.Int(j % 7) if j % 5 else rng.choice(big.uni.syms[INT]) for j in range(n_ar)]
        f = m.LE(m.Function(fsym, actuals), m.Plus(big.uni.syms[INT][0], m.Int(n_ar)))
        for ms in (False, True):
            cases.append((Case(f, {}, {fsym: (formals, body)}, ms, False, "interp+large-arity"), "k"))
    n_big = 1200 if quick else 4000
    many = [m.Symbol("m%d" % j, INT) for j in range(n_big)]
    fmany = m.LE(m.Plus(many), m.Int(0))
    smany = {v_: (m.Int(j) if j % 3 else m.Plus(many[(j + 1) % n_big], m.Int(1))) for j, v_ in enumerate(many)}
    bools = [m.Symbol("n%d" % j, BOOL) for j in range(n_big)]
    fwide = m.Or(m.And(bools), m.Not(bools[0]))
    swide = {bools[7]: m.Not(bools[8]), m.And(bools): bools[1], bools[n_big - 1]: m.Bool(True)}
    deep = many[0]
    for j in range(300 if quick else 800):
        deep = m.Plus(many[j % 5], deep) if j % 2 else m.Minus(deep, many[(j + 1) % 5])
    fdeep = m.Equals(deep, m.Int(1))
    sdeep = {many[0]: m.Plus(many[1], m.Int(1)), many[3]: m.Int(0)}
    for (ff, ss, kd) in [(fmany, smany, "large-map"), (fwide, swide, "many-arguments"), (fdeep, sdeep, "deep-nesting")]:
        for ms in (False, True):
            cases.append((Case(ff, dict(ss), {}, ms, False, kd), "k"))
    # directed: substitution reached THROUGH the environment (FNode.substitute / shortcuts.substitute /
    # env.substituter with the environment pushed as the current one), on maps on which the two
    # strategies differ; the strategy must be the one the environment class declares
    # (Environment: most-general, MSEnvironment subclass with SubstituterClass = MSSubstituter: most-specific)
    for i in range(70 if quick else 900):
        env_ms = rng.random() < 0.6
        g = gens[env_ms]
        m = g.mgr
        if rng.random() < 0.3:
            a_, b_, c_, d_ = rng.sample(g.uni.syms[BOOL], 3) + [g.fg_small.gen(BOOL, 1)]
            conn = rng.choice([m.And, m.Or, m.Iff, m.Implies])
            f = conn(a_, b_)
            subs = {a_: c_, conn(c_, b_): d_, f: c_}
            if rng.random() < 0.5:
                f = m.Or(m.Not(f), g.fg_small.gen(BOOL, 1))
            kinds = "through-environment+ms-chain"
        else:
            f = g.formula()
            subs, kk = g.term_map(f)
            for _ in range(4):
                if "ms-chain" in kk or "nested-keys" in kk:
                    break
                subs, kk = g.term_map(f)
            kinds = "through-environment+" + "+".join(sorted(set(kk)))
        cases.append((Case(f, dict(subs), {}, env_ms, env_ms, kinds,
                           route=rng.choice(["fnode", "shortcut", "env"])), "k"))
    # directed: FAILING-then-succeeding call histories on the environment's substituter: a call that raises
    # in the middle of the walk (an ill-typed replacement), then a call on a formula that shares a
    # sub-term with the failed one under ANOTHER map — the second call must not see results of the first
    for i in range(40 if quick else 500):
        env_ms = rng.random() < 0.3
        g = gens[env_ms]
        m = g.mgr
        bs = rng.sample(g.uni.syms[BOOL], 3)
        pk, other = bs[0], bs[1]
        shared = rng.choice([m.Or, m.And, m.Iff])(pk, g.fg_small.gen(BOOL, 1))
        if rng.random() < 0.4:
            shared = m.Not(shared)
        xi = rng.choice(g.uni.syms[INT])
        bad_atom = m.Equals(m.Plus(xi, g.fg_small.gen(INT, 1)), g.fg_small.gen(INT, 1))
        args1 = [shared, bad_atom] if rng.random() < 0.5 else [bad_atom, shared]
        if rng.random() < 0.3:
            args1.insert(rng.randrange(3), g.fg_small.gen(BOOL, 1))
        f1 = rng.choice([m.And, m.Or])(args1)
        subs1 = {pk: other, xi: rng.choice([g.fg_small.gen(BOOL, 1), g.fg_small.gen(REAL, 1)])}   # ill-typed value
        rest2 = m.Not(bs[2]) if rng.random() < 0.5 else g.fg_small.gen(BOOL, 2)
        f2 = rng.choice([m.And, m.Or, m.Implies])(shared, rest2) if rng.random() < 0.7 else m.Not(m.And(rest2, shared))
        v2 = g.value_for(BOOL)
        if v2 is other:
            v2 = m.Not(other)
        subs2 = {pk: v2}
        route = rng.choice(["env", "fnode", "shortcut"])
        for (ff, ss) in [(f1, subs1), (f2, subs2)]:
            cs = Case(ff, dict(ss), {}, env_ms, env_ms, "call-sequence+after-failure", route=route)
            cs.seq = ("fail", i)
            cases.append((cs, "k"))
    # directed: call SEQUENCES on the environment's long-lived substituter: the same (or an overlapping)
    # formula with interpretation I1 of f, then I2 (another body), then I1 again — each call must give
    # the instantiation of its own interpretation
    for i in range(30 if quick else 400):
        env_ms = rng.random() < 0.3
        g = gens[env_ms]
        m = g.mgr
        fs = rng.choice(g.uni.funs)
        ft = fs.symbol_type()
        formals = [m.Symbol(formal_name(j, t), t) for j, t in enumerate(ft.param_types)]
        bodies = []
        for _ in range(12):
            b = g.body(ft.return_type, formals, closed=rng.random() < 0.8)
            if b not in bodies:
                bodies.append(b)
            if len(bodies) == 2:
                break
        if len(bodies) < 2:
            c0 = g.fg_small.const(ft.return_type)
            if c0 is None or c0 in bodies:
                continue
            bodies.append(c0)
        rt = ft.return_type

        def app_formula():
            app = m.Function(fs, [g.fg_small.gen(t, 1) for t in ft.param_types])
            atom = app if rt.is_bool_type() else m.Equals(app, g.fg_small.gen(rt, 1))
            return atom
        a1 = app_formula()
        f1 = m.And(a1, g.fg_small.gen(BOOL, 2)) if rng.random() < 0.5 else m.Or(m.Not(a1), g.fg_small.gen(BOOL, 1))
        f2 = f1 if rng.random() < 0.5 else m.Implies(app_formula(), a1)
        seq = [(f1, 0), (f2, 1), (f1, 0), (f2, 1)] if rng.random() < 0.5 else [(f1, 0), (f1, 1), (f2, 0)]
        for (ff, bi) in seq:
            cs = Case(ff, {}, {fs: (formals, bodies[bi])}, env_ms, env_ms, "interp+call-sequence",
                      route=rng.choice(["env", "fnode"]))
            cs.seq = i
            cases.append((cs, "k"))
    # directed: a quantifier that shadows a key and whose WHOLE body is a sub-DAG shared with a free
    # occurrence in another argument of a common ancestor (both orders, quantifier 1-3 levels below)
    for i in range(60 if quick else 800):
        env_ms = rng.random() < 0.25
        g = gens[env_ms]
        m = g.mgr
        v = rng.choice(g.uni.qvars)
        vt = v.symbol_type()
        occ = v if vt.is_bool_type() else m.Equals(v, g.fg_small.gen(vt, 1))
        other = g.fg_small.gen(BOOL, 1)
        B = rng.choice([m.Iff, m.And, m.Or, m.Implies])(occ, other)
        if rng.random() < 0.3:
            B = m.Not(B)
        vs = [v] if rng.random() < 0.7 else [v, rng.choice([q_ for q_ in g.uni.qvars if q_ is not v])]
        W = (m.ForAll if rng.random() < 0.5 else m.Exists)(vs, B)
        depth = rng.choice([1, 2, 2, 3])
        for _ in range(depth - 1):
            sib = g.fg_small.gen(BOOL, 1)
            k = rng.random()
            W = m.Or(sib, W) if k < 0.3 else m.And(W, sib) if k < 0.55 else m.Not(W) if k < 0.7 else \
                m.Implies(sib, W) if k < 0.85 else m.Ite(sib, W, g.fg_small.gen(BOOL, 1))
        freeB = B if rng.random() < 0.7 else m.Not(B)
        args = [W, freeB] if rng.random() < 0.6 else [freeB, W]
        if rng.random() < 0.3:
            args.insert(rng.randrange(len(args) + 1), g.fg_small.gen(BOOL, 1))
        f = rng.choice([m.And, m.Or])(args) if len(args) > 2 or rng.random() < 0.6 else \
            rng.choice([m.Iff, m.Implies])(args[0], args[1])
        if f is B or not f.args():
            continue
        subs = {v: g.value_for(vt)}
        kinds = "symbols+shared-quantifier-body"
        tagsel = ["k", "sa"]
        if rng.random() < 0.35:
            subs[occ if occ is not v else B] = g.value_for(BOOL)
            kinds = "shared-quantifier-body+mentions-bound"
            tagsel = ["k"]
        for ms in (False, True):
            for tg in tagsel:
                cases.append((Case(f, dict(subs), {}, ms, env_ms, kinds), tg))
    # directed: interpretations whose formal parameters are symbols of the formula and whose actual
    # arguments mention the *other* formal parameters (the instantiation is simultaneous)
    for i in range(40 if quick else 500):
        env_ms = rng.random() < 0.25
        g = gens[env_ms]
        m = g.mgr
        fs = rng.choice([f_ for f_ in g.uni.funs if len(f_.symbol_type().param_types) >= 2])
        ft = fs.symbol_type()
        formals, ok = [], True
        for t in ft.param_types:
            c = [x_ for x_ in g.uni.syms.get(t, []) if x_ not in formals]
            if not c:
                ok = False
                break
            formals.append(rng.choice(c))
        if not ok:
            continue
        dup = False
        if rng.random() < 0.25:
            # a repeated formal parameter (`dict(zip(...))`: first position, last actual)
            idxs = [(a_, b_) for a_ in range(len(formals)) for b_ in range(a_ + 1, len(formals))
                    if ft.param_types[a_] == ft.param_types[b_]]
            if idxs:
                a_, b_ = rng.choice(idxs)
                formals[b_] = formals[a_]
                dup = True

        def over(ty, syms):
            """a small term of type ty that mentions the given symbols when their type allows"""
            same = [x_ for x_ in syms if x_.symbol_type() == ty]
            base = rng.choice(same) if same else g.fg_small.gen(ty, 1)
            if ty.is_int_type():
                return m.Plus(base, rng.choice([m.Int(1)] + [x_ for x_ in syms if x_.symbol_type().is_int_type()]))
            if ty.is_bool_type():
                others = [x_ for x_ in syms if x_.symbol_type().is_bool_type()]
                return m.Or(base, m.Not(rng.choice(others))) if others and rng.random() < 0.5 else base
            if ty.is_bv_type():
                return m.BVAdd(base, rng.choice(same)) if same and rng.random() < 0.5 else base
            return base
        body = over(ft.return_type, formals)
        if rng.random() < 0.5:
            body = m.Ite(g.bool_over(formals), body, over(ft.return_type, list(reversed(formals))))
        actuals = [over(t, [y_ for y_ in formals if y_ is not x_] or formals) for x_, t in zip(formals, ft.param_types)]
        app = m.Function(fs, actuals)
        rt = ft.return_type
        atom = app if rt.is_bool_type() else m.Equals(app, g.fg_small.gen(rt, 1))
        f = m.And(atom, g.fg_small.gen(BOOL, 2)) if rng.random() < 0.6 else m.Not(atom)
        for ms in (False, True):
            cases.append((Case(f, {}, {fs: (formals, body)}, ms, env_ms,
                               "interp+formals-in-actuals" + ("+repeated-formal" if dup else "")), "k"))
    # directed: identity pairs on compound keys with other keys inside them
    for i in range(120 if quick else 1500):
        env_ms = rng.random() < 0.25
        g = gens[env_ms]
        f = g.formula()
        subs = g.pinned_map(f)
        if subs is None:
            continue
        for ms in (False, True):
            cases.append((Case(f, dict(subs), {}, ms, env_ms, "identity-pair+sub"), "k"))
    # directed: a replacement that is the negation of another key, below a negation (finding F50)
    for i in range(6 if quick else 40):
        g = gens[False]
        m = g.mgr
        a, xk, yk = rng.sample(g.uni.syms[BOOL], 3)
        ctxf = g.fg_small.gen(BOOL, 2)
        f = m.And(m.Not(a), ctxf) if rng.random() < 0.6 else m.Or(ctxf, m.Iff(m.Not(a), xk))
        subs = {a: m.Not(xk), xk: rng.choice([yk, m.Not(yk), g.value_for(BOOL)])}
        for ms in (False, True):
            cases.append((Case(f, dict(subs), {}, ms, False, "symbols+negated-key"), "sa"))
    for i in range(n_si):
        env_ms = rng.random() < 0.2
        g = gens[env_ms]
        for _ in range(6):
            f = g.formula()
            interps = g.interps_for(f, finite_only=True)
            if interps:
                break
        else:
            continue
        for ms in (False, True):
            cases.append((Case(f, {}, dict(interps), ms, env_ms, "interp-finite"), "si"))

    # ---------------------------------------------------------------- implementation + spec (S b, c)
    ctx.extra["t_generation_s"] = round(time.time() - ctx.t0, 1)
    records = []
    seq_prefix = {}
    for (c, tag) in cases:
        env = envs[c.env_ms]
        mgr = env.formula_manager
        try:
            line = enc_case(c, mgr)
        except wire.OutOfFragment:
            ctx.count("out_of_fragment")
            continue
        out = run_impl(env, c)
        rec = {"case": c, "tag": tag, "line": line, "out": out}
        records.append(rec)
        for kd in (c.kind.split("+") if c.kind else ["plain"]):
            ctx.count("kind_" + kd)
        ctx.count("class_" + ("ms" if c.ms else "mg") + ("_envms" if c.env_ms else ""))
        rd = {"formula": semantic.readable(c.f), "class": "MSSubstituter" if c.ms else "MGSubstituter",
              "env_default": "MSSubstituter" if c.env_ms else "MGSubstituter",
              "subs": [(semantic.readable(k, 120), semantic.readable(v, 120)) for k, v in c.subs.items()],
              "interpretations": [(k.symbol_name() if k.is_symbol() else str(k), [x.symbol_name() for x in fm],
                                   semantic.readable(b, 120)) for k, (fm, b) in c.interps.items()],
              "request": line,
              "impl": semantic.readable(out[1]) if out[0] == "ok" else out[1] + " :: " + repr(out[2])[:200]}
        if c.route is not None:
            rd["route"] = c.route
        if c.seq is not None:
            pref = seq_prefix.setdefault((c.env_ms, c.seq), [])
            rd["earlier_calls_on_the_same_environment"] = list(pref)
            pref.append([c.route, line])
        rec["rd"] = rd
        ctx.count("outcome_" + ("ok" if out[0] == "ok" else " ".join(out[1].split()[:2])))
        nontriv = line if (out[0] == "err" or out[1] is not c.f) else None
        ctx.case(nontriv)
        if out[0] == "ok" and out[1] is not c.f:
            ctx.sample({k: rd[k] for k in ("formula", "class", "subs", "interpretations", "impl")})
        validation = c.kind.startswith("validation")
        # (b) syntactic oracle
        if not validation:
            sp = specs[c.env_ms]
            try:
                exp = ("ok", (sp.ms if c.ms else sp.mg)(c.f, c.subs, c.interps))
            except Exception as e:
                exp = ("err", repr(e)[:200])
            rec["spec"] = exp
            if exp[0] != out[0] or (exp[0] == "ok" and exp[1] is not out[1]):
                if exp[0] == "ok" and out[0] == "ok" and has_array_value(exp[1], out[1]) and \
                        wire.term_key(exp[1], ac_ops=set(), sort_qvars=False) == wire.term_key(out[1], ac_ops=set(), sort_qvars=False):
                    pass
                else:
                    rd2 = dict(rd)
                    rd2["expected"] = semantic.readable(exp[1]) if exp[0] == "ok" else "error " + exp[1]
                    ctx.report_s({"oracle": "spec-ms" if c.ms else "spec-mg",
                                  "kind": "%s-vs-%s" % (out[0], exp[0]),
                                  "with_interpretations": str(bool(c.interps))},
                                 "%s result is not the documented %s replacement" %
                                 ("MSSubstituter" if c.ms else "MGSubstituter", "most-specific" if c.ms else "most-general"),
                                 rd2)
            # (c) keys that do not occur free: identity
            if out[0] == "ok" and not c.interps and c.subs:
                ffv = free_vars(c.f)
                if all(k.is_symbol() and k not in ffv for k in c.subs) and out[1] is not c.f:
                    ctx.report_s({"oracle": "bound-untouched", "cls": "ms" if c.ms else "mg"},
                                 "a map whose keys are not free in the formula changed it (bound occurrence replaced)", rd)

    # FNode.substitute / env.substituter entry points (same classes, other route)
    for rec in records[:: max(1, len(records) // (200 if quick else 2000))]:
        c = rec["case"]
        env = envs[c.env_ms]
        if c.ms != c.env_ms or c.kind.startswith("validation"):
            continue
        try:
            interps = {k: FunctionInterpretation(fm, b, allow_free_vars=True) for k, (fm, b) in c.interps.items()} or None
            import pysmt.environment
            pysmt.environment.push_env(env)
            try:
                r = ("ok", c.f.substitute(c.subs, interpretations=interps))
            finally:
                pysmt.environment.pop_env()
        except Exception as e:
            r = ("err", classify_exception(e))
        ctx.count("route_fnode_substitute")
        if r[0] != rec["out"][0] or (r[0] == "ok" and r[1] is not rec["out"][1]):
            ctx.report_s({"oracle": "route", "route": "FNode.substitute"},
                         "FNode.substitute (env.substituter) differs from a fresh substituter of the same class", rec["rd"])

    # ---------------------------------------------------------------- K: the Lean model
    k_lines = [r["line"] for r in records]
    spec_lines = ["spec" + r["line"][5:] for r in records if "spec" in r and r["spec"][0] == "ok"]
    spec_recs = [r for r in records if "spec" in r and r["spec"][0] == "ok"]
    normal_lines, normal_recs = [], []
    seen_f = set()
    for r in records:
        c = r["case"]
        if c.f not in seen_f and not c.kind.startswith("validation"):
            seen_f.add(c.f)
            normal_lines.append("normal " + wire.enc_term(c.f))
            normal_recs.append(r)
    nocap_lines, nocap_recs = [], []
    for r in records:
        c = r["case"]
        if r["tag"] == "sa":
            r["nocap"] = no_capture(c.f, c.subs, {})
            if not c.ms:
                parts = ["nocap", str(len(c.subs))]
                for k, v in c.subs.items():
                    parts += [wire.hexs(k.symbol_name()), wire.enc_type(k.symbol_type()), wire.enc_term(v)]
                parts.append(wire.enc_term(c.f))
                nocap_lines.append(" ".join(parts))
                nocap_recs.append(r)
    ctx.extra["t_impl_and_spec_s"] = round(time.time() - ctx.t0, 1)
    driver_ok = True
    try:
        answers = ctx.lean_run_sharded("C05", k_lines + spec_lines + normal_lines + nocap_lines)
    except common.LeanError as e:
        ctx.report_l("driver C05 does not run", str(e))
        driver_ok = False
        answers = []
    ctx.extra["t_driver_s"] = round(time.time() - ctx.t0, 1)
    if driver_ok:
        a_k = answers[:len(k_lines)]
        a_spec = answers[len(k_lines):len(k_lines) + len(spec_lines)]
        a_norm = answers[len(k_lines) + len(spec_lines):len(k_lines) + len(spec_lines) + len(normal_lines)]
        a_nocap = answers[len(k_lines) + len(spec_lines) + len(normal_lines):]
        for r, ans in zip(records, a_k):
            c = r["case"]
            out = r["out"]
            if ans.startswith("bad-op"):
                ctx.infra("C05 driver rejected a request: %s :: %s" % (ans, r["rd"]["formula"]))
                continue
            if out[0] == "ok":
                impl = "ok " + wire.enc_term(out[1])
                agree = same_wire(ans, impl, loose=ans.startswith("ok") and has_array_value(out[1]))
            else:
                impl = out[1]
                agree = norm_model_err(ans) == impl if ans.startswith("err") else False
            ctx.count("k_compared")
            if not agree:
                rd = dict(r["rd"])
                rd["lean"] = ans[:600]
                rd["impl_wire"] = impl[:600]
                ctx.report_k("model and %s disagree (%s)" % ("MSSubstituter" if c.ms else "MGSubstituter", c.kind), rd)
        for r, ans in zip(spec_recs, a_spec):
            exp = "ok " + wire.enc_term(r["spec"][1])
            ctx.count("k_spec_compared")
            if not same_wire(ans, exp, loose=has_array_value(r["spec"][1])):
                rd = dict(r["rd"])
                rd["lean_spec"] = ans[:600]
                rd["harness_spec"] = exp[:600]
                ctx.report_k("Lean mgSpec/msSpec and the harness' spec implementation disagree", rd)
        for r, ans in zip(normal_recs, a_norm):
            ctx.count("k_normal_checked")
            if ans != "true":
                ctx.report_k("a formula built by the FormulaManager is not Build.normal (%s)" % ans, r["rd"])
        for r, ans in zip(nocap_recs, a_nocap):
            ctx.count("k_nocapture_compared")
            if ans != ("true" if r["nocap"] else "false"):
                ctx.report_k("Lean NoCapture = %s, harness no_capture = %s" % (ans, r["nocap"]), r["rd"])

    # ---------------------------------------------------------------- S (a): semantic oracle
    semantic_check(ctx, envs, gens, [r for r in records if r["tag"] == "sa"], [r for r in records if r["tag"] == "si"])


def eval_cost(f, memo=None):
    """estimate of the work of the reference evaluator on f (tree size, a quantifier multiplies the cost
    of its body by the size of the domains it enumerates)"""
    if memo is None:
        memo = {}
    if f in memo:
        return memo[f]
    c = 1
    for a in f.args():
        c += eval_cost(a, memo)
    if f.is_quantifier():
        mult = 1
        for v in f.quantifier_vars():
            t = v.symbol_type()
            mult *= 2 if t.is_bool_type() else (1 << t.width) if t.is_bv_type() else 4 if (t.is_int_type() or t.is_real_type()) else 2
        c = mult * c
    memo[f] = min(c, 10 ** 12)
    return memo[f]


EVAL_COST_LIMIT = 30000


def semantic_check(ctx, envs, gens, sa, si):
    n_interp = 3
    # phase 1: values of the replacement terms / function tables
    p1_lines, p1_meta = [], []
    for r in sa:
        c = r["case"]
        out = r["out"]
        r["interps"] = None
        if out[0] != "ok":
            if r.get("nocap"):
                ctx.report_s({"oracle": "semantic", "kind": "error", "cls": "ms" if c.ms else "mg"},
                             "substitution with a type-correct symbol map raised", r["rd"])
            continue
        if not r.get("nocap"):
            ctx.count("sa_skipped_capture")
            continue
        if eval_cost(c.f) + eval_cost(out[1]) > EVAL_COST_LIMIT:
            ctx.count("sa_skipped_evaluation_cost")
            continue
        ig = gen.InterpGen(ctx.rng, gens[c.env_ms].uni)
        terms = [c.f, out[1]] + list(c.subs.values()) + list(c.subs.keys())
        try:
            Is = [interp_for(ig, terms) for _ in range(n_interp)]
            for j, I in enumerate(Is):
                enc = wire.enc_interp(*I)
                for k, v in c.subs.items():
                    p1_lines.append("evalc %s %s" % (enc, wire.enc_term(v)))
                    p1_meta.append((r, j, k))
        except wire.OutOfFragment:
            ctx.count("out_of_fragment")
            continue
        r["interps"] = Is
        r["vals"] = [dict() for _ in Is]
    for r in si:
        c = r["case"]
        out = r["out"]
        r["interps"] = None
        if out[0] != "ok":
            ctx.report_s({"oracle": "semantic-interp", "kind": "error", "cls": "ms" if c.ms else "mg"},
                         "substitution with closed function interpretations raised", r["rd"])
            continue
        # proviso: no bound variable of a body is free in the formula (the actual arguments are sub-terms of it)
        bodies_bound = set()
        for k, (fm, b) in c.interps.items():
            for n, _ in subterms(b):
                if n.is_quantifier():
                    bodies_bound |= set(n.quantifier_vars())
        allsyms = set()
        for n, _ in subterms(c.f):
            if n.is_symbol():
                allsyms.add(n)
        if bodies_bound & allsyms:
            ctx.count("si_skipped_capture")
            continue
        if eval_cost(c.f) + eval_cost(out[1]) > EVAL_COST_LIMIT:
            ctx.count("si_skipped_evaluation_cost")
            continue
        ig = gen.InterpGen(ctx.rng, gens[c.env_ms].uni)
        try:
            Is = [interp_for(ig, [c.f, out[1]] + [b for _, (fm, b) in c.interps.items()]) for _ in range(2)]
            for j, I in enumerate(Is):
                for k, (fm, b) in c.interps.items():
                    doms = [all_values(x.symbol_type()) for x in fm]
                    for tup in itertools.product(*doms):
                        syms = [s for s in I[0] if s[0] not in [x.symbol_name() for x in fm]]
                        syms = syms + [(x.symbol_name(), x.symbol_type(), v) for x, v in zip(fm, tup)]
                        p1_lines.append("evalc %s %s" % (wire.enc_interp(syms, I[1], I[2]), wire.enc_term(b)))
                        p1_meta.append((r, j, (k, tup)))
        except wire.OutOfFragment:
            ctx.count("out_of_fragment")
            continue
        r["interps"] = Is
        r["vals"] = [dict() for _ in Is]
    ctx.extra["sem_p1_lines"] = len(p1_lines)
    ctx.extra["t_sem_p1_start_s"] = round(time.time() - ctx.t0, 1)
    try:
        a1 = ctx.lean_run_sharded("Sem", p1_lines)
    except common.LeanError as e:
        ctx.report_l("driver Sem does not run", str(e))
        return
    for (r, j, k), ans in zip(p1_meta, a1):
        r["vals"][j][k] = ans
    # phase 2
    p2_lines, p2_meta = [], []
    for r in sa:
        if not r.get("interps"):
            continue
        c = r["case"]
        for j, I in enumerate(r["interps"]):
            vals = r["vals"][j]
            if any(v == "div0" or v.startswith("bad-op") for v in vals.values()):
                ctx.count("sa_skipped_div0")
                continue
            upd = {k.symbol_name(): wire.dec_val(wire.Tok(vals[k])) for k in c.subs}
            syms2 = [(nm, t, upd.get(nm, v)) for (nm, t, v) in I[0]]
            p2_lines.append("evalc %s %s" % (wire.enc_interp(*I), wire.enc_term(r["out"][1])))
            p2_lines.append("evalc %s %s" % (wire.enc_interp(syms2, I[1], I[2]), wire.enc_term(c.f)))
            p2_meta.append((r, j, "sa"))
    for r in si:
        if not r.get("interps"):
            continue
        c = r["case"]
        for j, I in enumerate(r["interps"]):
            vals = r["vals"][j]
            if any(v == "div0" or v.startswith("bad-op") for v in vals.values()):
                ctx.count("si_skipped_div0")
                continue
            fns2 = []
            for (nm, t, tab, d) in I[1]:
                key = [k for k in c.interps if k.symbol_name() == nm]
                if key:
                    k = key[0]
                    fm = c.interps[k][0]
                    tab2 = []
                    for tup in itertools.product(*[all_values(x.symbol_type()) for x in fm]):
                        tab2.append((list(tup), wire.dec_val(wire.Tok(vals[(k, tup)]))))
                    fns2.append((nm, t, tab2, d))
                else:
                    fns2.append((nm, t, tab, d))
            p2_lines.append("evalc %s %s" % (wire.enc_interp(*I), wire.enc_term(r["out"][1])))
            p2_lines.append("evalc %s %s" % (wire.enc_interp(I[0], fns2, I[2]), wire.enc_term(c.f)))
            p2_meta.append((r, j, "si"))
    ctx.extra["sem_p2_lines"] = len(p2_lines)
    ctx.extra["t_sem_p2_start_s"] = round(time.time() - ctx.t0, 1)
    try:
        a2 = ctx.lean_run_sharded("Sem", p2_lines)
    except common.LeanError as e:
        ctx.report_l("driver Sem does not run", str(e))
        return
    for idx, (r, j, kind) in enumerate(p2_meta):
        got, want = a2[2 * idx], a2[2 * idx + 1]
        c = r["case"]
        if got.startswith("bad-op") or want.startswith("bad-op"):
            ctx.infra("Sem driver rejected a request: %s | %s :: %s" % (got[:80], want[:80], r["rd"]["formula"]))
            continue
        if got == "div0" or want == "div0":
            ctx.count(kind + "_skipped_div0")
            continue
        ctx.count(kind + "_semantic_compared")
        if semantic.parse_val(got) != semantic.parse_val(want):
            rd = dict(r["rd"])
            rd["interpretation"] = wire.enc_interp(*r["interps"][j])
            rd["value_of_result"] = got
            rd["value_of_original_under_updated_interpretation"] = want
            rd["replacement_values"] = {str(k): v for k, v in r["vals"][j].items()}
            if kind == "sa":
                ctx.report_s({"oracle": "semantic", "kind": "value", "cls": "ms" if c.ms else "mg",
                              "shape": shape_of(c, r["out"][1], None)},
                             "value of the result differs from the value of the original under the updated interpretation", rd)
            else:
                ctx.report_s({"oracle": "semantic-interp", "kind": "value", "cls": "ms" if c.ms else "mg",
                              "shape": shape_of(c, r["out"][1], None)},
                             "value of the result differs from the value of the original with the function interpreted by its body", rd)


def replay(ctx, rep):
    r = rep["replay"]
    line = r["request"]
    env_ms = line.split()[2] == "envms"
    env = MSEnvironment() if env_ms else Environment()
    c = decode_case(env, line)
    for (route, l0) in r.get("earlier_calls_on_the_same_environment", []):
        c0 = decode_case(env, l0)
        c0.route = route
        o0 = run_impl(env, c0)
        print("earlier call (%s): %s  with %s  ->  %s" % (
            route, semantic.readable(c0.f, 120),
            [(str(k), semantic.readable(b, 80)) for k, (fm, b) in c0.interps.items()],
            semantic.readable(o0[1], 120) if o0[0] == "ok" else o0[1]))
    c.route = r.get("route")
    out = run_impl(env, c)
    print("formula :", semantic.readable(c.f))
    print("subs    :", [(semantic.readable(k, 100), semantic.readable(v, 100)) for k, v in c.subs.items()])
    print("interps :", [(str(k), [str(x) for x in fm], semantic.readable(b, 100)) for k, (fm, b) in c.interps.items()])
    print("class   :", "MSSubstituter" if c.ms else "MGSubstituter", "(env default: %s)" % ("MS" if env_ms else "MG"))
    print("impl    :", semantic.readable(out[1]) if out[0] == "ok" else "%s :: %r" % (out[1], out[2]))
    sp = Spec(env, env_ms)
    try:
        exp = ("ok", (sp.ms if c.ms else sp.mg)(c.f, c.subs, c.interps))
    except Exception as e:
        exp = ("err", repr(e))
    print("spec    :", semantic.readable(exp[1]) if exp[0] == "ok" else exp[1])
    try:
        print("model   :", ctx.lean_run("C05", [line])[0][:400])
    except common.LeanError as e:
        print("model   : driver does not run:", str(e)[:200])
    sig = rep.get("sig", {})
    orc = sig.get("oracle", "")
    if orc.startswith("spec"):
        if exp[0] != out[0] or (exp[0] == "ok" and exp[1] is not out[1]):
            ctx.report_s(sig, rep.get("what", "still differs from the specification"), r)
    elif orc == "bound-untouched":
        if out[0] == "ok" and out[1] is not c.f:
            ctx.report_s(sig, rep.get("what", ""), r)
    elif orc in ("semantic", "semantic-interp") and out[0] == "ok" and "interpretation" in r:
        # re-evaluate under the recorded interpretation
        I = r["interpretation"]
        got = ctx.lean_run("Sem", ["evalc %s %s" % (I, wire.enc_term(out[1]))])[0]
        print("value of result now:", got, " recorded expected:", r.get("value_of_original_under_updated_interpretation"))
        want = r.get("value_of_original_under_updated_interpretation")
        if want is not None and semantic.parse_val(got) != semantic.parse_val(want):
            ctx.report_s(sig, rep.get("what", ""), r)
    elif out[0] == "err" and sig.get("kind") == "error":
        ctx.report_s(sig, rep.get("what", ""), r)
