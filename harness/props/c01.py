"""C01 -- simplification preserves type, meaning and free symbols.

S (search, independent of the model).  For every generated formula `f` the real `Simplifier` of the formula's
environment computes `g`; the shared semantic oracle (`lean/Drivers/Sem.lean`, reference semantics
`PySMT.Core.Eval`) then checks `typeOf g = typeOf f`, `fv g <= fv f` and `eval I g = eval I f` under several
sampled interpretations (those under which a division by zero is evaluated are skipped = the property's proviso).

K (correspondence), two levels, both through `lean/Drivers/C01.lean`.
  K1 `rule <node>`: every call `walk_x(formula, args)` the real simplifier makes is recorded (the entries of
     `Simplifier.functions` are wrapped) and replayed on the Lean rule of that operator with *the implementation's own*
     simplified arguments; results are compared through `wire.canon_key` modulo the order of `and`/`or`/`times`
     arguments, of quantifier variables and of array-value entries (the implementation orders those by set iteration /
     node id / `id()`; licensed by `eval_perm_and/or` in `lean/PySMT/Proofs/Coincidence.lean` and `eval_perm_times` in
     `lean/PySMT/Proofs/SimpPerm.lean`).  Together with `simp (node op args p) = rule_op p (args.map simp)` this is the
     whole simplifier.
  K2 `simp <term>`: the whole formula through `PySMT.Simplifier.simp`, compared the same way.  `walk_plus` looks at the
     *last* argument of a product, and `walk_times` orders a product by node id, so the implementation's result
     depends on the creation order of nodes where the model fixes one order: a K2 difference is a divergence only if
     some K1 call differs as well; otherwise it is counted as `k2_order_dependent` (evidence), see README of the model.
  `out-of-fragment` answers (operator without a rule so far) are counted and skipped.

Streams: (1) rule-directed -- for every operator, arguments from shape classes taken from the guards of the
`walk_*` methods; (2) type-directed random formulas of `harness/gen.py` (quantifiers, UF, all sorts, sharing);
(3) one targeted probe for the known finding F05 (`Pow`).
"""
import ast
import os
import sys
import time
import warnings
from fractions import Fraction
from itertools import product

import pysmt.operators as op
from pysmt.environment import Environment
from pysmt.typing import BOOL, INT, REAL, STRING, BVType, ArrayType, FunctionType

import common
import gen
import semantic
import wire

LEAN_MODULES = ["PySMT.Props.C01", "PySMT.Props.C02"]
RULE = ("rule-directed stream: every operator x argument shape classes (constants 0/1/-1/all-ones/msb-only, the same "
        "operand twice, negation of a sibling, nested node of the same operator, negative-coefficient products, "
        "differences, array values, store chains) at widths {1,2,3,4,8}; random stream: type-directed formulas of all "
        "sorts with quantifiers, UF and shared sub-DAGs.  A case is non-trivial when a rule fired (the simplified "
        "formula is a different object); distinct = distinct wire encodings of the input")
ASSUMPTIONS = [
    "arrays: finitely supported interpretations only", "reals are rationals",
    "interpretations under which an Int/Real division by zero is evaluated are skipped (property proviso)",
    "formulas are built by the FormulaManager constructors (so every node has its constructor's arity: Term.wf)",
    "pow and algebraic constants are outside the modelled fragment (F05 is probed separately)",
    "S samples interpretations (4-6 per formula; Bool/BV quantifiers exact, Int/Real quantifier domains finite "
    "non-empty subsets); only the Lean theorems quantify over all interpretations",
]

AC_OPS = {"and", "or", "times"}
WIDTHS = (1, 2, 3, 4, 8)


# ------------------------------------------------------------------------------------------- shapes
CORE = {
    "bool": {"T", "F", "sym", "sym2", "not", "and", "or"},
    "int": {"0", "1", "-1", "2", "sym", "sym2", "minus", "times-m1", "times-m2", "plus-c", "div"},
    "real": {"0", "1", "-1", "1/2", "sym", "minus", "times-m1", "times-mh", "plus-c", "toreal"},
    "bv": {"c0", "c1", "ones", "msb", "sym", "sym2", "not"},
    "str": {"c:", "c:a", "c:12", "sym", "concat"},
    "arr": {"const", "val1", "val2", "sym", "store", "store-val", "val-full"},
    "custom": {"sym", "sym2", "fun"},
}


def kind_of(ty):
    if ty.is_bool_type():
        return "bool"
    if ty.is_int_type():
        return "int"
    if ty.is_real_type():
        return "real"
    if ty.is_bv_type():
        return "bv"
    if ty.is_string_type():
        return "str"
    if ty.is_array_type():
        return "arr"
    return "custom"


class Shapes:
    """argument shape classes per sort, built in one environment"""

    def __init__(self, env, rng):
        self.env = env
        self.rng = rng
        self.u = gen.Universe(env)
        self.m = env.formula_manager
        self._cache = {}

    def sym(self, ty, i=0):
        return self.u.syms[ty][i]

    def palette(self, ty):
        key = str(ty)
        if key in self._cache:
            return self._cache[key]
        m, u = self.m, self.u
        out = []
        if ty.is_bool_type():
            p, q, r = u.syms[BOOL]
            x, y = u.syms[INT][0], u.syms[INT][1]
            out = [("T", m.TRUE()), ("F", m.FALSE()), ("sym", p), ("sym2", q), ("not", m.Not(p)), ("not2", m.Not(q)),
                   ("and", m.And(p, q)), ("and-n", m.And(m.Not(p), r)), ("or", m.Or(q, r)), ("or-n", m.Or(m.Not(q), p)),
                   ("atom", m.LE(x, y)), ("natom", m.Not(m.Equals(x, y))), ("iff", m.Iff(p, r)),
                   ("fun", m.Function(u.funs[1], [u.syms[u.U][0]]))]
        elif ty.is_int_type():
            x, y, z = u.syms[INT]
            p = u.syms[BOOL][0]
            out = [("0", m.Int(0)), ("1", m.Int(1)), ("-1", m.Int(-1)), ("2", m.Int(2)), ("-3", m.Int(-3)),
                   ("big", m.Int(10 ** 20 + 1)), ("sym", x), ("sym2", y),
                   ("plus-c", m.Plus(x, m.Int(1))), ("plus", m.Plus(x, y)), ("minus", m.Minus(x, y)),
                   ("minus-r", m.Minus(y, x)), ("minus-c", m.Minus(x, m.Int(2))),
                   ("times-m1", m.Times(x, m.Int(-1))), ("times-m2", m.Times(y, m.Int(-2))),
                   ("times-c-first", m.Times(m.Int(-2), x)), ("times-c", m.Times(x, m.Int(3))),
                   ("times-nl", m.Times(x, y)), ("times-3", m.Times(x, y, m.Int(-1))),
                   ("times-0", m.Times(x, m.Int(0))), ("ite", m.Ite(p, x, y)),
                   ("div", m.Div(x, y)), ("div-c", m.Div(x, m.Int(2))), ("div-0", m.Div(x, m.Int(0))),
                   ("div-m", m.Div(y, m.Int(-2))), ("fun", m.Function(u.funs[2], [x])),
                   ("plus-nest", m.Plus(m.Plus(x, m.Int(1)), m.Minus(y, z)))]
        elif ty.is_real_type():
            a, b = u.syms[REAL]
            x = u.syms[INT][0]
            p = u.syms[BOOL][0]
            out = [("0", m.Real(0)), ("1", m.Real(1)), ("-1", m.Real(-1)), ("1/2", m.Real(Fraction(1, 2))),
                   ("-7/3", m.Real(Fraction(-7, 3))), ("sym", a), ("sym2", b),
                   ("plus-c", m.Plus(a, m.Real(1))), ("plus", m.Plus(a, b)), ("minus", m.Minus(a, b)),
                   ("times-m1", m.Times(a, m.Real(-1))), ("times-mh", m.Times(b, m.Real(Fraction(-1, 2)))),
                   ("times-c", m.Times(a, m.Real(2))), ("times-nl", m.Times(a, b)),
                   ("times-c-first", m.Times(m.Real(-3), a)),
                   ("div", m.Div(a, b)), ("div-c", m.Div(a, m.Real(4))), ("div-0", m.Div(a, m.Real(0))),
                   ("toreal", m.ToReal(x)), ("toreal-e", m.ToReal(m.Plus(x, m.Int(1)))), ("ite", m.Ite(p, a, b))]
        elif ty.is_bv_type():
            w = ty.width
            if ty not in u.syms:
                u.syms[ty] = [m.Symbol("b%d_%d" % (w, i), ty) for i in range(2)]
            a, b = u.syms[ty]
            vals = sorted({0, 1, (1 << w) - 1, 1 << (w - 1), (1 << (w - 1)) - 1, 5 % (1 << w), 2 % (1 << w)})
            names = {(1 << w) - 1: "ones", 1 << (w - 1): "msb"}
            names[0] = "c0"
            names[1] = "c1"        # width 1: all-ones = msb = 1 is called c1
            out = [(names.get(v, "c%d" % v), m.BV(v, w)) for v in vals]
            out += [("sym", a), ("sym2", b), ("not", m.BVNot(a)), ("neg", m.BVNeg(a)), ("add", m.BVAdd(a, b)),
                    ("and", m.BVAnd(a, b)), ("ite", m.Ite(u.syms[BOOL][0], a, b))]
        elif ty.is_string_type():
            s, t = u.syms[STRING]
            out = [("c:" + c, m.String(c)) for c in ["", "a", "ab", "abab", "12", "007", "-3", "b"]]
            out += [("sym", s), ("sym2", t), ("concat", m.StrConcat(s, m.String("a"))),
                    ("fromint", m.IntToStr(u.syms[INT][0]))]
        elif ty.is_array_type():
            it, et = ty.index_type, ty.elem_type
            if ty not in u.syms:
                u.syms[ty] = [m.Symbol("a_%s_%d" % (abs(hash(str(ty))) % 997, i), ty) for i in range(2)]
            a, b = u.syms[ty][0], u.syms[ty][1]
            ks = [f for n, f in self.palette(it) if f.is_constant()]
            vs = [f for n, f in self.palette(et) if f.is_constant()]
            ksym = [f for n, f in self.palette(it) if not f.is_constant()][0]
            vsym = [f for n, f in self.palette(et) if not f.is_constant()][0]
            out = [("const", m.Array(it, vs[0])), ("const2", m.Array(it, vs[1])),
                   ("val1", m.Array(it, vs[0], {ks[0]: vs[1]})),
                   ("val1b", m.Array(it, vs[1], {ks[0]: vs[0]})),
                   ("val2", m.Array(it, vs[0], {ks[0]: vs[1], ks[1]: vs[1]})),
                   ("val-symv", m.Array(it, vs[0], {ks[1]: vsym})),
                   ("sym", a), ("sym2", b),
                   ("store", m.Store(a, ks[0], vs[0])), ("store-sym", m.Store(a, ksym, vsym)),
                   ("store2", m.Store(m.Store(a, ks[0], vs[0]), ks[1], vs[1])),
                   ("store-same", m.Store(m.Store(a, ks[0], vs[0]), ks[0], vs[1])),
                   ("store-val", m.Store(m.Array(it, vs[0]), ks[0], vs[1])),
                   ("store-val-sym", m.Store(m.Array(it, vs[0]), ksym, vs[1]))]
            if it.is_bv_type() and it.width <= 2 or it.is_bool_type():
                # every index assigned: the default does not matter
                allk = [m.BV(i, it.width) for i in range(1 << it.width)] if it.is_bv_type() else [m.TRUE(), m.FALSE()]
                out.append(("val-full", m.Array(it, vs[0], {k: vs[1] for k in allk})))
                out.append(("val-full2", m.Array(it, vs[1], {k: vs[1] for k in allk})))
        else:   # custom sort
            c, d = u.syms[ty]
            out = [("sym", c), ("sym2", d), ("fun", m.Function(u.funs[0], [c]))]
        self._cache[key] = out
        return out

    def core(self, ty):
        """indices of the guard-relevant shape classes (enumerated exhaustively for arity <= 2 in the quick tier)"""
        pal = self.palette(ty)
        names = CORE[kind_of(ty)]
        idx = [i for i, (n, f) in enumerate(pal) if n in names]
        return idx or list(range(len(pal)))


def op_table(sh):
    """(name, builder, argument types); result type is whatever the constructor gives"""
    m = sh.m
    u = sh.u
    B, I, R, S = BOOL, INT, REAL, STRING
    t = []

    def add(name, fn, tys):
        t.append((name, fn, tys))
    add("and", lambda a: m.And(a), [B, B])
    add("and", lambda a: m.And(a), [B, B, B])
    add("or", lambda a: m.Or(a), [B, B])
    add("or", lambda a: m.Or(a), [B, B, B])
    add("not", lambda a: m.Not(a[0]), [B])
    add("implies", lambda a: m.Implies(*a), [B, B])
    add("iff", lambda a: m.Iff(*a), [B, B])
    for ty in (B, I, R, S, BVType(2), ArrayType(I, I), u.U):
        add("ite", lambda a: m.Ite(*a), [B, ty, ty])
    for ty in (I, R, S, BVType(1), BVType(3), ArrayType(I, I), ArrayType(BVType(2), B), ArrayType(BVType(2), BVType(2)), u.U):
        add("equals", lambda a: m.Equals(*a), [ty, ty])
    for ty in (I, R):
        add("le", lambda a: m.LE(*a), [ty, ty])
        add("lt", lambda a: m.LT(*a), [ty, ty])
        add("plus", lambda a: m.Plus(a), [ty, ty])
        add("plus", lambda a: m.Plus(a), [ty, ty, ty])
        add("minus", lambda a: m.Minus(*a), [ty, ty])
        add("times", lambda a: m.Times(a), [ty, ty])
        add("times", lambda a: m.Times(a), [ty, ty, ty])
        add("div", lambda a: m.Div(*a), [ty, ty])
    add("toReal", lambda a: m.ToReal(a[0]), [I])
    add("function", lambda a: m.Function(u.funs[2], a), [I])
    add("function", lambda a: m.Function(u.funs[3], a), [B, I])
    add("function", lambda a: m.Function(u.funs[4], a), [I, I])
    add("function", lambda a: m.Function(u.funs[0], a), [u.U])
    for w in WIDTHS:
        V = BVType(w)
        for nm, fn in (("bvAnd", m.BVAnd), ("bvOr", m.BVOr), ("bvXor", m.BVXor), ("bvAdd", m.BVAdd), ("bvSub", m.BVSub),
                       ("bvMul", m.BVMul), ("bvUdiv", m.BVUDiv), ("bvUrem", m.BVURem), ("bvSdiv", m.BVSDiv),
                       ("bvSrem", m.BVSRem), ("bvLshl", m.BVLShl), ("bvLshr", m.BVLShr), ("bvAshr", m.BVAShr),
                       ("bvUlt", m.BVULT), ("bvUle", m.BVULE), ("bvSlt", m.BVSLT), ("bvSle", m.BVSLE),
                       ("bvComp", m.BVComp), ("bvSmod", m.BVSMod)):
            add(nm, (lambda f: lambda a: f(a[0], a[1]))(fn), [V, V])
        add("bvNot", lambda a: m.BVNot(a[0]), [V])
        add("bvNeg", lambda a: m.BVNeg(a[0]), [V])
        add("bvToNatural", lambda a: m.BVToNatural(a[0]), [V])
        for k in sorted({0, 1, w - 1, w}):
            add("bvRol", (lambda k: lambda a: m.BVRol(a[0], k))(k), [V])
            add("bvRor", (lambda k: lambda a: m.BVRor(a[0], k))(k), [V])
        for k in (0, 1, 3):
            add("bvZext", (lambda k: lambda a: m.BVZExt(a[0], k))(k), [V])
            add("bvSext", (lambda k: lambda a: m.BVSExt(a[0], k))(k), [V])
        for lo, hi in sorted({(0, 0), (0, w - 1), (w - 1, w - 1), (w // 2, w - 1), (0, w // 2)}):
            add("bvExtract", (lambda lo, hi: lambda a: m.BVExtract(a[0], lo, hi))(lo, hi), [V])
        for w2 in (1, 3):
            add("bvConcat", lambda a: m.BVConcat(a[0], a[1]), [V, BVType(w2)])
    add("strLength", lambda a: m.StrLength(a[0]), [S])
    add("strConcat", lambda a: m.StrConcat(a), [S, S])
    add("strConcat", lambda a: m.StrConcat(a), [S, S, S])
    add("strContains", lambda a: m.StrContains(*a), [S, S])
    add("strPrefixOf", lambda a: m.StrPrefixOf(*a), [S, S])
    add("strSuffixOf", lambda a: m.StrSuffixOf(*a), [S, S])
    add("strIndexOf", lambda a: m.StrIndexOf(*a), [S, S, I])
    add("strReplace", lambda a: m.StrReplace(*a), [S, S, S])
    add("strSubstr", lambda a: m.StrSubstr(*a), [S, I, I])
    add("strCharAt", lambda a: m.StrCharAt(*a), [S, I])
    add("strToInt", lambda a: m.StrToInt(a[0]), [S])
    add("intToStr", lambda a: m.IntToStr(a[0]), [I])
    for at in (ArrayType(I, I), ArrayType(BVType(2), B), ArrayType(BVType(2), BVType(2))):
        add("arraySelect", lambda a: m.Select(*a), [at, at.index_type])
        add("arrayStore", lambda a: m.Store(*a), [at, at.index_type, at.elem_type])
    return t


def quant_cases(sh, rng, n):
    """quantifier shapes: bound variable used / unused / duplicated / shadowing a free symbol / nested"""
    m, u = sh.m, sh.u
    qb, qi, x, qv, p = u.qvars
    y = u.syms[INT][1]
    b2 = u.syms[BVType(2)][0]
    atoms = [m.LE(qi, x), m.Equals(qi, m.Plus(y, m.Int(1))), qb, m.Or(qb, p), p, m.And(m.LE(qi, y), qb),
             m.LT(m.Int(0), qi), m.Equals(qv, b2), m.BVULT(qv, m.BV(2, 2)), m.LE(x, y), m.Not(qb),
             m.Equals(m.Div(x, qi), y), m.Iff(qb, m.LE(qi, m.Int(1))), m.TRUE(), m.Equals(m.Minus(qi, qi), m.Int(0)),
             m.Function(u.funs[3], [qb, qi]), m.And(qb, m.Not(qb)), m.Or(m.LE(qi, x), m.LT(x, qi))]
    out = []
    for _ in range(n):
        body = rng.choice(atoms)
        if rng.random() < 0.5:
            body = rng.choice([m.And, m.Or, m.Implies, m.Iff])(body, rng.choice(atoms))
        depth = rng.choice([1, 1, 2, 3])
        f = body
        budget = 5          # at most 5 binders per formula: the oracle enumerates |dom|^binders instantiations
        for _ in range(depth):
            k = min(rng.choice([1, 1, 2, 3]), budget)
            if k == 0:
                break
            budget -= k
            vs = rng.sample(u.qvars, k)
            if rng.random() < 0.15 and budget > 0:
                budget -= 1
                vs = vs + [vs[0]]
            f = (m.ForAll if rng.random() < 0.5 else m.Exists)(vs, f)
            if rng.random() < 0.3:
                f = rng.choice([m.Not(f), m.And(f, rng.choice(atoms)), m.Or(rng.choice(atoms), f)])
        out.append(("quant", f))
    # quantifier ALTERNATIONS over two variables of one sort with a body relating them (forall/exists must not be
    # merged or swapped): every (Q1, Q2) combination in both variable orders, directly nested and through a connective
    rel = [(qb, p, [m.Iff(qb, p), m.Xor(qb, p), m.Implies(qb, p), m.Or(qb, m.Not(p))]),
           (qi, x, [m.Equals(qi, x), m.LE(qi, x), m.LT(x, qi), m.Equals(m.Plus(qi, m.Int(1)), x)]),
           (qv, b2, [m.Equals(qv, b2), m.BVULT(qv, b2), m.Equals(m.BVNot(qv), b2)])]
    for v1, v2, bodies in rel:
        for body in bodies:
            for q1 in (m.ForAll, m.Exists):
                for q2 in (m.ForAll, m.Exists):
                    for a, b in ((v1, v2), (v2, v1)):
                        out.append(("quant-alt", q1([a], q2([b], body))))
                    out.append(("quant-alt", q1([v1], m.Or(q2([v2], body), m.FALSE()))))
                    out.append(("quant-alt", q1([v1], m.Not(q2([v2], m.Not(body))))))
    return out


def nested_bool_cases(sh):
    """nested and/or shapes: the flattening branch of walk_and / walk_or meets a literal whose complement
    (modulo double negation) was collected from an earlier sibling, or vice versa"""
    m, u = sh.m, sh.u
    p, q, r = u.syms[BOOL]
    x, y = u.syms[INT][0], u.syms[INT][1]
    atom = m.LE(x, y)
    lits = [p, m.Not(p), q, atom, m.Not(atom)]
    thirds = [r, m.LT(y, x)]
    ops = {"and": m.And, "or": m.Or}
    out = []
    for oname, O in ops.items():
        for iname, Inner in ops.items():          # inner operator: the same (flattened) and the dual (kept)
            for a in lits:
                for b in lits:
                    if b is a:
                        continue
                    for c in thirds:
                        na, nb = m.Not(a), m.Not(b)
                        shapes = [O(a, Inner(na, b)), O(Inner(a, b), na), O(a, b, Inner(c, nb)),
                                  O(Inner(a, b), Inner(nb, c)), O(Inner(na, b), a), O(a, Inner(b, c), na),
                                  O(Inner(a, c), Inner(b, na))]
                        for f in shapes:
                            out.append(("rule:%s" % oname, f))
    return out


def ground_arith_cases(sh):
    """ground arithmetic: every small integer division (all sign combinations), real division, products, sums and
    differences of small constants -- alone and under an equality with a symbol"""
    m, u = sh.m, sh.u
    x, a = u.syms[INT][0], u.syms[REAL][0]
    out = []
    for l in range(-12, 13):
        for r in range(-6, 7):
            if r == 0:
                continue
            d = m.Div(m.Int(l), m.Int(r))
            out.append(("rule:div", d))
            out.append(("rule:div", m.Equals(x, d)))
    big = 10 ** 20 + 1
    for l, r in [(big, 3), (big, -3), (-big, 3), (-big, -3), (big, -1), (7, -big), (-7, big)]:
        out.append(("rule:div", m.Div(m.Int(l), m.Int(r))))
    rq = [Fraction(n, d) for n in (-3, -1, 0, 1, 2, 7) for d in (1, 2, 3)]
    for l in rq:
        for r in (Fraction(-2), Fraction(-1, 2), Fraction(1, 3), Fraction(1), Fraction(3), Fraction(-1)):
            # Div by a real constant is built as a product with the inverse; the raw DIV node with a constant
            # divisor only arises after simplification of the divisor
            out.append(("rule:div", m.Div(m.Real(l), m.Real(r))))
            out.append(("rule:div", m.Div(m.Real(l), m.Ite(u.syms[BOOL][0], m.Real(r), m.Real(r)))))
            out.append(("rule:div", m.LT(a, m.Div(m.Real(l), m.Plus(m.Real(r), m.Real(0))))))
    for l in range(-3, 4):
        for r in range(-3, 4):
            for O, nm in ((m.Times, "times"), (m.Plus, "plus"), (m.Minus, "minus")):
                out.append(("rule:" + nm, O(m.Int(l), m.Int(r))))
                out.append(("rule:" + nm, m.LE(O(m.Int(l), m.Int(r)), x)))
                out.append(("rule:" + nm, O(m.Real(Fraction(l, 2)), m.Real(Fraction(r, 3)))))
            out.append(("rule:div", m.Div(m.Ite(u.syms[BOOL][0], m.Int(l), m.Int(l)), m.Plus(m.Int(r), m.Int(0))))
                       if r != 0 else ("rule:times", m.Times(m.Int(l), m.Int(r), x)))
    return out


EXTREME_STRINGS = ["7", "007", "18446744073709551617", "+1", "-1", " 1", "1 ", "1_0", "1.0", "0x1", "\u0663", "1\u0663",
                   "\u0967\u0968", "\uff11", "\U0001d7d1", "\u00e9", "a\u00e9b", "\U0001f600", "x\U0001f600y", "\u00b2", "\u2460"]


def ground_string_cases(sh):
    """ground string operators: every small integer offset / length (negative, zero, past the end) on a few
    strings, alone and under an enclosing str.len / equality"""
    m, u = sh.m, sh.u
    ssym = u.syms[STRING][0]
    strs = ["", "a", "ab", "abcdef", "0", "aXa"]
    rng17 = range(-8, 9)
    coarse = (-3, -1, 0, 1, 2, 8)
    out = []
    k = 0

    def emit(name, t, string_valued):
        nonlocal k
        k += 1
        out.append(("rule:" + name, t))
        if string_valued:
            if k % 2 == 0:
                out.append(("rule:" + name, m.StrLength(t)))
            if k % 3 == 0:
                out.append(("rule:" + name, m.Equals(ssym, t)))
        elif k % 3 == 0:
            out.append(("rule:" + name, m.Not(t) if t.get_type().is_bool_type() else m.LE(t, m.Int(1))))
    for st in strs:
        full = st in ("abcdef", "ab")
        for i in rng17:
            emit("strCharAt", m.StrCharAt(m.String(st), m.Int(i)), True)
            for n in (rng17 if full else coarse):
                if full or i in (-2, 0, 1, 3):
                    emit("strSubstr", m.StrSubstr(m.String(st), m.Int(i), m.Int(n)), True)
            for t in ("", "a", "f", "ab"):
                emit("strIndexOf", m.StrIndexOf(m.String(st), m.String(t), m.Int(i)), False)
        for t in ("", "a", "ab", "X"):
            for t2 in ("", "b", "aa"):
                emit("strReplace", m.StrReplace(m.String(st), m.String(t), m.String(t2)), True)
        for t in strs:
            emit("strPrefixOf", m.StrPrefixOf(m.String(st), m.String(t)), False)
            emit("strSuffixOf", m.StrSuffixOf(m.String(st), m.String(t)), False)
            emit("strContains", m.StrContains(m.String(st), m.String(t)), False)
    # conversions: only ASCII digits are digits for str.to_int (SMT-LIB); signs, blanks, underscores, other scripts'
    # decimal digits, leading zeros, numbers beyond 2**64; and operators on non-ASCII / astral-plane strings
    for st in EXTREME_STRINGS:
        emit("strToInt", m.StrToInt(m.String(st)), False)
        emit("strToInt", m.LT(m.StrToInt(m.String(st)), m.Int(0)), False)
        emit("strLength", m.StrLength(m.String(st)), False)
        emit("strCharAt", m.StrCharAt(m.String(st), m.Int(1)), True)
        emit("strConcat", m.StrConcat(m.String(st), m.String("a"), m.String(st)), True)
        emit("strIndexOf", m.StrIndexOf(m.String(st + "a" + st), m.String("a"), m.Int(0)), False)
    for n in (0, 7, -1, -12, 10 ** 20 + 3, 2 ** 64, -(2 ** 64)):
        emit("intToStr", m.IntToStr(m.Int(n)), True)
        emit("strToInt", m.StrToInt(m.IntToStr(m.Int(n))), False)
    return out


def coeff_sum_cases(sh):
    """sums / differences over products whose constant factor is first or last: walk_plus inspects the LAST factor
    of a product, walk_times orders factors by node id -- the constants are created here, after the symbols, and
    products are also reached through Div by a real constant"""
    m, u = sh.m, sh.u
    x, y = u.syms[INT][0], u.syms[INT][1]
    a, b = u.syms[REAL]
    out = []
    rcs = [Fraction(-2), Fraction(-1), Fraction(-3, 4), Fraction(-1, 2), Fraction(-1, 3), Fraction(1, 2), Fraction(1),
           Fraction(3)]
    ics = [-2, -1, 1, 3]
    for c in rcs:
        prods = [m.Times(b, m.Real(c)), m.Times(m.Real(c), b), m.Times(a, b, m.Real(c)), m.Div(b, m.Real(1 / c))]
        for pr in prods:
            for f in (m.Plus(a, pr), m.Plus(pr, a), m.Minus(a, pr), m.Minus(pr, a), m.Plus(pr, pr),
                      m.Plus(a, pr, m.Real(1)), m.LE(m.Plus(a, pr), m.Real(0)), m.Plus(pr, m.Times(a, m.Real(c)))):
                out.append(("rule:plus", f))
    for c in ics:
        prods = [m.Times(y, m.Int(c)), m.Times(m.Int(c), y), m.Times(x, y, m.Int(c))]
        for pr in prods:
            for f in (m.Plus(x, pr), m.Plus(pr, x), m.Minus(x, pr), m.Minus(pr, x), m.Plus(pr, pr),
                      m.Plus(x, pr, m.Int(1)), m.LE(m.Plus(x, pr), m.Int(0)), m.Plus(pr, m.Times(x, m.Int(c)))):
                out.append(("rule:plus", f))
    return out


def array_value_cases(sh):
    """array VALUE literals with non-constant parts: (a) quantified formulas whose bound variable occurs only inside an
    array value (as default, as a stored value, inside a stored compound term), compared with an array symbol or
    selected at a symbolic index; (b) equalities between array values where an assigned element becomes equal to the
    default only after its own simplification, against a value with the same default and fewer assignments"""
    m, u = sh.m, sh.u
    qb, qi, xq, qv, pq = u.qvars
    p = u.syms[BOOL][1]
    x, y = u.syms[INT][1], u.syms[INT][2]
    b = u.syms[BVType(2)][0]
    AII, AVB, AVV = ArrayType(INT, INT), ArrayType(BVType(2), BOOL), ArrayType(BVType(2), BVType(2))
    aii, avb, avv = u.syms[AII][0], u.syms[AVB][0], u.syms[AVV][0]
    out = []
    # (a)
    vals_i = [m.Array(INT, qi), m.Array(INT, m.Plus(qi, m.Int(1))), m.Array(INT, m.Int(0), {m.Int(1): qi}),
              m.Array(INT, m.Int(0), {m.Int(1): m.Times(qi, m.Int(2)), m.Int(2): m.Int(7)}),
              m.Array(INT, x, {m.Int(3): m.Minus(qi, x)}), m.Array(INT, qi, {m.Int(0): qi})]
    vals_v = [m.Array(BVType(2), qv), m.Array(BVType(2), m.BV(0, 2), {m.BV(1, 2): qv}),
              m.Array(BVType(2), m.BVNot(qv), {m.BV(3, 2): m.BVAdd(qv, b)})]
    vals_b = [m.Array(BVType(2), qb), m.Array(BVType(2), m.FALSE(), {m.BV(2, 2): qb}),
              m.Array(BVType(2), m.Or(qb, p), {m.BV(0, 2): m.Not(qb)})]
    bodies = []
    for v in vals_i:
        bodies += [(qi, m.Equals(aii, v)), (qi, m.Equals(v, aii)), (qi, m.Equals(m.Select(v, x), y)),
                   (qi, m.LE(m.Select(v, m.Int(1)), y)), (qi, m.Equals(m.Store(aii, x, y), v))]
    for v in vals_v:
        bodies += [(qv, m.Equals(avv, v)), (qv, m.Equals(m.Select(v, b), m.BV(1, 2))),
                   (qv, m.BVULT(m.Select(v, m.BV(1, 2)), b))]
    for v in vals_b:
        bodies += [(qb, m.Equals(avb, v)), (qb, m.Select(v, b)), (qb, m.Not(m.Select(v, m.BV(2, 2))))]
    for (bv, body) in bodies:
        for Q in (m.Exists, m.ForAll):
            out.append(("rule:quant-arrayvalue", Q([bv], body)))
            out.append(("rule:quant-arrayvalue", Q([bv, pq], m.Or(body, p))))
        out.append(("rule:quant-arrayvalue", m.And(p, m.Exists([bv], body))))
    # (b)
    zero_i = [m.Minus(x, x), m.Times(y, m.Int(0)), m.Ite(p, m.Int(0), m.Int(0)), m.Plus(m.Int(0), m.Int(0)),
              m.Minus(m.Int(3), m.Int(3)), m.Times(m.Int(0), x, y)]
    five_i = [m.Plus(m.Int(2), m.Int(3)), m.Ite(p, m.Int(5), m.Int(5)), m.Plus(m.Minus(x, x), m.Int(5))]
    zero_v = [m.BVSub(b, b), m.BVAnd(b, m.BV(0, 2)), m.BVXor(m.BV(1, 2), m.BV(1, 2)), m.Ite(p, m.BV(0, 2), m.BV(0, 2)),
              m.BVMul(b, m.BV(0, 2))]
    false_b = [m.And(p, m.Not(p)), m.And(p, m.FALSE()), m.Not(m.TRUE()), m.Ite(p, m.FALSE(), m.FALSE())]

    def pairs(it, dflt, elems, k1, k2, other):
        for e in elems:
            l1 = m.Array(it, dflt, {k1: e})
            r1 = m.Array(it, dflt)
            l2 = m.Array(it, dflt, {k1: other, k2: e})
            r2 = m.Array(it, dflt, {k1: other})
            l3 = m.Array(it, dflt, {k1: e, k2: e})
            for (l, r) in ((l1, r1), (l2, r2), (l3, r1), (l2, l1), (l3, r2)):
                out.append(("rule:equals-arrayvalue", m.Equals(l, r)))
                out.append(("rule:equals-arrayvalue", m.Equals(r, l)))
                out.append(("rule:equals-arrayvalue", m.Not(m.Equals(l, r))))
    pairs(INT, m.Int(0), zero_i, m.Int(1), m.Int(2), m.Int(5))
    pairs(INT, m.Int(5), five_i, m.Int(1), m.Int(2), m.Int(0))
    pairs(BVType(2), m.BV(0, 2), zero_v, m.BV(1, 2), m.BV(2, 2), m.BV(3, 2))
    pairs(BVType(2), m.FALSE(), false_b, m.BV(1, 2), m.BV(2, 2), m.TRUE())
    return out


def rnd2(rng, pals, k):
    return [tuple(rng.randrange(len(p)) for p in pals) for _ in range(k)]


def rule_directed(sh, rng, per_entry, full):
    """yields (tag, formula)"""
    m = sh.m
    table = op_table(sh)
    for (name, fn, tys) in table:
        pals = [sh.palette(t) for t in tys]
        rnd = [tuple(rng.randrange(len(p)) for p in pals) for _ in range(per_entry)]
        if full and len(tys) <= 2:
            combos = list(product(*[range(len(p)) for p in pals]))
        elif len(tys) <= 2 or full:
            # every combination of the guard-relevant shape classes, plus a random sample of the full palette
            combos = list(product(*[sh.core(t) for t in tys])) + rnd
        else:
            combos = rnd + rnd2(rng, pals, per_entry)
        for combo in combos:
            args = [pals[i][j][1] for i, j in enumerate(combo)]
            shape = "/".join(pals[i][j][0] for i, j in enumerate(combo))
            r = rng.random()
            if len(args) >= 2 and r < 0.10:
                same = [i for i in range(1, len(args)) if tys[i] == tys[0]]
                if same:
                    args[rng.choice(same)] = args[0]
                    shape += "/same"
            elif len(args) >= 2 and r < 0.18 and tys[0].is_bool_type():
                cand = [i for i in range(1, len(args)) if tys[i].is_bool_type()]
                if cand:
                    args[rng.choice(cand)] = m.Not(args[0])
                    shape += "/negsib"
            elif r < 0.30:
                # nested node of the same operator
                try:
                    inner = fn(list(args))
                    idx = [i for i in range(len(args)) if sh.env.stc.get_type(inner) == tys[i]]
                    if idx:
                        args[rng.choice(idx)] = inner
                        shape += "/nested"
                except Exception:
                    pass
            try:
                f = fn(list(args))
            except Exception as e:      # constructor refused the combination
                continue
            yield ("rule:" + name, f)


# ------------------------------------------------------------------------------------------- coverage
class LineCoverage:
    """executed lines of pysmt/simplifier.py (PEP 669 LINE events, each line reported once)"""

    def __init__(self):
        self.lines = set()
        self.active = False
        self.path = None

    def start(self):
        try:
            import pysmt.simplifier as S
            mon = sys.monitoring
            self.path = S.__file__
            mon.use_tool_id(3, "c01cov")

            def cb(code, line):
                if code.co_filename == self.path:
                    self.lines.add(line)
                return mon.DISABLE
            mon.register_callback(3, mon.events.LINE, cb)
            mon.set_events(3, mon.events.LINE)
            self.active = True
        except Exception:
            self.active = False

    def stop(self):
        if self.active:
            try:
                sys.monitoring.set_events(3, 0)
                sys.monitoring.free_tool_id(3)
            except Exception:
                pass

    def report(self):
        """per walk_* function: executed / executable lines"""
        if not self.active:
            return {}
        src = open(self.path).read()
        tree = ast.parse(src)
        out = {}
        for cls in tree.body:
            if isinstance(cls, ast.ClassDef) and cls.name == "Simplifier":
                for fn in cls.body:
                    if isinstance(fn, ast.FunctionDef) and fn.name.startswith("walk_") and fn.name != "walk_debug":
                        lines = set()
                        for node in ast.walk(fn):
                            if isinstance(node, ast.stmt) and not isinstance(node, ast.FunctionDef):
                                lines.add(node.lineno)
                        lines = {l for l in lines if not src.splitlines()[l - 1].strip().startswith(('"', "assert", "from "))}
                        hit = len(lines & self.lines)
                        out[fn.name] = "%d/%d" % (hit, len(lines))
        return out


# ------------------------------------------------------------------------------------------- wire -> FNode (replay)
def ty_of(env, t):
    if t[0] == "B":
        return BOOL
    if t[0] == "I":
        return INT
    if t[0] == "R":
        return REAL
    if t[0] == "S":
        return STRING
    if t[0] == "V":
        return BVType(t[1])
    if t[0] == "A":
        return ArrayType(ty_of(env, t[1]), ty_of(env, t[2]))
    if t[0] == "F":
        return FunctionType(ty_of(env, t[1]), [ty_of(env, p) for p in t[2]])
    if t[0] == "C":
        return env.type_manager.Type(t[1], 0)
    raise ValueError(t)


def build_fnode(env, nodes):
    """decoded wire DAG -> FNode, through create_node (no constructor normalisation: the exact node is rebuilt)"""
    m = env.formula_manager
    built = []
    for (o, p, ch) in nodes:
        args = tuple(built[c] for c in ch)
        nt = wire.OPID[o]
        if o == "symbol":
            n = m.Symbol(p[1], ty_of(env, p[2]))
        elif o == "function":
            n = m.create_node(nt, args, m.Symbol(p[1], ty_of(env, p[2])))
        elif o == "boolConst":
            n = m.Bool(p[1])
        elif o == "intConst":
            n = m.Int(p[1])
        elif o == "realConst":
            n = m.Real(p[1])
        elif o == "strConst":
            n = m.String(p[1])
        elif o == "bvConst":
            n = m.BV(p[1], p[2])
        elif o in ("forall", "exists"):
            n = m.create_node(nt, args, tuple(m.Symbol(nm, ty_of(env, t)) for nm, t in p[1:]))
        elif o == "arrayValue":
            n = m.create_node(nt, args, ty_of(env, p[1]))
        elif p is None:
            n = m.create_node(nt, args)
        else:
            n = m.create_node(nt, args, tuple(p[1:]))
        built.append(n)
    return built[-1]


# ------------------------------------------------------------------------------------------- call recorder (K1)
class VNode:
    """the node `formula` with its arguments replaced by the simplified ones (never created in the manager)"""

    def __init__(self, f, args):
        self._f = f
        self._args = tuple(args)
        self._content = f._content

    def node_type(self):
        return self._f.node_type()

    def args(self):
        return self._args


def record_calls(simplifier, sink):
    """wrap every entry of the walker's dispatch table; idempotent per simplifier"""
    if getattr(simplifier, "_c01_recorded", False):
        simplifier._c01_sink[0] = sink
        return
    holder = [sink]

    def wrap(fn):
        def w(formula, args, **kw):
            res = fn(formula, args=args, **kw)
            holder[0].append((formula, list(args), res))
            return res
        return w
    fns = simplifier.functions
    if isinstance(fns, dict):
        for k in list(fns.keys()):
            fns[k] = wrap(fns[k])
    else:
        for k in range(len(fns)):
            if fns[k] is not None:
                fns[k] = wrap(fns[k])
    simplifier._c01_recorded = True
    simplifier._c01_sink = holder


# ------------------------------------------------------------------------------------------- the run
def root_name(f):
    nt = f.node_type()
    return wire.OPNAMES[nt] if nt < len(wire.OPNAMES) else "custom%d" % nt


def all_ops(f, acc):
    seen = set()
    stack = [f]
    while stack:
        n = stack.pop()
        if id(n) in seen:
            continue
        seen.add(id(n))
        acc[root_name(n)] = acc.get(root_name(n), 0) + 1
        stack.extend(n.args())


def binder_depth(f):
    """largest number of bound variables on a path of the formula (cost of the oracle is |dom|^this)"""
    memo = {}
    stack = [(f, False)]
    while stack:
        n, done = stack.pop()
        if id(n) in memo:
            continue
        if done:
            d = max([memo[id(c)] for c in n.args()], default=0)
            if n.is_quantifier():
                d += len(n.quantifier_vars())
            memo[id(n)] = d
        else:
            stack.append((n, True))
            for c in n.args():
                if id(c) not in memo:
                    stack.append((c, False))
    return memo[id(f)]


def simplify_case(env, f):
    """-> ("ok", g) | ("exc", name, text)"""
    try:
        return ("ok", env.simplifier.simplify(f))
    except Exception as e:     # any exception on a well-typed formula is a finding
        return ("exc", type(e).__name__, str(e)[:200])


def interps_for(ig, f, k):
    return [ig.for_formula(f) for _ in range(k)]


def readable_interp(it):
    syms, fns, doms = it
    return {"symbols": {n: repr(v) for n, t, v in syms},
            "functions": {n: {"table": [(repr(a), repr(r)) for a, r in tab], "default": repr(d)} for n, t, tab, d in fns},
            "domains": {str(t): [repr(v) for v in vs] for t, vs in doms}}


def pow_probe(env):
    m = env.formula_manager
    p = m.Symbol("p", BOOL)
    return [("probe:pow", m.Pow(m.Ite(p, m.Int(3), m.Int(3)), m.Int(2))),
            ("probe:pow", m.Pow(m.Ite(p, m.Int(0), m.Int(0)), m.Int(-1)))]


def generate(ctx):
    """-> list of (tag, env, formula)"""
    quick = ctx.tier == "quick"
    rng = ctx.rng
    cases = []
    env = Environment()
    sh = Shapes(env, rng)
    for tag, f in rule_directed(sh, rng, 5 if quick else 40, full=not quick):
        cases.append((tag, env, f))
    for tag, f in quant_cases(sh, rng, 400 if quick else 6000):
        cases.append((tag, env, f))
    seen = set()
    for tag, f in nested_bool_cases(sh) + ground_arith_cases(sh) + coeff_sum_cases(sh) + ground_string_cases(sh) + array_value_cases(sh):
        if id(f) not in seen:
            seen.add(id(f))
            cases.append((tag, env, f))
    for tag, f in pow_probe(env):
        cases.append((tag, env, f))
    # random type-directed stream; a fresh environment every 400 formulas
    n_rand = 2500 if quick else 60000
    fg = None
    for i in range(n_rand):
        if i % 400 == 0:
            renv = Environment() if i else env
            uni = gen.Universe(renv) if i else sh.u
            fg = gen.FormulaGen(rng, uni, max_depth=4, quant_prob=0.08)
        ty = fg.any_type(0.55)
        f = fg.gen(ty, rng.choice([2, 3, 3, 4]))
        cases.append(("random", renv, f))
    return cases


def run(ctx):
    warnings.simplefilter("ignore")
    cov = LineCoverage()
    cov.start()
    cases = generate(ctx)
    ninterp = 4 if ctx.tier == "quick" else 6
    igs = {}
    s_lines, k_lines, meta = [], [], []
    ophist = {}
    calls = []
    t_run0 = time.time()
    gen_limit = 45 if ctx.tier == "quick" else 500
    for (tag, env, f) in cases:
        record_calls(env.simplifier, calls)
        # the budget of this loop is counted from the start of run(): a slow Lean build before it must never
        # leave the check without cases; only the random stream (the last one) is ever cut
        if tag == "random" and time.time() - t_run0 > gen_limit:
            ctx.count("random_stream_cut_by_budget")
            continue
        if binder_depth(f) > 6:
            ctx.count("skipped_more_than_6_nested_binders")
            continue
        res = simplify_case(env, f)
        root = root_name(f)
        ctx.count("stream_" + tag.split(":")[0])
        ctx.count("root_" + root)
        all_ops(f, ophist)
        if res[0] == "exc":
            ctx.case(None)
            ctx.report_s({"root": root, "kind": "exception", "error": res[1]},
                         "simplify raised %s on a well-typed formula: %s" % (res[1], res[2]),
                         {"formula": semantic.readable(f), "error": res[2], "tag": tag,
                          "term": _safe_enc(f)})
            continue
        g = res[1]
        try:
            ef = wire.enc_term(f)
            eg = wire.enc_term(g)
        except wire.OutOfFragment:
            ctx.count("wire_out_of_fragment")
            continue
        ig = igs.get(id(env))
        if ig is None:
            ig = igs[id(env)] = gen.InterpGen(ctx.rng, gen.Universe(env))
        its = interps_for(ig, f, ninterp)
        s_lines.append(semantic.chk_equiv_line(f, g, its))
        k_lines.append("simp " + ef)
        meta.append((tag, f, g, ef, eg, its))
    cov.stop()
    if not meta:
        ctx.infra("C01 generated no case (budget exhausted before the search started)")
    ctx.extra["operator_histogram"] = dict(sorted(ophist.items(), key=lambda kv: -kv[1]))
    ctx.extra["walk_coverage"] = cov.report()

    # ---------------------------------------------------------------- S
    try:
        s_ans = ctx.lean_run_sharded("Sem", s_lines)
    except common.LeanError as e:
        ctx.report_l("driver Sem does not run", str(e))
        s_ans = [None] * len(s_lines)
    fired = 0
    for line, ans, (tag, f, g, ef, eg, its) in zip(s_lines, s_ans, meta):
        nontriv = ef if g is not f else None
        if g is not f:
            fired += 1
            ctx.count("fired_" + root_name(f))
        ctx.case(nontriv)
        if ans is None:
            continue
        if ans.startswith("ok"):
            parts = ans.split()
            ctx.count("interps_compared", int(parts[1]))
            ctx.count("interps_skipped_div0", int(parts[2]))
            if g is not f:
                ctx.sample({"formula": semantic.readable(f, 160), "simplified": semantic.readable(g, 160), "oracle": ans})
            continue
        rd = {"formula": semantic.readable(f, 2000), "simplified": semantic.readable(g, 2000), "tag": tag,
              "term": ef, "simplified_term": eg, "oracle": ans, "request": line}
        if ans.startswith("bad-op"):
            ctx.infra("Sem driver rejected a request: %s :: %s" % (ans, rd["formula"]))
            continue
        parts = ans.split()
        kind = parts[1] if len(parts) > 1 else "?"
        if kind == "value":
            idx = int(parts[2])
            rd["interpretation"] = readable_interp(its[idx])
        ctx.report_s({"root": root_name(f), "kind": kind},
                     "simplify changed the %s of %s (oracle: %s)" % (kind, rd["formula"][:300], ans[:200]), rd)
    ctx.extra["rule_fired_fraction"] = round(fired / max(1, len(meta)), 4)
    # smallest failing formulas first: the runner writes one replay per signature, in this order
    ctx.s_violations.sort(key=lambda v: len(v["replay"].get("term") or ""))

    # ---------------------------------------------------------------- K1: every recorded rule application
    r_lines, r_meta = [], []
    for (formula, args, res) in calls:
        try:
            r_lines.append("rule " + wire.enc_term(VNode(formula, args)))
            r_meta.append((formula, args, res, wire.enc_term(res)))
        except wire.OutOfFragment:
            ctx.count("wire_out_of_fragment_calls")
            if len(r_lines) > len(r_meta):
                r_lines.pop()
    ctx.extra["k1_rule_calls"] = len(r_lines)
    try:
        r_ans = ctx.lean_run_sharded("C01", r_lines)
    except common.LeanError as e:
        ctx.report_l("driver C01 does not run", str(e))
        return
    k1_div = 0
    for line, ans, (formula, args, res, eres) in zip(r_lines, r_ans, r_meta):
        name = root_name(formula)
        if ans == "out-of-fragment":
            ctx.count("k_oof_" + name)
            continue
        if not ans.startswith("T "):
            ctx.report_k("model driver answered %r" % ans[:100], {"call": name, "request": line, "lean": ans})
            k1_div += 1
            continue
        ctx.count("k_rule_compared_" + name)
        if wire.canon_key(wire.dec_term(ans), ac_ops=AC_OPS) != wire.canon_key(wire.dec_term(eres), ac_ops=AC_OPS):
            k1_div += 1
            ctx.report_k("rule %s: model and implementation differ on walk(%s, [%s])" % (
                name, semantic.readable(formula, 150), ", ".join(semantic.readable(a, 80) for a in args)),
                {"call": name, "formula": semantic.readable(formula, 1000),
                 "args": [semantic.readable(a, 400) for a in args], "impl": semantic.readable(res, 1000),
                 "request": line, "impl_term": eres, "lean_term": ans})
    ctx.extra["k1_divergences"] = k1_div

    # ---------------------------------------------------------------- K2: whole formulas
    try:
        k_ans = ctx.lean_run_sharded("C01", k_lines)
    except common.LeanError as e:
        ctx.report_l("driver C01 does not run", str(e))
        return
    order_dep = []
    for line, ans, (tag, f, g, ef, eg, its) in zip(k_lines, k_ans, meta):
        if ans == "out-of-fragment":
            ctx.count("k2_out_of_fragment")
            continue
        if not ans.startswith("T "):
            ctx.report_k("model driver answered %r" % ans[:100], {"formula": semantic.readable(f), "term": ef, "lean": ans})
            continue
        ctx.count("k2_compared")
        kl = wire.canon_key(wire.dec_term(ans), ac_ops=AC_OPS)
        kp = wire.canon_key(wire.dec_term(eg), ac_ops=AC_OPS)
        if kl != kp:
            order_dep.append({"formula": semantic.readable(f, 2000), "impl": semantic.readable(g, 2000), "term": ef,
                              "impl_term": eg, "lean_term": ans, "tag": tag})
    k3_getvalue(ctx)
    if order_dep:
        if k1_div == 0:
            # every single rule application agrees: the difference can only come from the argument order of
            # products met by walk_plus (node-id order of the implementation vs fixed order of the model)
            ctx.count("k2_order_dependent", len(order_dep))
            ctx.extra["k2_order_dependent_sample"] = {k: order_dep[0][k] for k in ("formula", "impl")}
        else:
            for d in order_dep[:20]:
                ctx.report_k("model and implementation simplify %s differently" % d["formula"][:200], d)


def k3_getvalue(ctx):
    """K3 (for C02): EagerModel.get_value end to end against Model.getValue, on quantifier-free, UF-free
    formulas over Bool/Int/Real with total and partial assignments, both completion modes"""
    from pysmt.solvers.eager import EagerModel
    from pysmt.exceptions import PysmtException
    n = 500 if ctx.tier == "quick" else 8000
    env = Environment()
    uni = gen.Universe(env, theories=("bool", "int", "real"))
    fg = gen.FormulaGen(ctx.rng, uni, max_depth=4, quant_prob=0.0)
    ig = gen.InterpGen(ctx.rng, uni)
    mgr = env.formula_manager
    lines, meta = [], []
    for _ in range(n):
        f = fg.gen(fg.any_type(0.5), ctx.rng.choice([2, 3, 4]))
        syms, fns, doms = ig.for_formula(f)
        completion = ctx.rng.random() < 0.5
        asg = {}
        parts = []
        for (nm, t, v) in syms:
            if ctx.rng.random() < 0.25:
                continue
            c = semantic.val_to_fnode(mgr, t, v)
            asg[mgr.Symbol(nm, t)] = c
            parts.append("%s %s %s" % (wire.hexs(nm), wire.enc_type(t), wire.enc_term(c)))
        try:
            r = EagerModel(asg, env).get_value(f, model_completion=completion)
            out = wire.enc_term(r)
        except PysmtException as e:
            out = "none"
        lines.append("getvalue %d %d %s %s" % (1 if completion else 0, len(parts), " ".join(parts), wire.enc_term(f)))
        meta.append((f, completion, out))
    try:
        ans = ctx.lean_run_sharded("C01", lines)
    except common.LeanError as e:
        ctx.report_l("driver C01 does not run", str(e))
        return
    for line, a, (f, completion, out) in zip(lines, ans, meta):
        if a == "out-of-fragment":
            ctx.count("k3_out_of_fragment")
            continue
        ctx.count("k3_getvalue_compared")
        ctx.count("k3_result_" + ("none" if out == "none" else "constant"))
        same = (a == out) if (a == "none" or out == "none") else \
            (wire.canon_key(wire.dec_term(a)) == wire.canon_key(wire.dec_term(out)))
        if not same:
            ctx.report_k("get_value: model %s, implementation %s on %s" % (a[:80], out[:80], semantic.readable(f, 200)),
                         {"formula": semantic.readable(f, 1000), "completion": completion, "request": line,
                          "lean": a, "impl": out})


def _safe_enc(f):
    try:
        return wire.enc_term(f)
    except Exception:
        return None


def replay(ctx, rep):
    """re-run the stored formula through the current simplifier and both oracles"""
    warnings.simplefilter("ignore")
    r = rep["replay"]
    term = r.get("term")
    if not term:
        print("replay: no wire term stored")
        return
    env = Environment()
    f = build_fnode(env, wire.dec_term(term))
    res = simplify_case(env, f)
    print("formula   :", semantic.readable(f, 2000))
    if res[0] == "exc":
        print("simplify raised", res[1], res[2])
        ctx.case(None)
        ctx.report_s({"root": root_name(f), "kind": "exception", "error": res[1]}, "simplify raised %s" % res[1], r)
        return
    g = res[1]
    print("simplified:", semantic.readable(g, 2000))
    ig = gen.InterpGen(ctx.rng, gen.Universe(env))
    its = interps_for(ig, f, 40)
    line = semantic.chk_equiv_line(f, g, its)
    if "request" in r and rep.get("sig", {}).get("kind") == "value":
        # first the recorded interpretations with the current result
        toks = r["request"].split(" T ")
        old = " T ".join(toks[:-2]) + " " + wire.enc_term(f) + " " + wire.enc_term(g)
        ans = ctx.lean_run("Sem", [old])[0]
        print("oracle (recorded interpretations):", ans)
        if ans.startswith("fail"):
            ctx.case(term)
            ctx.report_s(rep.get("sig", {}), "still failing: " + ans, r)
            return
    ans = ctx.lean_run("Sem", [line])[0]
    print("oracle (40 fresh interpretations):", ans)
    ctx.case(term)
    if ans.startswith("fail"):
        ctx.report_s({"root": root_name(f), "kind": ans.split()[1]}, "still failing: " + ans, dict(r, oracle=ans))
    try:
        k = ctx.lean_run("C01", ["simp " + wire.enc_term(f)])[0]
        print("model     :", k[:300])
    except common.LeanError as e:
        print("model driver does not run")
