"""C18 -- optimisation returns the true optimum and restores the solver.

K: the real `SUAOptimizerMixin` / `IncrementalOptimizerMixin` (unchanged, from /repo) mixed into
   the enumerating solver of `harness/brute.py`, against the Lean model `PySMT.Opt` run by
   `lean/Drivers/C18.lean` with the *same* oracle answers: every push / pop / assertion / solve
   call (with its full constraint list: cuts, pivots, lexicographic equalities, Pareto blocking
   clauses) and the result are compared event by event.  In addition `OptSearchInterval` is
   compared method by method on a grid of bounds (including the `None` cases).
S: independent of the model: the returned cost against the optimum obtained by plain enumeration
   of the declared finite domain (lexicographic optimum / Pareto front for the multi-objective
   routines), wrong `None`, returned model not satisfying the assertions or not having the
   reported cost, assertion stack / backtrack points changed by the call, any exception.
   Histories: a query (is_sat / is_valid / is_unsat) immediately before the routine -- its level is
   still pending when the routine pushes -- and probes after it (public `assertions`, is_sat(True), a
   second optimize against the enumerated optimum).
   Abandoned generators (routine "ptake"): `pareto_optimize` consumed for k solutions and closed;
   the solutions must be distinct points of the enumerated front and the solver restored (K: the
   model's `paretoPrefix`).
   Script route (routine "script", S only): generated OMT sessions (declare-fun / assert / minimize /
   maximize / minmax / maxmin with :id and :signed / set-option :opt.priority / push / pop / check-sat /
   get-objectives, >= 2 check-sat per session) are parsed by SmtLibParser and run by
   SmtLibScript.evaluate on the enumerating optimizers; every check-sat and get-objectives answer is
   compared with plain enumeration over the assertions and goals live at that point, and the solver's
   final stack with the script's.  (assert-soft is not understood by InterpreterOMT and is left out.)
   Goal *reuse* (routine "reuse", S only -- the Lean model treats a goal as an immutable value):
   one MaxSMTGoal object is optimised, extended with further soft clauses (weights given as
   Python int / Fraction / float / FNode) and optimised again on the same solver; every result is
   compared with the enumerated optimum of the soft clauses the goal holds at that moment.
"""
import itertools
import json
import math
import os
import random
import time
import warnings
from fractions import Fraction

warnings.simplefilter("ignore")

import pysmt.operators as op
from pysmt.environment import get_env
from pysmt.exceptions import GoalNotSupportedError, PysmtValueError
from pysmt.logics import LIA, LRA, QF_LIRA, QF_AUFBVLIRA
from pysmt.logics import BV as BV_LOGIC
from pysmt.optimization.goal import (MaximizationGoal, MaxMinGoal, MaxSMTGoal, MinimizationGoal,
                                     MinMaxGoal)
from pysmt.optimization.optimizer import OptSearchInterval
from pysmt.solvers.eager import EagerModel
from pysmt.typing import BOOL, INT, BVType

import brute
import common

LEAN_MODULES = ["PySMT.Props.C18"]
RULE = ("constraint systems over Bool / BV<=3 / range-bounded Int (all 2-variable BV systems from a "
        "constraint palette: exhaustive) x goal kind (min, max, min-max, max-min, MaxSMT; signed/"
        "unsigned) x {linear, binary} x {SUA, incremental} x {optimize, boxed, lexicographic, pareto}; "
        "min-max / max-min goals with 2-6 terms; MaxSMT goals also re-used and extended between calls; "
        "the oracle's choice of model is randomised/adversarial per case; a case is non-trivial when "
        "the assertions are satisfiable and the search performs at least one cut (>= 2 solve calls)")
ASSUMPTIONS = [
    "the satisfiability oracle is complete and sound (harness/brute.py enumerates the declared finite domain)",
    "objective optimum is attained (finite domains); MaxSMT weights are integers whenever bisection is used",
    "multi-objective routines are called with at least one goal and consumed completely (pareto generator)",
    "goal objects are immutable values in the Lean model; re-use of a MaxSMTGoal object across calls (with soft "
    "clauses added in between) is covered by the failing-input search only",
    "goals for which Goal.get_logic() is outside {LIA, LRA, BV, QF_LIRA} raise KeyError (known finding F24b); "
    "the theorems carry the hypothesis `supported`",
]
FUEL = 100000


# ---------------------------------------------------------------------------------------------
# expressions:  "x" | ["int", n] | ["bv", v, w] | ["bool", b] | [op, args…]
# ---------------------------------------------------------------------------------------------
def build(e, syms, mgr):
    if isinstance(e, str):
        return syms[e]
    h = e[0]
    if h == "int":
        return mgr.Int(e[1])
    if h == "real":
        return mgr.Real(Fraction(e[1]))
    if h == "bv":
        return mgr.BV(e[1], e[2])
    if h == "bool":
        return mgr.Bool(e[1])
    if h in ("bvzext", "bvsext"):
        return getattr(mgr, {"bvzext": "BVZExt", "bvsext": "BVSExt"}[h])(build(e[1], syms, mgr), e[2])
    if h == "bvextract":
        return mgr.BVExtract(build(e[1], syms, mgr), e[2], e[3])
    args = [build(a, syms, mgr) for a in e[1:]]
    name = OPS[h]
    return getattr(mgr, name)(*args)


OPS = {"and": "And", "or": "Or", "not": "Not", "implies": "Implies", "iff": "Iff", "ite": "Ite",
       "eq": "Equals", "lt": "LT", "le": "LE", "gt": "GT", "ge": "GE", "plus": "Plus", "minus": "Minus",
       "times": "Times", "bvult": "BVULT", "bvule": "BVULE", "bvugt": "BVUGT", "bvuge": "BVUGE",
       "bvslt": "BVSLT", "bvsle": "BVSLE", "bvsgt": "BVSGT", "bvsge": "BVSGE", "bvadd": "BVAdd",
       "bvsub": "BVSub", "bvmul": "BVMul", "bvand": "BVAnd", "bvor": "BVOr", "bvxor": "BVXor",
       "bvnot": "BVNot", "bvneg": "BVNeg", "bvudiv": "BVUDiv", "bvurem": "BVURem", "bvshl": "BVLShl",
       "bvlshr": "BVLShr", "bvashr": "BVAShr", "bv2nat": "BVToNatural", "bvconcat": "BVConcat",
       "bvcomp": "BVComp", "xor": "Xor"}


def weight_arg(mgr, wq, real, form):
    """the weight argument of add_soft_clause in the requested form"""
    if form == "py" and wq.denominator == 1:
        return int(wq)
    if form == "fraction" and real:
        return wq
    if form == "float" and real and wq.denominator in (1, 2, 4, 8):
        return float(wq)
    return mgr.Real(wq) if real else mgr.Int(int(wq))


def sgn(v, w):
    return v - (1 << w) if v >= (1 << (w - 1)) else v


# ---------------------------------------------------------------------------------------------
# one case
# ---------------------------------------------------------------------------------------------
class Prepared(object):
    """Everything derived from a case description (JSON-able dict)."""

    def __init__(self, case):
        self.case = case
        env = get_env()
        mgr = env.formula_manager
        self.mgr = mgr
        self.syms = {}
        self.decls = []
        for v in case["vars"]:
            name, kind = v[0], v[1]
            if kind == "bool":
                s = mgr.Symbol("c18_%s_bool" % name, BOOL)
                self.decls.append((s, None))
            elif kind == "bv":
                s = mgr.Symbol("c18_%s_bv%d" % (name, v[2]), BVType(v[2]))
                # optional explicit candidate list (wide bit-vectors)
                self.decls.append((s, list(v[3]) if len(v) > 3 else None))
            else:
                s = mgr.Symbol("c18_%s_int" % name, INT)
                # a range [lo, hi] or an explicit candidate list (huge values)
                self.decls.append((s, list(v[2]) if isinstance(v[2], list) else (v[2], v[3])))
            self.syms[name] = s
        self.asserts = [build(a, self.syms, mgr) for a in case["asserts"]]
        cls = (brute.SCRIPT_MIXINS if case.get("routine") == "script" else brute.MIXINS)[case["mixin"]]
        self.solver = cls(env, QF_AUFBVLIRA)
        for s, dom in self.decls:
            self.solver.declare(s, dom)
        for a in self.asserts:
            self.solver.add_assertion(a)
        # goals (real pySMT objects) and their independent objective tables
        self.goals = []
        self.tables = []      # per goal: python value (int / Fraction) of the objective on every row
        self.doms = []        # per goal: "i" | "u<w>" | "s<w>"
        self.dirs = []        # "min" | "max"
        self.scale = []       # per goal: integer scale for rational objectives
        self.supported = []
        ev = self.solver.evaluator()
        for g in case["goals"]:
            self._prepare_goal(g, ev)
        self.probe = None
        if case.get("probe"):
            self._prepare_goal(case["probe"], ev)
            self.probe = (self.goals.pop(), self.tables.pop(), self.dirs.pop(), self.scale.pop(), self.supported.pop())
            self.doms.pop()
        self.feasible = self.solver.sat_rows(self.asserts)
        self.rep = []
        seen = {}
        for i, g in enumerate(self.goals):
            try:
                t = g.term()
            except Exception:
                t = None
            self.rep.append(seen.setdefault(t, i))
        self.term_rep = seen

    def _prepare_goal(self, g, ev):
        mgr = self.mgr
        kind = g["kind"]
        signed = bool(g.get("signed", False))
        if kind == "maxsmt":
            goal = MaxSMTGoal(real_weights=bool(g.get("real", False)))
            soft = []
            for ent in g["soft"]:
                c, w = ent[0], ent[1]
                form = ent[2] if len(ent) > 2 else "fnode"
                cf = build(c, self.syms, mgr)
                wq = Fraction(w)
                goal.add_soft_clause(cf, weight_arg(mgr, wq, bool(g.get("real")), form))
                soft.append((ev.table(cf), wq))
            tab = [sum((w for t, w in soft if t[i]), Fraction(0)) for i in range(ev.n)]
            scale = 1
            for _, w in soft:
                scale = scale * w.denominator // math.gcd(scale, w.denominator)
            dom, direction = "i", "max"
        else:
            terms = [build(t, self.syms, mgr) for t in g["terms"]]
            ty = terms[0].get_type()
            tabs = []
            for t in terms:
                tt = ev.table(t)
                if ty.is_bv_type() and signed:
                    tt = [sgn(v, ty.width) for v in tt]
                tabs.append(tt)
            if kind == "min":
                goal = MinimizationGoal(terms[0], signed)
                tab, direction = tabs[0], "min"
            elif kind == "max":
                goal = MaximizationGoal(terms[0], signed)
                tab, direction = tabs[0], "max"
            elif kind == "minmax":
                goal = MinMaxGoal(terms, signed)
                tab, direction = [max(r) for r in zip(*tabs)], "min"
            elif kind == "maxmin":
                goal = MaxMinGoal(terms, signed)
                tab, direction = [min(r) for r in zip(*tabs)], "max"
            else:
                raise ValueError(kind)
            scale = 1
            if ty.is_bv_type():
                dom = ("s%d" if signed else "u%d") % ty.width
            else:
                dom = "i"
        try:
            lg = goal.get_logic()
            sup = (lg is LIA) or (lg is LRA) or (lg is BV_LOGIC) or (lg == QF_LIRA)
        except Exception:
            sup = False
        self.goals.append(goal)
        self.tables.append(tab)
        self.doms.append(dom)
        self.dirs.append(direction)
        self.scale.append(scale)
        self.supported.append(sup)

    # ---------------------------------------------------------------- rendering (Python side)
    def cost_int(self, gi, row):
        v = self.tables[gi][row] * self.scale[gi]
        assert v == int(v)
        return int(v)

    def const_value(self, c, fam, gi=None):
        """integer the model uses for constant `c` in operator family `fam`"""
        if c.is_bv_constant():
            return c.bv_signed_value() if fam.startswith("s") else c.bv_unsigned_value()
        v = Fraction(c.constant_value())
        if gi is not None:
            v = v * self.scale[gi]
        if v.denominator != 1:
            return "%s/%s" % (v.numerator, v.denominator)
        return int(v)

    def decode_atom(self, f):
        t = f.node_type()
        fams = {op.LT: ("i", "lt"), op.LE: ("i", "le"), op.BV_ULT: ("u", "lt"), op.BV_ULE: ("u", "le"),
                op.BV_SLT: ("s", "lt"), op.BV_SLE: ("s", "le")}
        if t not in fams:
            return "?" + f.serialize()
        fam, cmp_ = fams[t]
        l, r = f.arg(0), f.arg(1)
        if r.is_constant() and not l.is_constant():
            term, c = l, r
            sym = {"lt": "<", "le": "<="}[cmp_]
        elif l.is_constant() and not r.is_constant():
            term, c = r, l
            sym = {"lt": ">", "le": ">="}[cmp_]
        else:
            return "?" + f.serialize()
        if fam != "i":
            fam = fam + str(term.bv_width())
        gi = self.term_rep.get(term)
        if gi is None:
            return "?" + f.serialize()
        return "t%d:%s:%s:%s" % (gi, fam, sym, self.const_value(c, fam, gi))

    def decode(self, f):
        if f.is_equals() and f.arg(1).is_constant() and f.arg(0) in self.term_rep:
            gi = self.term_rep[f.arg(0)]
            c = f.arg(1)
            v = c.bv_unsigned_value() if c.is_bv_constant() else self.const_value(c, "i", gi)
            return "t%d=%s" % (gi, v)
        if f.is_or():
            return "(" + "|".join(self.decode_atom(a) for a in f.args()) + ")"
        return self.decode_atom(f)

    def python_trace(self, events):
        nb = len(self.asserts)
        out = []
        log = []
        for e in events:
            if e[0] == "push":
                out.append("P")
            elif e[0] == "pop":
                out.append("O")
            elif e[0] == "assert":
                out.append("A:" + self.decode(e[1]))
            elif e[0] == "solve":
                stack, assum, idx = e[1], e[2], e[3]
                pre = "" if stack[:nb] == self.asserts else "!base-changed!"
                cs = [self.decode(c) for c in stack[nb:]] + [self.decode(c) for c in assum]
                out.append("S:" + pre + "&".join(cs) + ("=1" if idx is not None else "=0"))
                if idx is None:
                    log.append("-")
                else:
                    log.append("%d:%s" % (idx, ",".join(str(self.cost_int(g, idx)) for g in range(len(self.goals)))))
            else:
                out.append("?" + e[0])
        return out, log

    # ---------------------------------------------------------------- rendering (Lean side)
    def canon_lean_atom(self, a):
        g, dom, cmp_, b = a.split(":")
        return "t%d:%s:%s:%s" % (self.rep[int(g)], dom, cmp_, b)

    def canon_lean_constraint(self, c):
        if c.startswith("("):
            atoms = [self.canon_lean_atom(a) for a in c[1:-1].split("|")]
            return atoms[0] if len(atoms) == 1 else "(" + "|".join(atoms) + ")"
        if "=" in c and ":" not in c:
            g, v = c.split("=")
            g, v = int(g), int(v)
            d = self.doms[g]
            if d != "i" and v < 0:
                v += 1 << int(d[1:])
            return "t%d=%d" % (self.rep[g], v)
        return self.canon_lean_atom(c)

    def canon_lean_trace(self, toks):
        out = []
        for t in toks:
            if t.startswith("A:"):
                out.append("A:" + self.canon_lean_constraint(t[2:]))
            elif t.startswith("S:"):
                body, flag = t[2:].rsplit("=", 1)
                cs = [self.canon_lean_constraint(c) for c in body.split("&")] if body else []
                out.append("S:" + "&".join(cs) + "=" + flag)
            else:
                out.append(t)
        return out


def model_row(prep, model):
    """row index of a model returned by the solver (by its assignment, not by identity)"""
    ev = prep.solver.evaluator()
    key = []
    for s in ev.symbols:
        v = model.get_value(s)
        if v.is_bv_constant():
            key.append(v.bv_unsigned_value())
        elif v.is_bool_constant():
            key.append(v.constant_value())
        else:
            key.append(int(v.constant_value()))
    try:
        return ev.rows.index(tuple(key))
    except ValueError:
        return None


def cost_value(prep, gi, cost):
    """integer (scaled) meaning of a returned cost constant for goal gi"""
    d = prep.doms[gi]
    if cost.is_bv_constant():
        return cost.bv_signed_value() if d.startswith("s") else cost.bv_unsigned_value()
    v = Fraction(cost.constant_value()) * prep.scale[gi]
    return int(v) if v.denominator == 1 else v


def make_chooser(prep, mode, seed):
    rng = random.Random(seed)
    if not prep.tables:
        mode = "random" if mode == "random" else "first"
    tab = prep.tables[0] if prep.tables else None
    d = prep.dirs[0] if prep.dirs else "min"

    def chooser(rows):
        if mode == "first":
            return rows[0]
        if mode == "random":
            return rows[rng.randrange(len(rows))]
        # adversarial: the model that improves least / most on the first objective
        worst = (mode == "worst")
        key = (lambda r: tab[r]) if (d == "min") == worst else (lambda r: -tab[r])
        return max(rows, key=key)
    return chooser


def best(direction, vals):
    return min(vals) if direction == "min" else max(vals)


def lex_opt(prep, rows):
    rows = list(rows)
    out = []
    for gi in range(len(prep.goals)):
        if not rows:
            return None
        b = best(prep.dirs[gi], [prep.tables[gi][r] for r in rows])
        out.append(b)
        rows = [r for r in rows if prep.tables[gi][r] == b]
    return out


def pareto_front(prep, rows):
    n = len(prep.goals)
    vecs = set(tuple(prep.tables[g][r] for g in range(n)) for r in rows)

    def dom(a, b):      # a dominates b
        ok = all((a[i] <= b[i]) if prep.dirs[i] == "min" else (a[i] >= b[i]) for i in range(n))
        return ok and a != b
    return set(v for v in vecs if not any(dom(w, v) for w in vecs))


def run_case(case):
    """Execute one case on the real code.  Returns (request_line, python_answer, violations, info)
    where violations is a list of (sig, what)."""
    prep = Prepared(case)
    solver = prep.solver
    routine, strat, mixin = case["routine"], case["strategy"], case["mixin"]
    goals = prep.goals
    viol = []
    base_sig = {"routine": routine, "mixin": mixin, "strategy": strat,
                "goals": "+".join("%s/%s" % (g["kind"], d) for g, d in zip(case["goals"], prep.doms))}

    def report(oracle, what, **kw):
        sig = dict(base_sig, oracle=oracle)
        sig.update({k: str(v) for k, v in kw.items()})
        viol.append((sig, what))

    solver.chooser = make_chooser(prep, case.get("chooser", "first"), case.get("seed", 0))
    before = solver.snapshot()
    pre = case.get("pre")
    if pre:
        # history: is_sat / is_valid / is_unsat IMMEDIATELY followed by the routine (the level the
        # query pushed is still pending when the routine starts)
        base_sig["history"] = pre["call"]
        q = build(pre["query"], prep.syms, prep.mgr)
        qt = solver.evaluator().table(q)
        try:
            got = getattr(solver, pre["call"])(q)
            exp = {"is_sat": any(qt[r] for r in prep.feasible),
                   "is_valid": all(qt[r] for r in prep.feasible),
                   "is_unsat": not any(qt[r] for r in prep.feasible)}[pre["call"]]
            if bool(got) != exp:
                report("query", "%s returned %s, enumeration says %s" % (pre["call"], got, exp))
        except Exception as e:      # noqa
            report("exception", "%s raised %s" % (pre["call"], type(e).__name__), exc=type(e).__name__,
                   objective="-", objective_sort="-")
    solver.events = []
    solver.n_solves = 0
    # finite domains: every search needs far fewer calls than there are assignments x goals
    solver.max_solves = 50 + 4 * (len(goals) + 1) * (solver.evaluator().n + 2)
    if case.get("bits"):
        # huge values: binary search needs about 2*log2(range) calls per goal (first phase with an
        # unknown far bound, then bisection); linear search is bounded by the candidate count
        solver.max_solves += (len(goals) + 1) * (3 * int(case["bits"]) + 40)
    exc = None
    res = None
    try:
        if routine == "single":
            res = solver.optimize(goals[0], strategy=strat)
        elif routine == "boxed":
            res = solver.boxed_optimize(goals, strategy=strat)
        elif routine == "lexi":
            res = solver.lexicographic_optimize(goals, strategy=strat)
        elif routine == "pareto":
            res = list(solver.pareto_optimize(goals))
        elif routine == "ptake":
            # the generator is consumed for `take` solutions and then abandoned
            gen = solver.pareto_optimize(goals)
            try:
                res = list(itertools.islice(gen, int(case["take"])))
            finally:
                gen.close()
        else:
            raise ValueError(routine)
    except Exception as e:      # noqa -- every exception is an outcome
        exc = e
    events = list(solver.events)
    if pre and events and events[0] == ("pop",):
        events = events[1:]          # the pending level of the query, removed by the routine's first command
    after = solver.snapshot()
    trace, log = prep.python_trace(events)
    nsolve = len(log)
    feasible = prep.feasible
    has_maxsmt = any(g["kind"] == "maxsmt" for g in case["goals"])
    info = {"feasible": bool(feasible), "solves": nsolve, "skip_k": False}

    # ------------------------------------------------------------------ S
    py_res = None
    if exc is not None:
        if isinstance(exc, GoalNotSupportedError) and has_maxsmt and routine in ("lexi", "pareto"):
            # documented refusal; must not touch the solver
            info["skip_k"] = True
            py_res = "refused"
            if after != before:
                report("stack", "solver state changed by a refused call", outcome="refused")
        else:
            if isinstance(exc, brute.BruteBudgetExceeded):
                py_res = "err:nontermination"
            elif not goals and isinstance(exc, (UnboundLocalError, IndexError)):
                py_res = "err:empty"
            elif isinstance(exc, KeyError):
                py_res = "err:key"
            elif isinstance(exc, PysmtValueError):
                py_res = "err:cast"
            else:
                py_res = "err:" + type(exc).__name__
            unsupported = [i for i, s in enumerate(prep.supported) if not s]
            report("exception", "%s raised %s: %s" % (routine, type(exc).__name__, str(exc)[:200]),
                   exc=type(exc).__name__,
                   objective=("no-goals" if not goals else "unsupported-logic" if unsupported else "supported"),
                   objective_sort=",".join(sorted(set(prep.doms[i] for i in unsupported))) if unsupported else "-")
    else:
        if after[0] != before[0] or after[1] != before[1]:
            report("stack", "assertion stack / levels changed: levels %d -> %d, assertions %d -> %d" % (
                len(before[1]), len(after[1]), len(before[0]), len(after[0])),
                outcome=("none" if res is None else "some"),
                delta_levels=len(after[1]) - len(before[1]),
                delta_assertions=len(after[0]) - len(before[0]))

        def check_model(m, gi_costs, where):
            """model satisfies the assertions and has the reported costs; returns its row"""
            row = model_row(prep, m)
            if row is None or row not in feasible_set:
                report("model", "%s: returned model does not satisfy the assertions" % where)
                return row
            for gi, c in gi_costs:
                cv = cost_value(prep, gi, c)
                if cv != prep.tables[gi][row] * prep.scale[gi]:
                    report("model-cost", "%s: reported cost %s is not the objective value %s of the returned model"
                           % (where, cv, prep.tables[gi][row]), goal=gi)
            return row
        feasible_set = set(feasible)
        if routine == "single":
            if res is None:
                py_res = "none"
                if feasible:
                    report("none", "optimize returned None for satisfiable assertions")
            else:
                m, c = res
                row = check_model(m, [(0, c)], "optimize")
                cv = cost_value(prep, 0, c)
                py_res = "m%s:%s" % (row, cv)
                if not feasible:
                    report("none", "optimize returned a solution for unsatisfiable assertions")
                else:
                    opt = best(prep.dirs[0], [prep.tables[0][r] for r in feasible]) * prep.scale[0]
                    if cv != opt:
                        report("cost", "optimize returned cost %s, the optimum is %s" % (cv, opt))
        elif routine == "boxed":
            if res is None:
                py_res = "none"
                if feasible:
                    report("none", "boxed_optimize returned None for satisfiable assertions")
            else:
                parts = []
                if not feasible and goals:
                    report("none", "boxed_optimize returned a solution for unsatisfiable assertions")
                for gi, g in enumerate(goals):
                    if g not in res:
                        report("cost", "boxed_optimize: goal %d missing from the result" % gi)
                        continue
                    m, c = res[g]
                    row = check_model(m, [(gi, c)], "boxed goal %d" % gi)
                    cv = cost_value(prep, gi, c)
                    parts.append("m%s:%s" % (row, cv))
                    if feasible:
                        opt = best(prep.dirs[gi], [prep.tables[gi][r] for r in feasible]) * prep.scale[gi]
                        if cv != opt:
                            report("cost", "boxed_optimize goal %d: cost %s, optimum %s" % (gi, cv, opt), goal=gi)
                py_res = ",".join(parts) if parts else "empty"
        elif routine == "lexi":
            if res is None:
                py_res = "none"
                if feasible:
                    report("none", "lexicographic_optimize returned None for satisfiable assertions")
            else:
                m, cs = res
                row = check_model(m, list(enumerate(cs)), "lexicographic")
                cvs = [cost_value(prep, gi, c) for gi, c in enumerate(cs)]
                py_res = "m%s:%s" % (row, ",".join(str(v) for v in cvs))
                exp = lex_opt(prep, feasible)
                if exp is None:
                    report("none", "lexicographic_optimize returned a solution for unsatisfiable assertions")
                elif cvs != [e * s for e, s in zip(exp, prep.scale)]:
                    report("cost", "lexicographic_optimize returned %s, the lexicographic optimum is %s" % (cvs, exp))
        elif routine == "ptake":
            parts = []
            got = []
            for m, cs in res:
                row = check_model(m, list(enumerate(cs)), "pareto (abandoned)")
                cvs = tuple(cost_value(prep, gi, c) for gi, c in enumerate(cs))
                got.append(cvs)
                parts.append("m%s:%s" % (row, ",".join(str(v) for v in cvs)))
            py_res = ";".join(parts) if parts else "empty"
            exp = pareto_front(prep, feasible)
            k = int(case["take"])
            if len(set(got)) != len(got):
                report("cost", "abandoned pareto_optimize yielded a cost vector twice: %s" % (got,), shape="duplicate")
            if not set(got) <= exp:
                report("cost", "abandoned pareto_optimize yielded %s, not all on the Pareto front %s"
                       % (sorted(set(got)), sorted(exp)), shape="non-optimal")
            if len(got) > k or (len(got) < k and set(got) != exp):
                report("cost", "abandoned pareto_optimize yielded %d solutions for take=%d, front size %d"
                       % (len(got), k, len(exp)), shape="count")
        elif routine == "pareto":
            parts = []
            got = []
            for m, cs in res:
                row = check_model(m, list(enumerate(cs)), "pareto")
                cvs = tuple(cost_value(prep, gi, c) for gi, c in enumerate(cs))
                got.append(cvs)
                parts.append("m%s:%s" % (row, ",".join(str(v) for v in cvs)))
            py_res = ";".join(parts) if parts else "empty"
            exp = pareto_front(prep, feasible)
            if len(set(got)) != len(got):
                report("cost", "pareto_optimize yielded a cost vector twice: %s" % (got,), shape="duplicate")
            if set(got) != exp:
                report("cost", "pareto_optimize yielded %s, the Pareto front is %s" % (sorted(set(got)), sorted(exp)),
                       shape=("missing" if exp - set(got) else "non-optimal"))

    # ------------------------------------------------------------------ probes after the call
    if prep.probe is not None and (exc is None or py_res == "refused"):
        pgoal, ptab, pdir, pscale, psup = prep.probe
        try:
            sat_now = solver.is_sat(prep.mgr.TRUE())
            if bool(sat_now) != bool(feasible):
                report("probe-sat", "is_sat(True) after the call returned %s, the assertions are %ssatisfiable"
                       % (sat_now, "" if feasible else "un"))
            if psup:
                solver.n_solves = 0
                r2 = solver.optimize(pgoal, strategy="linear")
                if (r2 is None) != (not feasible):
                    report("probe-none", "a second optimize after the call returned %s for %ssatisfiable assertions"
                           % ("None" if r2 is None else "a solution", "" if feasible else "un"))
                elif r2 is not None:
                    c2 = r2[1]
                    if c2.is_bv_constant():
                        cv2 = c2.bv_signed_value() if (pgoal.signed) else c2.bv_unsigned_value()
                    else:
                        cv2 = Fraction(c2.constant_value()) * pscale
                    opt2 = best(pdir, [ptab[r] for r in feasible]) * pscale
                    if cv2 != opt2:
                        report("probe-cost", "a second optimize after the call returned cost %s, the optimum is %s "
                               "(the first call left the solver in a different state)" % (cv2, opt2))
            after2 = solver.snapshot()
            if after2 != before:
                report("probe-stack", "assertions / levels after the call and a second optimize differ from the "
                       "initial ones: levels %d -> %d, assertions %d -> %d"
                       % (len(before[1]), len(after2[1]), len(before[0]), len(after2[0])))
        except Exception as e:      # noqa
            if not isinstance(e, KeyError):
                report("probe-exception", "probe after the call raised %s: %s" % (type(e).__name__, str(e)[:120]),
                       exc=type(e).__name__)

    # ------------------------------------------------------------------ K request
    goal_str = ",".join("%s:%s:%d" % (d, dm, 1 if s else 0)
                        for d, dm, s in zip(prep.dirs, prep.doms, prep.supported))
    rname = "ptake:%d" % int(case["take"]) if routine == "ptake" else routine
    req = "opt %s %s %s %d %s %s" % (rname, mixin, strat, FUEL, goal_str, ";".join(log) if log else ".")
    py_ans = {"result": py_res, "lv": len(after[1]) - len(before[1]),
              "st": len(after[0]) - len(before[0]), "calls": nsolve, "trace": trace}
    info["prep"] = prep
    info["res"] = res
    info["exc"] = exc
    return req, py_ans, viol, info


def run_reuse_case(case):
    """One MaxSMTGoal object, optimised after each stage of soft clauses on the same solver.
    S only.  Returns (None, py_ans, violations, info)."""
    prep = Prepared(dict(case, goals=[]))
    solver = prep.solver
    mgr = prep.mgr
    ev = solver.evaluator()
    spec = case["reuse"]
    real = bool(spec["real"])
    strat, mixin = case["strategy"], case["mixin"]
    viol = []
    feasible = prep.feasible
    feasible_set = set(feasible)
    goal = MaxSMTGoal(real_weights=real)
    soft = []
    done = 0
    results = []
    nsolve = 0
    rng = random.Random(case.get("seed", 0))
    solver.chooser = (lambda rows: rows[rng.randrange(len(rows))]) if case.get("chooser") != "first" else None
    for si, upto in enumerate(spec["stages"]):
        forms = []
        for ent in spec["soft"][done:upto]:
            cf = build(ent[0], prep.syms, mgr)
            wq = Fraction(ent[1])
            form = ent[2] if len(ent) > 2 else "fnode"
            goal.add_soft_clause(cf, weight_arg(mgr, wq, real, form))
            soft.append((ev.table(cf), wq))
            forms.append(form)
        done = upto
        sig = {"routine": "reuse", "mixin": mixin, "strategy": strat, "goals": "maxsmt/" + ("real" if real else "int"),
               "stage": str(si), "added_as": "+".join(sorted(set(forms)))}
        tab = [sum((w for t, w in soft if t[i]), Fraction(0)) for i in range(ev.n)]
        before = solver.snapshot()
        solver.events = []
        solver.n_solves = 0
        solver.max_solves = 50 + 8 * (ev.n + 2)
        try:
            res = solver.optimize(goal, strategy=strat)
        except Exception as e:      # noqa
            viol.append((dict(sig, oracle="exception", exc=type(e).__name__, objective="supported", objective_sort="-"),
                         "optimize on a re-used MaxSMT goal (stage %d) raised %s: %s" % (si, type(e).__name__, str(e)[:160])))
            break
        nsolve += solver.n_solves
        after = solver.snapshot()
        if after != before:
            viol.append((dict(sig, oracle="stack", outcome=("none" if res is None else "some"),
                              delta_levels=str(len(after[1]) - len(before[1])),
                              delta_assertions=str(len(after[0]) - len(before[0]))),
                         "assertion stack / levels changed by optimize on a re-used goal (stage %d)" % si))
        if res is None:
            results.append("none")
            if feasible:
                viol.append((dict(sig, oracle="none"), "optimize returned None for satisfiable assertions (stage %d)" % si))
            continue
        m, c = res
        row = model_row(prep, m)
        cv = Fraction(c.constant_value())
        results.append("m%s:%s" % (row, cv))
        if not feasible:
            viol.append((dict(sig, oracle="none"), "optimize returned a solution for unsatisfiable assertions"))
            continue
        if row is None or row not in feasible_set:
            viol.append((dict(sig, oracle="model"), "returned model does not satisfy the assertions (stage %d)" % si))
            continue
        opt = max(tab[r] for r in feasible)
        if tab[row] != opt or cv != opt:
            viol.append((dict(sig, oracle="cost"),
                         "re-used MaxSMT goal, stage %d (%d soft clauses, last added as %s): returned model satisfies "
                         "soft weight %s, reported cost %s, the optimum of the current soft clauses is %s"
                         % (si, len(soft), "+".join(forms), tab[row], cv, opt)))
        touch = spec.get("touch", "none")
        if touch == "term":
            goal.term()
        elif touch == "logic":
            try:
                goal.get_logic()
            except Exception:
                pass
    info = {"feasible": bool(feasible), "solves": nsolve, "skip_k": True, "prep": prep}
    py_ans = {"result": " / ".join(results), "trace": []}
    return None, py_ans, viol, info


# ---------------------------------------------------------------------------------------------
# the script route: SmtLibParser -> SmtLibScript.evaluate(optimizer) (InterpreterOMT)
# ---------------------------------------------------------------------------------------------
SMT_OPS = {"and": "and", "or": "or", "not": "not", "implies": "=>", "iff": "=", "ite": "ite", "eq": "=",
           "lt": "<", "le": "<=", "gt": ">", "ge": ">=", "plus": "+", "minus": "-", "times": "*",
           "bvult": "bvult", "bvule": "bvule", "bvugt": "bvugt", "bvuge": "bvuge", "bvslt": "bvslt",
           "bvsle": "bvsle", "bvsgt": "bvsgt", "bvsge": "bvsge", "bvadd": "bvadd", "bvsub": "bvsub",
           "bvmul": "bvmul", "bvand": "bvand", "bvor": "bvor", "bvxor": "bvxor", "bvnot": "bvnot",
           "bvneg": "bvneg", "xor": "xor"}


def smt_text(e, names):
    if isinstance(e, str):
        return names[e]
    h = e[0]
    if h == "int":
        return str(e[1]) if e[1] >= 0 else "(- %d)" % -e[1]
    if h == "bv":
        return "(_ bv%d %d)" % (e[1], e[2])
    if h == "bool":
        return "true" if e[1] else "false"
    return "(%s %s)" % (SMT_OPS[h], " ".join(smt_text(a, names) for a in e[1:]))


def script_text(case, prep):
    names = {k: v.symbol_name() for k, v in prep.syms.items()}
    out = []
    for v in case["vars"]:
        sort = {"bool": "Bool", "int": "Int"}.get(v[1]) or "(_ BitVec %d)" % v[2]
        out.append("(declare-fun %s () %s)" % (names[v[0]], sort))
    for c in case["script"]:
        k = c[0]
        if k == "priority":
            out.append("(set-option :opt.priority %s)" % c[1])
        elif k == "assert":
            out.append("(assert %s)" % smt_text(c[1], names))
        elif k == "goal":
            g = c[1]
            cmd = {"min": "minimize", "max": "maximize", "minmax": "minmax", "maxmin": "maxmin"}[g["kind"]]
            opts = (" :id %s" % g["id"] if g.get("id") else "") + (" :signed" if g.get("signed") else "")
            out.append("(%s %s%s)" % (cmd, " ".join(smt_text(t, names) for t in g["terms"]), opts))
        elif k in ("push", "pop"):
            out.append("(%s %d)" % (k, c[1]))
        elif k == "check":
            out.append("(check-sat)")
        elif k == "get":
            out.append("(get-objectives)")
    return "\n".join(out) + "\n"


def run_script_case(case):
    """An OMT script run through SmtLibParser + SmtLibScript.evaluate(optimizer); every check-sat /
    get-objectives answer is compared with plain enumeration over the assertions and goals that are
    live at that point.  S only (the Lean model has no script interpreter)."""
    from io import StringIO
    from pysmt.smtlib.parser import SmtLibParser
    prep = Prepared(dict(case, goals=[], asserts=[]))
    solver = prep.solver
    mgr = prep.mgr
    ev = solver.evaluator()
    mixin = case["mixin"]
    viol = []
    rng = random.Random(case.get("seed", 0))
    solver.chooser = (lambda rows: rows[rng.randrange(len(rows))]) if case.get("chooser") != "first" else None
    solver.max_solves = 200 + 30 * (ev.n + 2)
    text = script_text(case, prep)
    sig0 = {"routine": "script", "mixin": mixin, "strategy": "linear"}

    def report(oracle, what, **kw):
        sg = dict(sig0, oracle=oracle)
        sg.update({k: str(v) for k, v in kw.items()})
        viol.append((sg, what))
    try:
        script = SmtLibParser(get_env()).get_script(StringIO(text))
        log = script.evaluate(solver)
    except Exception as e:      # noqa
        report("exception", "script route raised %s: %s" % (type(e).__name__, str(e)[:160]), exc=type(e).__name__,
               objective="supported", objective_sort="-")
        return None, {"result": "err", "trace": []}, viol, {"feasible": True, "solves": solver.n_solves,
                                                            "skip_k": True, "prep": prep}
    answers = [(n, r) for n, r in log if n in ("check-sat", "get-objectives")]
    # --- simulation with plain enumeration
    live, marks, goals = [], [], []          # assertion FNodes; push marks; goal specs (dir, table, signed, width)
    priority = "single-obj"
    expected = []                            # value vectors expected from get-objectives (list of lists)
    ai = 0
    n_checks = 0
    for c in case["script"]:
        k = c[0]
        if k == "priority":
            priority = c[1]
        elif k == "assert":
            live.append(build(c[1], prep.syms, mgr))
        elif k == "push":
            marks.extend([len(live)] * c[1])
        elif k == "pop":
            for _ in range(c[1]):
                live = live[:marks.pop()]
        elif k == "goal":
            g = c[1]
            terms = [build(t, prep.syms, mgr) for t in g["terms"]]
            ty = terms[0].get_type()
            signed = bool(g.get("signed")) and ty.is_bv_type()
            tabs = []
            for t in terms:
                tt = ev.table(t)
                if signed:
                    tt = [sgn(v, ty.width) for v in tt]
                tabs.append(tt)
            if g["kind"] in ("min", "max"):
                tab = tabs[0]
            elif g["kind"] == "minmax":
                tab = [max(r) for r in zip(*tabs)]
            else:
                tab = [min(r) for r in zip(*tabs)]
            goals.append(("min" if g["kind"] in ("min", "minmax") else "max", tab, signed))
        elif k == "check":
            n_checks += 1
            rows = solver.sat_rows(live)
            name, got = answers[ai]
            ai += 1
            if bool(got) != bool(rows):
                report("script-check", "check-sat #%d answered %r, the live assertions are %ssatisfiable (priority %s)"
                       % (n_checks, got, "" if rows else "un", priority), priority=priority)
            if goals:
                if not rows:
                    expected = []
                elif priority == "lex":
                    rr, out = list(rows), []
                    for d, tab, _ in goals:
                        b = best(d, [tab[r] for r in rr])
                        out.append(b)
                        rr = [r for r in rr if tab[r] == b]
                    expected = [out]
                elif priority == "pareto":
                    vecs = set(tuple(tab[r] for _, tab, _ in goals) for r in rows)

                    def dom(a, b):
                        return a != b and all((a[i] <= b[i]) if goals[i][0] == "min" else (a[i] >= b[i])
                                              for i in range(len(goals)))
                    expected = ("pareto", set(v for v in vecs if not any(dom(w, v) for w in vecs)), len(goals))
                else:
                    expected = [[best(d, [tab[r] for r in rows]) for d, tab, _ in goals]]
                exp_goals = list(goals)
        elif k == "get":
            name, got = answers[ai]
            ai += 1
            vals = []
            for (_, v), gspec in zip(got, itertools.cycle(exp_goals if goals else [None])):
                if v.is_bv_constant():
                    vals.append(v.bv_signed_value() if (gspec and gspec[2]) else v.bv_unsigned_value())
                else:
                    vals.append(int(v.constant_value()))
            if isinstance(expected, tuple):
                _, front, ng = expected
                chunks = [tuple(vals[i:i + ng]) for i in range(0, len(vals), ng)]
                ok = len(vals) % ng == 0 and set(chunks) == front and len(chunks) == len(front)
                expd = sorted(front)
            else:
                flat = [x for vec in expected for x in vec]
                ok = vals == flat
                expd = flat
            if not ok:
                report("script-objectives", "get-objectives after check-sat #%d (priority %s, %d goals) reported %s, "
                       "enumeration over the live assertions gives %s" % (n_checks, priority, len(goals), vals, expd),
                       priority=priority, check=("first" if n_checks == 1 else "later"))
    # --- the solver's stack must be the script's stack
    if list(solver.assertions) != live or solver.level_count() != len(marks):
        report("script-stack", "after the script the solver holds %d assertions / %d levels, the script's stack has %d / %d"
               % (len(solver.assertions), solver.level_count(), len(live), len(marks)))
    info = {"feasible": True, "solves": max(2, solver.n_solves), "skip_k": True, "prep": prep}
    return None, {"result": "script", "trace": [text.replace("\n", " ")]}, viol, info


def rand_script(rng, fam):
    """commands of an incremental OMT session: >= 2 check-sat with the assertions changing in between"""
    if fam == "int":
        vars_ = [["x", "int", -3, 4], ["y", "int", -2, 4], ["p", "bool"]]
        pal = [c for c in INT_PALETTE if c != ["ge", ["plus", "x", "y"], ["int", 20]]] + [
            ["ge", "x", ["int", 2]], ["le", "y", ["int", 0]], ["ge", ["plus", "x", "y"], ["int", 3]]]
        pool = [g for g in INT_GOALS if not any("ite" in json.dumps(t) for t in g["terms"])]
        header = [["assert", ["and", ["le", ["int", -3], "x"], ["le", "x", ["int", 4]]]],
                  ["assert", ["and", ["le", ["int", -2], "y"], ["le", "y", ["int", 4]]]]]
    else:
        w = rng.choice([2, 3])
        vars_ = [["a", "bv", w], ["b", "bv", w]]
        pal = [c for c in bv_palette(w)[1:-1]]
        pool = bv_goals(w)
        header = []
    cmds = list(header)
    cmds.append(["priority", rng.choice(["single-obj", "lex", "box", "pareto"])])

    def goal():
        g = dict(rng.choice(pool))
        if rng.random() < 0.3:
            g["id"] = "g%d" % rng.randint(0, 9)
        return ["goal", g]
    for _ in range(rng.randint(1, 3)):
        cmds.append(goal())
    depth = 0
    for rnd in range(rng.randint(2, 3)):
        if rng.random() < 0.5:
            cmds.append(["push", 1])
            depth += 1
        for _ in range(rng.randint(0 if rnd == 0 else 1, 2)):
            cmds.append(["assert", rng.choice(pal)])
        cmds.append(["check"])
        cmds.append(["get"])
        if depth and rng.random() < 0.6:
            cmds.append(["pop", 1])
            depth -= 1
        if rng.random() < 0.2:
            cmds.append(goal())
        if rng.random() < 0.2:
            cmds.append(["priority", rng.choice(["single-obj", "lex", "box", "pareto"])])
    return vars_, cmds


def compare_answer(prep, py_ans, lean_line):
    """None when equal, else a description of the first difference"""
    parts = lean_line.split(" # ")
    if len(parts) != 3:
        return "unparsable model answer %r" % lean_line
    lres, lstate, ltrace = parts
    ltoks = prep.canon_lean_trace(ltrace.split(" ") if ltrace else [])
    ptoks = py_ans["trace"]
    for i, (a, b) in enumerate(zip(ltoks, ptoks)):
        if a != b:
            return "event %d: model %s, implementation %s" % (i, a, b)
    if len(ltoks) != len(ptoks):
        return "event count: model %d (%s), implementation %d (%s)" % (
            len(ltoks), " ".join(ltoks[len(ptoks):][:3]), len(ptoks), " ".join(ptoks[len(ltoks):][:3]))
    pres = py_ans["result"]
    if lres.startswith("err:cast") and pres == "err:cast":
        pass
    elif lres != pres:
        return "result: model %s, implementation %s" % (lres, pres)
    pstate = "lv=%d st=%d calls=%d" % (py_ans["lv"], py_ans["st"], py_ans["calls"])
    if lstate != pstate and not pres.startswith("err:"):
        return "final solver state: model %s, implementation %s" % (lstate, pstate)
    return None


# ---------------------------------------------------------------------------------------------
# generation
# ---------------------------------------------------------------------------------------------
def bv_palette(w):
    top = (1 << w) - 1
    half = 1 << (w - 1)
    c = lambda v: ["bv", v % (1 << w), w]   # noqa
    return [
        ["bool", True],
        ["bvult", "a", "b"],
        ["bvule", "b", "a"],
        ["bvslt", "a", "b"],
        ["not", ["eq", "a", "b"]],
        ["eq", "a", ["bvadd", "b", c(1)]],
        ["eq", ["bvadd", "a", "b"], c(half + 1)],
        ["eq", ["bvand", "a", "b"], c(0)],
        ["bvugt", "a", c(half - 1 if half > 1 else 0)],
        ["bvslt", "b", c(0)],
        ["eq", ["bvxor", "a", "b"], c(top)],
        ["not", ["eq", "a", c(0)]],
        ["bvule", ["bvmul", "a", c(2)], "b"],
        ["or", ["eq", "a", c(top)], ["eq", "b", c(half)]],
        ["bvsge", "a", c(top)],
        ["and", ["bvult", "a", "b"], ["bvult", "b", "a"]],      # unsatisfiable
    ]


def bv_goals(w):
    """single-goal pool for the BV family"""
    c = lambda v: ["bv", v % (1 << w), w]   # noqa
    gs = []
    for signed in (False, True):
        gs.append({"kind": "min", "signed": signed, "terms": ["a"]})
        gs.append({"kind": "max", "signed": signed, "terms": ["a"]})
        gs.append({"kind": "min", "signed": signed, "terms": [["bvadd", "a", "b"]]})
        gs.append({"kind": "max", "signed": signed, "terms": [["bvsub", "b", "a"]]})
        gs.append({"kind": "minmax", "signed": signed, "terms": ["a", "b"]})
        gs.append({"kind": "maxmin", "signed": signed, "terms": ["a", ["bvnot", "b"]]})
        gs.append({"kind": "minmax", "signed": signed, "terms": ["b", ["bvneg", "a"], c(1)]})
    # 4-6 terms, the extreme one in the first half of the list
    top = (1 << w) - 1
    gs.append({"kind": "minmax", "signed": False, "terms": [["bvnot", "a"], "a", "b", c(1)]})
    gs.append({"kind": "maxmin", "signed": True, "terms": ["a", ["bvneg", "b"], ["bvnot", "a"], "b", c(top >> 1)]})
    gs.append({"kind": "minmax", "signed": True, "terms": [["bvsub", "b", "a"], "a", "b", ["bvnot", "b"], c(0), c(top)]})
    gs.append({"kind": "maxmin", "signed": False, "terms": [["bvadd", "a", "b"], "b", ["bvnot", "a"], c(top)]})
    return gs


INT_PALETTE = [
    ["bool", True],
    ["le", ["plus", "x", "y"], ["int", 3]],
    ["ge", ["minus", "x", "y"], ["int", -2]],
    ["ge", "x", ["int", -1]],
    ["eq", ["plus", ["times", ["int", 2], "x"], "y"], ["int", 1]],
    ["not", ["eq", "x", "y"]],
    ["lt", "y", "x"],
    ["or", ["le", "x", ["int", -3]], ["ge", "y", ["int", 2]]],
    ["implies", "p", ["gt", "x", ["int", 1]]],
    ["iff", "p", ["lt", "y", ["int", 0]]],
    ["ge", ["plus", "x", "y"], ["int", 20]],       # unsatisfiable in every declared range
    ["le", ["int", -7], ["minus", "x", ["times", ["int", 2], "y"]]],
]

INT_GOALS = [
    {"kind": "min", "terms": ["x"]},
    {"kind": "max", "terms": ["x"]},
    {"kind": "min", "terms": [["plus", "x", "y"]]},
    {"kind": "max", "terms": [["minus", "x", ["times", ["int", 2], "y"]]]},
    {"kind": "max", "terms": [["plus", "y", ["int", 100]]]},
    {"kind": "min", "terms": [["minus", "y", ["int", 50]]]},
    {"kind": "minmax", "terms": ["x", "y"]},
    {"kind": "maxmin", "terms": ["x", ["minus", ["int", 1], "y"]]},
    {"kind": "minmax", "terms": ["x", ["minus", ["int", 0], "x"], "y"]},
    {"kind": "min", "terms": [["ite", "p", "x", ["plus", "y", ["int", 1]]]]},
    # 4-6 terms, the extreme one in the first half of the list
    {"kind": "minmax", "terms": [["minus", ["int", 4], "x"], ["int", 1], "x", ["int", 0]]},
    {"kind": "maxmin", "terms": ["x", ["minus", "y", ["int", 3]], ["minus", ["int", 2], "x"], "y", ["int", 7]]},
    {"kind": "minmax", "terms": ["y", ["minus", "x", "y"], "x", ["minus", ["int", 0], "y"], ["int", -2], ["int", 3]]},
    {"kind": "maxmin", "terms": [["minus", ["int", 0], "x"], "x", ["int", 5], ["plus", "y", ["int", 9]]]},
]

BOOL_PALETTE = [
    ["bool", True],
    ["or", "p", "q"],
    ["or", ["not", "p"], ["not", "q"]],
    ["implies", "p", "r"],
    ["xor", "q", "r"],
    ["or", ["not", "r"], "q", "p"],
    ["and", "p", ["not", "p"]],
    ["iff", "p", ["and", "q", "r"]],
]

SOFT_CLAUSES = ["p", "q", "r", ["not", "p"], ["not", "q"], ["and", "p", "q"], ["or", "q", "r"],
                ["iff", "p", "r"], ["not", ["or", "p", "r"]]]

UNSUPPORTED_GOALS = [   # F24b: Int objective whose term mentions bit-vectors
    ({"kind": "min", "terms": [["ite", ["bvult", "a", "b"], ["int", 1], ["int", 2]]]}, "bv"),
    ({"kind": "max", "terms": [["bv2nat", "a"]]}, "bv"),
    ({"kind": "maxsmt", "soft": [[["bvult", "a", "b"], 2], [["eq", "a", ["bv", 1, 2]], 3]], "real": False}, "bv"),
]


def subsets_upto2(n):
    for i in range(n):
        yield (i,)
    for i in range(n):
        for j in range(i + 1, n):
            yield (i, j)


def rand_maxsmt(rng, real=False):
    k = rng.randint(1, 4)
    soft = []
    for _ in range(k):
        c = rng.choice(SOFT_CLAUSES)
        if real:
            w = str(Fraction(rng.randint(-2, 9), rng.choice([1, 2, 3, 4])))
            form = rng.choice(["fnode", "fnode", "py", "fraction", "float"])
        else:
            w = rng.choice([0, 1, 1, 2, 3, 5, 7, -1, 10])
            form = rng.choice(["fnode", "py"])
        soft.append([c, w, form])
    return {"kind": "maxsmt", "soft": soft, "real": real}


def rand_reuse(rng, real):
    """a MaxSMT goal that is optimised, extended, optimised again (2-3 stages)"""
    g = rand_maxsmt(rng, real)
    soft = list(g["soft"])
    stages = [len(soft)]
    for _ in range(rng.randint(1, 2)):
        extra = rand_maxsmt(rng, real)["soft"][:rng.randint(1, 2)]
        for e in extra:
            # the later clauses are heavy enough to move the optimum
            if not real:
                e[1] = rng.choice([2, 3, 5, 7, 10, 12])
            soft.append(e)
        stages.append(len(soft))
    return {"real": real, "soft": soft, "stages": stages, "touch": rng.choice(["none", "term", "logic"])}


CHOOSERS = ["first", "random", "random", "worst", "best"]


def gen_cases(ctx):
    """Yields (family, case).  The exhaustive BV grid interleaved 3:1 with the sampled families
    (so that every budget sees all families), then sampled cases only."""
    for item in _gen_focus(ctx):
        yield item
    grid = _gen_grid(ctx)
    samp = _gen_sampled(ctx)
    k = 0
    for item in grid:
        yield item
        k += 1
        if k % 3 == 0:
            yield next(samp)
    ctx.extra["grid_cases"] = k
    ctx.extra["grid_complete"] = True
    for item in samp:
        yield item


def _mk(rng, vars_, asserts, goals, routine, strat, mixin):
    return {"vars": vars_, "asserts": asserts, "goals": goals, "routine": routine,
            "strategy": strat, "mixin": mixin, "chooser": rng.choice(CHOOSERS),
            "seed": rng.getrandbits(30)}


PRE_CALLS = ["is_sat", "is_valid", "is_unsat"]


def _with_history(rng, case, asserts_pool, goal_pool):
    """is_sat/is_valid/is_unsat immediately before the routine, probes after it"""
    q = rng.choice(asserts_pool) if asserts_pool else ["bool", True]
    if rng.random() < 0.3:
        q = ["not", q]
    case["pre"] = {"call": rng.choice(PRE_CALLS), "query": q}
    case["probe"] = rng.choice(goal_pool)
    return case


def _huge_domains():
    """(name, var spec without candidates, candidate values, bits)"""
    offs = [0, 1, 2, 5, 6, 11, 12, 13]
    out = []
    for name, base in (("2^80", 2 ** 80), ("-2^80", -(2 ** 80)), ("10^30", 10 ** 30), ("-10^30", -(10 ** 30)),
                       ("2^64", 2 ** 64 - 7), ("2^53", 2 ** 53 - 3)):
        out.append((name, ["x", "int"], [base + k for k in offs], abs(base).bit_length() + 2))
    out.append(("mixed", ["x", "int"], [-(2 ** 70) - 1, -(2 ** 70), -3, 0, 2 ** 60 + 1, 2 ** 75, 2 ** 75 + 1], 80))
    for w, sel in ((64, "top"), (64, "mid"), (300, "top"), (300, "bottom"), (200, "signed")):
        top = (1 << w) - 1
        if sel == "top":
            vals = [top - k for k in offs] + [0]
        elif sel == "mid":
            vals = [(1 << (w - 1)) + k - 6 for k in offs] + [3, top]
        elif sel == "bottom":
            vals = offs + [17]
        else:           # values next to both ends of the signed range
            vals = [(1 << (w - 1)) + k for k in offs[:4]] + [(1 << (w - 1)) - 1 - k for k in offs[:4]] + [0, top]
        out.append(("bv%d-%s" % (w, sel), ["a", "bv", w], sorted(set(vals)), w + 2))
    return out


def _gen_huge(rng, reps):
    strategies = ["linear", "binary"]
    mixins = ["sua", "incr"]
    for name, var, cands, bits in _huge_domains():
        isbv = var[1] == "bv"
        v = var[0]
        w = var[2] if isbv else None
        const = (lambda c: ["bv", c, w]) if isbv else (lambda c: ["int", c])
        vars_ = [var + [cands]] if isbv else [[v, "int", cands]]
        member = ["or"] + [["eq", v, const(c)] for c in cands]
        signed_opts = [False, True] if isbv else [False]
        for _ in range(reps):
            for st in strategies:
                for m in mixins:
                    for kind in ("min", "max"):
                        signed = rng.choice(signed_opts) if name != "bv200-signed" else True
                        asserts = [member]
                        if rng.random() < 0.5:
                            asserts.append(["not", ["eq", v, const(rng.choice(cands))]])
                        goal = {"kind": kind, "signed": signed, "terms": [v]}
                        if not isbv and rng.random() < 0.4:
                            goal = {"kind": kind, "terms": [["plus", v, ["int", rng.choice([-(2 ** 64), 10 ** 20, 7])]]]}
                        c = _mk(rng, vars_, asserts, [goal], "single", st, m)
                        c["bits"] = bits + 70
                        yield c
            # multi-objective on the same domains (binary)
            g1 = {"kind": "max", "signed": name == "bv200-signed", "terms": [v]}
            g2 = {"kind": "min", "signed": False, "terms": [v]}
            for routine in ("lexi", "boxed", "pareto"):
                c = _mk(rng, vars_, [member], [g1, g2], routine, "binary", rng.choice(mixins))
                c["bits"] = bits + 70
                yield c


def _gen_focus(ctx):
    """Targeted streams that every budget sees first:
    (a) lexicographic optimisation over wide domains (several bisection steps per goal), 2-3 goals,
        min/max mixes, Int and BV, every mix-in x strategy;
    (b) histories: a satisfiability query immediately followed by every routine, then probes."""
    rng = ctx.rng
    quick = ctx.tier == "quick"
    strategies = ["linear", "binary"]
    mixins = ["sua", "incr"]

    def mk(*a):
        return _mk(rng, *a)

    int_vars = [["x", "int", -8, 8], ["y", "int", -6, 9], ["p", "bool"]]
    int_box = [["and", ["le", ["int", -8], "x"], ["le", "x", ["int", 8]]],
               ["and", ["le", ["int", -6], "y"], ["le", "y", ["int", 9]]]]
    int_goals = [g for g in INT_GOALS] + [
        {"kind": "max", "terms": [["plus", "x", "y"]]},
        {"kind": "min", "terms": [["minus", ["times", ["int", 3], "y"], "x"]]},
        {"kind": "max", "terms": [["minus", ["times", ["int", 2], "x"], "y"]]},
        {"kind": "min", "terms": ["y"]}, {"kind": "max", "terms": ["y"]},
    ]
    int_side = [c for c in INT_PALETTE if c != ["ge", ["plus", "x", "y"], ["int", 20]]]
    reps = 1 if quick else 4
    for _ in range(reps):
        for m in mixins:
            for st in strategies:
                for ngoals in (2, 2, 3):
                    for chooser in ("first", "random", "worst", "best"):
                        # Int, 17 x 16 values
                        asserts = int_box + rng.sample(int_side, rng.randint(0, 2))
                        c = mk(int_vars, asserts, rng.sample(int_goals, ngoals), "lexi", st, m)
                        c["chooser"] = chooser
                        yield "lexi-wide", c
                        # BV width 4
                        w = 4
                        vars_ = [["a", "bv", w], ["b", "bv", w]]
                        c = mk(vars_, rng.sample(bv_palette(w)[:-1], rng.randint(0, 2)),
                               rng.sample(bv_goals(w), ngoals), "lexi", st, m)
                        c["chooser"] = chooser
                        yield "lexi-wide", c
    # extreme but legal values: Int objectives around +-2**80 / +-10**30, wide bit-vectors
    for case in _gen_huge(rng, reps):
        yield "huge", case
    # OMT scripts through SmtLibParser + SmtLibScript.evaluate (InterpreterOMT)
    for m in mixins:
        for fam in ("int", "bv"):
            for _ in range(12 * reps):
                vars_, cmds = rand_script(rng, fam)
                c = mk(vars_, [], [], "script", "linear", m)
                c["script"] = cmds
                yield "script", c
    # abandoned Pareto generators (F24d)
    for m in mixins:
        for take in (1, 2, 3):
            for _ in range(2 * reps):
                w = rng.choice([2, 3])
                vars_ = [["a", "bv", w], ["b", "bv", w]]
                c = mk(vars_, rng.sample(bv_palette(w)[:-1], rng.randint(0, 2)), rng.sample(bv_goals(w), 2),
                       "ptake", "linear", m)
                c["take"] = take
                yield "history", c
    # histories
    small_vars = [["x", "int", -3, 3], ["y", "int", -2, 4], ["p", "bool"]]
    small_box = [["and", ["le", ["int", -3], "x"], ["le", "x", ["int", 3]]],
                 ["and", ["le", ["int", -2], "y"], ["le", "y", ["int", 4]]]]
    for _ in range(reps):
        for routine in ("single", "boxed", "lexi", "pareto"):
            for m in mixins:
                for st in strategies:
                    for call in PRE_CALLS:
                        if rng.random() < 0.5:
                            asserts = small_box + rng.sample(int_side, rng.randint(0, 2))
                            vars_, pool, apool = small_vars, INT_GOALS, int_side
                        else:
                            w = rng.choice([2, 3])
                            vars_ = [["a", "bv", w], ["b", "bv", w]]
                            apool = bv_palette(w)[:-1]
                            asserts = rng.sample(apool, rng.randint(0, 2))
                            pool = bv_goals(w)
                        gs = [rng.choice(pool)] if routine == "single" else rng.sample(pool, 2)
                        c = _with_history(rng, mk(vars_, asserts, gs, routine, st, m), apool, pool)
                        c["pre"]["call"] = call
                        yield "history", c


def _gen_grid(ctx):
    rng = ctx.rng
    quick = ctx.tier == "quick"
    strategies = ["linear", "binary"]
    mixins = ["sua", "incr"]

    def mk(*a):
        return _mk(rng, *a)

    # (E) exhaustive: every system of <= 2 palette constraints over two BV variables
    widths = [2, 3] if quick else [1, 2, 3]
    for w in widths:
        pal = bv_palette(w)
        pool = bv_goals(w)
        vars_ = [["a", "bv", w], ["b", "bv", w]]
        for sub in subsets_upto2(len(pal)):
            asserts = [pal[i] for i in sub]
            if quick:
                # every system x every goal kind, strategy/mix-in rotated; thorough: full product
                for gi, g in enumerate(pool):
                    k = (gi + sum(sub)) % 4
                    yield "grid", mk(vars_, asserts, [g], "single", strategies[k & 1], mixins[k >> 1])
            else:
                for g in pool:
                    for s in strategies:
                        for m in mixins:
                            yield "grid", mk(vars_, asserts, [g], "single", s, m)
            # multi-objective modes on every system
            n_multi = 2 if quick else 6
            for _ in range(n_multi):
                gs = rng.sample(pool, rng.choice([1, 2, 2, 2, 3]))
                for routine in ("boxed", "lexi", "pareto"):
                    yield "grid", mk(vars_, asserts, gs, routine, rng.choice(strategies), rng.choice(mixins))
        # this width is complete
        done = ctx.extra.setdefault("exhaustive_widths", [])
        done.append(w)
        ctx.extra["exhaustive"] = True
        ctx.extra["exhaustive_what"] = ("all systems of <= 2 constraints from a %d-element palette over two BV "
                                        "variables of width %s x %d single-goal kinds%s, plus sampled "
                                        "multi-objective calls on every system"
                                        % (len(pal), done, len(pool),
                                           " (strategy/mix-in rotated)" if quick else " x strategy x mix-in"))



def _gen_sampled(ctx):
    """sampled families, endless"""
    rng = ctx.rng
    strategies = ["linear", "binary"]
    mixins = ["sua", "incr"]

    def mk(*a):
        return _mk(rng, *a)

    while True:
        fam = rng.choice(["int", "int", "int", "bool", "bool", "mixed", "bv3", "unsupported"])
        routine = rng.choice(["single", "single", "boxed", "lexi", "pareto"])
        strat = rng.choice(strategies)
        mixin = rng.choice(mixins)
        if fam == "int":
            lo = rng.choice([-6, -4, -3, 0, 2])
            hi = lo + rng.randint(2, 9)
            lo2 = rng.choice([-5, -2, 0, 1])
            hi2 = lo2 + rng.randint(1, 8)
            vars_ = [["x", "int", lo, hi], ["y", "int", lo2, hi2], ["p", "bool"]]
            asserts = [["and", ["le", ["int", lo], "x"], ["le", "x", ["int", hi]]],
                       ["and", ["le", ["int", lo2], "y"], ["le", "y", ["int", hi2]]]]
            asserts += rng.sample(INT_PALETTE, rng.randint(0, 3))
            pool = INT_GOALS
        elif fam == "bool":
            vars_ = [["p", "bool"], ["q", "bool"], ["r", "bool"]]
            asserts = rng.sample(BOOL_PALETTE, rng.randint(0, 3))
            real = (strat == "linear") and rng.random() < 0.3
            if routine in ("single", "boxed") or rng.random() < 0.1:
                pool = [rand_maxsmt(rng, real) for _ in range(3)]
            else:
                pool = [{"kind": rng.choice(["min", "max"]),
                         "terms": [["plus"] + [["ite", c, ["int", rng.randint(-3, 6)], ["int", 0]]
                                               for c in rng.sample(SOFT_CLAUSES, 2)]]} for _ in range(3)]
        elif fam == "mixed":
            w = rng.choice([2, 3])
            vars_ = [["a", "bv", w], ["b", "bv", w], ["x", "int", -3, 4], ["p", "bool"]]
            asserts = [["and", ["le", ["int", -3], "x"], ["le", "x", ["int", 4]]]]
            asserts += rng.sample(bv_palette(w), rng.randint(0, 2))
            asserts += rng.sample([["implies", "p", ["bvult", "a", "b"]],
                                   ["le", "x", ["bv2nat", "a"]],
                                   ["iff", "p", ["lt", "x", ["int", 0]]]], rng.randint(0, 2))
            pool = bv_goals(w) + [{"kind": "min", "terms": ["x"]}, {"kind": "max", "terms": ["x"]},
                                  {"kind": "maxsmt", "soft": [["p", 2], [["not", "p"], 1]], "real": False}]
        elif fam == "bv3":
            w = 3
            vars_ = [["a", "bv", w], ["b", "bv", w], ["c", "bv", 2]]
            asserts = rng.sample(bv_palette(w), rng.randint(1, 3)) + rng.sample(
                [["bvult", ["bvzext", "c", 1], "a"], ["not", ["eq", "c", ["bv", 0, 2]]],
                 ["eq", ["bvextract", "b", 0, 1], "c"]], rng.randint(0, 1))
            pool = bv_goals(w) + [{"kind": "max", "signed": True, "terms": ["c"]},
                                  {"kind": "min", "signed": False, "terms": [["bvconcat", "c", ["bvextract", "a", 0, 0]]]}]
        else:
            w = 2
            vars_ = [["a", "bv", w], ["b", "bv", w]]
            asserts = rng.sample(bv_palette(w), rng.randint(0, 2))
            pool = [g for g, _ in UNSUPPORTED_GOALS]
            routine = rng.choice(["single", "boxed"])
        if routine == "single":
            gs = [rng.choice(pool)]
        else:
            gs = rng.sample(pool, min(len(pool), rng.choice([1, 2, 2, 3])))
            if routine in ("lexi", "pareto") and rng.random() < 0.93:
                gs = [g for g in gs if g["kind"] != "maxsmt"] or [g for g in pool if g["kind"] != "maxsmt"][:1]
                if not gs:
                    routine = "boxed"
                    gs = [rng.choice(pool)]
        if routine != "single" and rng.random() < 0.01:
            gs = []            # F24c: lexicographic / pareto with no goal at all
        if routine == "pareto" and gs and rng.random() < 0.4 and not any(g["kind"] == "maxsmt" for g in gs):
            c = mk(vars_, asserts, gs, "ptake", strat, mixin)
            c["take"] = rng.choice([1, 1, 2, 3])
            yield fam, c
            continue
        if fam != "unsupported" and gs and rng.random() < 0.2:
            yield fam, _with_history(rng, mk(vars_, asserts, gs, routine, strat, mixin), asserts, pool)
            continue
        if fam in ("int", "bv3") and rng.random() < 0.12:
            v2, cmds = rand_script(rng, "int" if fam == "int" else "bv")
            c = mk(v2, [], [], "script", "linear", mixin)
            c["script"] = cmds
            yield "script", c
            continue
        if fam == "bool" and rng.random() < 0.35:
            # goal reuse: optimise, add soft clauses to the same goal object, optimise again
            case = mk(vars_, asserts, [], "reuse", strat, mixin)
            case["reuse"] = rand_reuse(rng, (strat == "linear") and rng.random() < 0.3)
            yield "reuse", case
            continue
        yield fam, mk(vars_, asserts, gs, routine, strat, mixin)


# ---------------------------------------------------------------------------------------------
# OptSearchInterval, method by method (K only)
# ---------------------------------------------------------------------------------------------
def interval_grid(ctx):
    """Compare OptSearchInterval's methods with the model on a grid of bounds."""
    env = get_env()
    mgr = env.formula_manager
    x = mgr.Symbol("c18_ix", INT)
    a = mgr.Symbol("c18_ia", BVType(3))
    vals = [None, -5, -2, -1, 0, 1, 2, 3, 4, 7, 8, 9]
    reqs, exps, descr = [], [], []
    # pivots for extreme but legal bounds (beyond 2**53: no float may be involved), compared exactly
    huge = [None, -(10 ** 30), -(2 ** 80) - 1, -(2 ** 64), -(2 ** 53) - 1, -1, 0, 2 ** 53 + 1, 2 ** 63, 2 ** 64 - 1,
            2 ** 80, 2 ** 80 + 1, 10 ** 30 + 7, 2 ** 199, 2 ** 300 - 2]
    for dom, term in (("i", x), ("u64", mgr.Symbol("c18_ia64", BVType(64))),
                      ("u300", mgr.Symbol("c18_ia300", BVType(300))), ("s200", mgr.Symbol("c18_ia200", BVType(200)))):
        for d in ("min", "max"):
            goal = (MinimizationGoal if d == "min" else MaximizationGoal)(term, dom.startswith("s"))
            gs = "%s:%s:1" % (d, dom)
            iv = OptSearchInterval(goal, env, [])
            reqs.append("iv init " + gs)
            exps.append("%s %s" % (sh(iv._lower), sh(iv._upper)))
            descr.append(("init", gs))
            for l, u in itertools.product(huge, huge):
                iv = OptSearchInterval(goal, env, [])
                iv._lower, iv._upper = l, u
                reqs.append("iv pivot %s %s %s" % (gs, sh(l), sh(u)))
                exps.append(str(iv._compute_pivot()))
                descr.append(("pivot", gs, l, u))
    for dom, term in (("i", x), ("u3", a), ("s3", a)):
        for d in ("min", "max"):
            cls = MinimizationGoal if d == "min" else MaximizationGoal
            goal = cls(term, dom == "s3")
            gs = "%s:%s:1" % (d, dom)
            iv = OptSearchInterval(goal, env, [])
            reqs.append("iv init " + gs)
            exps.append("%s %s" % (sh(iv._lower), sh(iv._upper)))
            descr.append(("init", gs))
            for l, u in itertools.product(vals, vals):
                reqs.append("iv pivot %s %s %s" % (gs, sh(l), sh(u)))
                iv = OptSearchInterval(goal, env, [])
                iv._lower, iv._upper = l, u
                exps.append(str(iv._compute_pivot()))
                descr.append(("pivot", gs, l, u))
                for strat in ("linear", "binary"):
                    for what, v in (("unsat", 0), ("sat", -3), ("sat", 0), ("sat", 2), ("sat", 3)):
                        if dom == "u3" and v < 0:
                            continue
                        iv = OptSearchInterval(goal, env, [])
                        iv._lower, iv._upper = l, u
                        cast_ok = True
                        bound = None
                        try:
                            cut = iv.linear_search_cut() if strat == "linear" else iv.binary_search_cut()
                        except PysmtValueError:
                            cast_ok = False
                            cut = None
                        except Exception:      # mgr.Int(None) etc.
                            cast_ok = False
                            cut = None
                        if strat == "linear":
                            bound = u if d == "min" else l
                        else:
                            bound = iv._pivot
                        if cut is not None:
                            # the constant inside the cut must denote `bound`
                            cc = cut.arg(1) if cut.arg(1).is_constant() else cut.arg(0)
                            cv = (cc.bv_signed_value() if dom == "s3" else cc.bv_unsigned_value()) \
                                if cc.is_bv_constant() else cc.constant_value()
                            if cv != bound:
                                cast_ok = "wrong-constant"
                        if what == "sat":
                            val = mgr.Int(v) if dom == "i" else (mgr.SBV(v, 3) if dom == "s3" else mgr.BV(v, 3))
                            iv.search_is_sat(EagerModel({term: val}, env))
                        else:
                            iv.search_is_unsat()
                        reqs.append("iv step %s %s %s %s %s %s" % (gs, strat, sh(l), sh(u), what, v))
                        exps.append("%s %s %s %s %s" % (sh(iv._lower), sh(iv._upper), sh(bound),
                                                        "true" if iv.empty() else "false",
                                                        {True: "true", False: "false"}.get(cast_ok, cast_ok)))
                        descr.append(("step", gs, strat, l, u, what, v))
    return reqs, exps, descr


def sh(v):
    return "N" if v is None else str(v)


# ---------------------------------------------------------------------------------------------
# entry points
# ---------------------------------------------------------------------------------------------
def _nontrivial_key(case, info):
    if info["feasible"] and info["solves"] >= 2:
        return json.dumps(case, sort_keys=True)
    return None


def _flush(ctx, batch, lean_ok):
    """batch: list of (case, req, py_ans, prep).  Runs the model and compares."""
    if not batch or not lean_ok[0]:
        return
    reqs = [b[1] for b in batch]
    try:
        answers = ctx.lean_run_sharded("C18", reqs)
    except common.LeanError as e:
        ctx.report_l("driver C18 does not run", str(e))
        lean_ok[0] = False
        return
    for (case, req, py_ans, prep), ans in zip(batch, answers):
        diff = compare_answer(prep, py_ans, ans)
        if diff is not None:
            ctx.report_k("optimizer model and implementation differ: " + diff,
                         {"case": case, "request": req, "model_answer": ans,
                          "implementation": {k: v for k, v in py_ans.items()}})
            ctx.count("k_divergence")


def _spec_queries(prep, case):
    """spec queries for the Lean specification (cross-check of the harness oracles)"""
    rows = prep.feasible
    n = len(prep.goals)
    if n == 0 or any(s != 1 for s in prep.scale):
        return []
    vecs = ";".join(",".join(str(prep.tables[g][r]) for g in range(n)) for r in rows)
    ds = ",".join(prep.dirs)
    out = []
    if not rows:
        return out
    if case["routine"] == "lexi":
        exp = lex_opt(prep, rows)
        out.append(("spec lex %s %s" % (ds, vecs), ",".join(str(v) for v in exp)))
    elif case["routine"] == "pareto":
        exp = sorted(pareto_front(prep, rows))
        out.append(("spec pareto %s %s" % (ds, vecs), ";".join(",".join(str(v) for v in e) for e in exp)))
    else:
        for g in range(n):
            vals = [prep.tables[g][r] for r in rows]
            out.append(("spec opt %s %s" % (prep.dirs[g], ",".join(str(v) for v in vals)),
                        str(best(prep.dirs[g], vals))))
    return out


def run(ctx):
    brute.register(get_env())
    lean_ok = [True]
    budget = (50 if ctx.tier == "quick" else 780) if not os.environ.get("C18_BUDGET") else int(os.environ["C18_BUDGET"])
    # the budget counts from the end of the Lean build/audit (a slow build must not eat it)
    t_end = getattr(ctx, "t_run", ctx.t0) + budget

    # --- OptSearchInterval grid (K)
    reqs, exps, descr = interval_grid(ctx)
    try:
        ans = ctx.lean_run_sharded("C18", reqs)
        for r, e, a, d in zip(reqs, exps, ans, descr):
            ctx.case(("iv",) + tuple(str(x) for x in d) if d[0] != "init" else None)
            ctx.count("interval_grid")
            if e != a:
                ctx.report_k("OptSearchInterval differs from the model on %r: model %s, implementation %s" % (d, a, e),
                             {"request": r, "model_answer": a, "implementation": e})
    except common.LeanError as e:
        ctx.report_l("driver C18 does not run", str(e))
        lean_ok[0] = False

    # --- optimisation routines (K + S)
    batch = []
    spec_batch = []
    ctx.extra["exhaustive"] = False
    n_routine = 0
    n_guard = [0]
    ctx._c18_guard = n_guard
    for fam, case in gen_cases(ctx):
        # the targeted streams always run completely (a few seconds), whatever the load
        if fam not in ("lexi-wide", "history", "script", "huge") and time.time() > t_end:
            break
        n_routine += 1
        # circuit breaker: a tree on which many searches hit the call-count guard (each costs
        # thousands of solve calls) has failed already; do not let the run drag on
        if n_guard[0] > 8 or len(ctx.s_violations) > 5000:
            ctx.extra["stopped_early"] = "too many violations (%d guard hits)" % n_guard[0]
            break
        _one(ctx, fam, case, batch, spec_batch)
        if len(batch) >= 4000:
            _flush(ctx, batch, lean_ok)
            batch = []
    _flush(ctx, batch, lean_ok)
    if n_routine < 500:
        ctx.infra("only %d optimisation cases were executed within the budget: too few to pass" % n_routine)
    # --- Lean specification vs harness oracles
    if lean_ok[0] and spec_batch:
        try:
            ans = ctx.lean_run_sharded("C18", [q for q, _ in spec_batch])
            for (q, e), a in zip(spec_batch, ans):
                ctx.count("spec_queries")
                if a != e:
                    ctx.report_k("Lean specification and harness oracle differ: spec %s, harness %s" % (a, e),
                                 {"request": q, "model_answer": a, "implementation": e})
        except common.LeanError as e:
            ctx.report_l("driver C18 does not run", str(e))


def _one(ctx, fam, case, batch, spec_batch):
    try:
        if case["routine"] == "reuse":
            req, py_ans, viol, info = run_reuse_case(case)
        elif case["routine"] == "script":
            req, py_ans, viol, info = run_script_case(case)
        else:
            req, py_ans, viol, info = run_case(case)
    except Exception as e:      # harness problem, not an implementation outcome
        ctx.infra("case crashed in the harness: %r on %s" % (e, json.dumps(case)))
        return
    ctx.case(_nontrivial_key(case, info))
    ctx.count("family:" + fam)
    ctx.count("routine:" + case["routine"])
    ctx.count("mixin:" + case["mixin"] + "/" + case["strategy"])
    ctx.count("feasible" if info["feasible"] else "infeasible")
    ctx.count("solves", info["solves"])
    for g in case["goals"]:
        ctx.count("goal:" + g["kind"] + ("/signed" if g.get("signed") else ""))
    if info["solves"] >= 2 and len(ctx.samples) < 6 and ctx.evaluations % 97 == 0:
        ctx.sample({"case": case, "result": py_ans["result"], "events": " ".join(py_ans["trace"])})
    for sig, what in viol:
        ctx.report_s(sig, what, {"case": case})
        if sig.get("exc") == "BruteBudgetExceeded" and getattr(ctx, "_c18_guard", None) is not None:
            ctx._c18_guard[0] += 1
    if not info["skip_k"]:
        batch.append((case, req, py_ans, info["prep"]))
        if ctx.evaluations % 5 == 0:
            spec_batch.extend(_spec_queries(info["prep"], case))


def _replay_grid(ctx):
    reqs, exps, descr = interval_grid(ctx)
    try:
        ans = ctx.lean_run_sharded("C18", reqs)
    except common.LeanError as e:
        ctx.report_l("driver C18 does not run", str(e))
        return
    for r, e, a, d in zip(reqs, exps, ans, descr):
        ctx.case(None)
        if e != a:
            ctx.report_k("OptSearchInterval differs from the model on %r: model %s, implementation %s" % (d, a, e),
                         {"request": r, "model_answer": a, "implementation": e})
            print("interval grid: %s -> model %s, implementation %s" % (r, a, e))


def replay(ctx, rep):
    """Re-run exactly the stored case(s): a failing input (`replay.case`) or, for a
    correspondence-only record, every stored diverging case / the interval grid."""
    brute.register(get_env())
    cases = []
    r = rep.get("replay") or {}
    if r.get("case") is not None:
        cases.append(r["case"])
    grid = False
    for k in rep.get("broken_correspondence") or []:
        kr = k.get("replay") if isinstance(k, dict) else None
        if isinstance(kr, dict):
            if kr.get("case") is not None:
                if kr["case"] not in cases:
                    cases.append(kr["case"])
            elif str(kr.get("request", "")).startswith("iv "):
                grid = True
    if grid:
        _replay_grid(ctx)
    if not cases and not grid:
        ctx.infra("replay file contains no case")
        return
    for case in cases:
        batch, spec_batch = [], []
        _one(ctx, "replay", case, batch, spec_batch)
        _flush(ctx, batch, [True])
        req, py_ans, viol, info = {"reuse": run_reuse_case, "script": run_script_case}.get(case["routine"], run_case)(case)
        print("replayed case: %s" % json.dumps(case))
        print("implementation: result=%s events=%s" % (py_ans["result"], " ".join(py_ans["trace"])))
        for sig, what in viol:
            print("violation: %s  %s" % (what, json.dumps(sig, sort_keys=True)))
    for k in ctx.k_divergences:
        print("correspondence: %s" % k["what"])
