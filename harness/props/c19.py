"""C19 -- Portfolio: the answer does not depend on the race, and the call never blocks for ever.

K (set-valued correspondence).  The real `pysmt.solvers.portfolio.Portfolio` runs with 2-4 instances of the solver
class `C19Member` (below; pure Python, brute force over the Boolean variables, per-member delay / failure mode /
choice of model).  For every `solve()` the observed outcome (verdict, exception class, or "blocked") must be an
element of the outcome set that the Lean transition system (`lean/PySMT/Impl/Portfolio.lean`, explored
exhaustively by `Drivers/C19.lean`) allows for that member configuration; after a "sat" verdict the member kept
as `_ext_solver` must be one that answers, every other member process must be gone (`losers_dead`), and
`get_model` / `get_value` must be served by that member (`serve_from_winner`).

S (search, oracle independent of the model).  Directly from the property text, with the truth value of the
assertions computed by the harness' own evaluator:
  * a verdict must be the truth value of the asserted formulas;
  * without exit_on_exception, if some member answers the call must return (failing / unknown / dead members
    do not matter); with exit_on_exception it may instead raise the exception of a failing member;
  * if no member answers the call must raise -- it must never block (F25);
  * a model, and the combination of the values of successive `get_value` calls, must satisfy the assertions.

Every configuration runs in a forked worker that is its own session, so that a blocked call can be killed together
with all member processes; "blocked" means: no step finished for BLOCK_S seconds although no member process is
alive any more (a certain deadlock), or for HARD_S seconds in any case.
"""
import json
import os
import select
import signal
import sys
import time

sys.path.insert(0, os.path.dirname(os.path.dirname(os.path.abspath(__file__))))
import common

LEAN_MODULES = ["PySMT.Props.C19"]
# Changed-source escalation (a second round when changed anchored lines were not executed) is switched off: the
# anchored code of C19 runs in forked workers and in the member processes, whose executed lines the runner's
# per-process line coverage cannot see -- it would always report them as unreached and double every run on a changed tree.
ESCALATE = False
RULE = ("configuration = exit_on_exception x 2-4 members (mode answer/raise/unknown/exit, delay 0-50 ms, model pick) x "
        "script of assert/push/pop/solve/is_sat/is_valid/is_unsat/get_model/get_values over random Boolean formulas "
        "(verdicts and values are judged against the live assertion stack tracked by the harness); all 2-member mode pairs "
        "are enumerated, the rest is drawn from VERIF_SEED.  Non-trivial: at least one member fails, or two "
        "answering members finish within 2 ms of each other (a real race).")
ASSUMPTIONS = [
    "A1 (OS.killAtomic, hypothesis of serve_from_winner / model_satisfies / no_deadlock_query): a member that has been "
    "terminate()d cannot consume a control message sent afterwards (Linux: a signalled reader of an AF_UNIX socket "
    "returns before it looks at the queue again; a reader between system-call entry and its first look is not covered)",
    "A2: a member that returns from _run_solver exits only after its queued message is written to the pipe "
    "(multiprocessing joins the feeder thread at exit); is_alive() is false only after the exit",
    "A3: multiprocessing.Queue / Pipe are reliable FIFO channels; terminate() of a dead process is a no-op",
    "A4: every member's solve() ends (answer, exception or death); a member that hangs for ever is outside the property",
    "member solvers that answer are correct and agree (they are the harness' brute-force solver)",
    "schedules of the real system are sampled (delays 0-50 ms incl. ties), never enumerated; the theorems cover all "
    "schedules of the model only",
]

BLOCK_S = 10.0       # no progress for this long and no live member process => blocked
HARD_S = 30.0        # no progress for this long => blocked in any case
MODES = ("answer", "raise", "unknown", "exit")
SOLVE_OPS = ("solve", "is_sat", "is_valid", "is_unsat")
# further ways in which a member can end without a verdict: SystemExit (sys.exit() inside solve()), KeyboardInterrupt and
# another BaseException (none of them is an Exception: the child process just ends), and a solve() that returns
# something that is not a bool (reported as UnknownSolverAnswerError since the F25c repair)
EXTRA_FAIL_MODES = ("sysexit0", "sysexit1", "kbdint", "baseexc", "nonbool_none", "nonbool_str")
FAIL_POOL = ("raise", "unknown", "exit") * 3 + EXTRA_FAIL_MODES
ANY_POOL = ("answer",) * 5 + FAIL_POOL
MODE_LETTER = {"raise": "R", "unknown": "U", "exit": "C", "sysexit0": "C", "sysexit1": "C", "kbdint": "C",
               "baseexc": "C", "nonbool_none": "N", "nonbool_str": "N"}
# members that are SMT-LIB wrappers: "answer", "unknown", "crash" (the wrapped process dies before it answers check-sat:
# the wrapper reads end-of-file and raises UnknownSolverAnswerError), "crash_after" (it answers, then dies: the member
# counts as answering, its later get_value fails)
MODE_LETTER["crash"] = "N"
ANSWERING = ("answer", "crash_after")
SILENT_MODES = ("exit", "sysexit0", "sysexit1", "kbdint", "baseexc")
DELAYS = (0, 0, 0, 1, 2, 5, 10, 20, 50)
# the repaired loop polls the queue every 100 ms: members that finish around a multiple of the polling interval
# exercise the path "time-out, then look whether anybody is alive, then look into the queue once more"
POLL_DELAYS = (92, 96, 98, 100, 102, 104, 108, 198, 202)
NVARS = 3


# --------------------------------------------------------------------------- formulas (harness-side AST + oracle)
def gen_formula(rng, depth=3):
    if depth == 0 or rng.random() < 0.25:
        return ["var", rng.randrange(NVARS)]
    op = rng.choice(["and", "or", "not", "xor", "iff", "imp"])
    if op == "not":
        return ["not", gen_formula(rng, depth - 1)]
    return [op, gen_formula(rng, depth - 1), gen_formula(rng, depth - 1)]


# Variables are numbered: 0-2 Bool x0..x2 (all configurations); 10, 11 Int y0, y1 and 20-22 u0..u2 of the user-declared
# sort U (only configurations whose members are generic SMT-LIB wrappers).  Int ranges over [-3, 3] and U has 3
# elements in the enumeration (the external reference solver enumerates the same domains); the generated atoms --
# order / equality between two Int variables or a variable and a constant in [-1, 1], equality between U symbols -- are
# such that satisfiability over these domains coincides with satisfiability over Z / any domain.
INT_VARS, U_VARS = (10, 11), (20, 21, 22)
WEIRD_NAMES = {0: 'p (q" r', 1: 'say "hi (twice', 10: 'the "big (M" bound', 11: 'a"b)c (d', 20: 'u ("0'}


def var_name(i):
    return "x%d" % i if i < 10 else "y%d" % (i - 10) if i < 20 else "u%d" % (i - 20)


def var_index(name):
    return int(name[1:]) + {"x": 0, "y": 10, "u": 20}[name[0]]


def var_domain(i):
    return (False, True) if i < 10 else tuple(range(-3, 4)) if i < 20 else (0, 1, 2)


def ev_term(t, asg):
    return asg[t[1]] if t[0] == "ivar" else t[1]


def ev(f, asg):
    op = f[0]
    if op == "var":
        return asg[f[1]]
    if op in ("ilt", "ile", "ieq"):
        a, b = ev_term(f[1], asg), ev_term(f[2], asg)
        return a < b if op == "ilt" else a <= b if op == "ile" else a == b
    if op == "ueq":
        return asg[f[1]] == asg[f[2]]
    if op == "const":
        return f[1]
    if op == "not":
        return not ev(f[1], asg)
    a, b = ev(f[1], asg), ev(f[2], asg)
    return {"and": a and b, "or": a or b, "xor": a != b, "iff": a == b, "imp": (not a) or b}[op]


def fvars(f, acc=None):
    acc = set() if acc is None else acc
    if f[0] == "var":
        acc.add(f[1])
    elif f[0] in ("ilt", "ile", "ieq"):
        acc.update(t[1] for t in f[1:] if t[0] == "ivar")
    elif f[0] == "ueq":
        acc.update(f[1:])
    elif f[0] != "const":
        for g in f[1:]:
            fvars(g, acc)
    return acc


def show(f):
    if f[0] == "var":
        return "x%d" % f[1]
    if f[0] in ("ilt", "ile", "ieq"):
        t = lambda a: var_name(a[1]) if a[0] == "ivar" else str(a[1])
        return "(%s %s %s)" % (t(f[1]), {"ilt": "<", "ile": "<=", "ieq": "="}[f[0]], t(f[2]))
    if f[0] == "ueq":
        return "(%s = %s)" % (var_name(f[1]), var_name(f[2]))
    if f[0] == "const":
        return str(f[1])
    if f[0] == "not":
        return "!%s" % show(f[1])
    return "(%s %s %s)" % (show(f[1]), f[0], show(f[2]))


def solutions(assertions):
    """Satisfying assignments of the conjunction, in the order the members enumerate them: variables sorted by
    index, False before True, first variable most significant."""
    import itertools
    vs = sorted(set().union(*[fvars(f) for f in assertions])) if assertions else []
    sols = []
    for vals in itertools.product(*[var_domain(v) for v in vs]):
        asg = dict(zip(vs, vals))
        if all(ev(f, asg) for f in assertions):
            sols.append(asg)
    return vs, sols


def gen_ext_formula(rng, depth=2):
    """Formulas for the SMT-LIB members: Bool, linear integer order, equality over the user-declared sort U."""
    if depth == 0 or rng.random() < 0.3:
        k = rng.random()
        if k < 0.3:
            return ["var", rng.randrange(NVARS)]
        if k < 0.7:
            a = ["ivar", rng.choice(INT_VARS)]
            b = rng.choice([["ivar", INT_VARS[0] + INT_VARS[1] - a[1]], ["ic", rng.choice([-1, 0, 1])]])
            return [rng.choice(["ilt", "ile", "ieq"]), a, b]
        return ["ueq"] + rng.sample(U_VARS, 2)
    op = rng.choice(["and", "or", "not", "imp", "iff"])
    if op == "not":
        return ["not", gen_ext_formula(rng, depth - 1)]
    return [op, gen_ext_formula(rng, depth - 1), gen_ext_formula(rng, depth - 1)]


# --------------------------------------------------------------------------- the member solver (runs in the children)
def _install(env):
    """Define and register the member solver class in `env` (done inside the worker process)."""
    import itertools
    from pysmt.solvers.solver import IncrementalTrackingSolver, SolverOptions
    from pysmt.solvers.eager import EagerModel
    from pysmt.decorators import clear_pending_pop
    from pysmt.exceptions import SolverReturnedUnknownResultError, InternalSolverError, PysmtValueError
    from pysmt.logics import QF_BOOL

    class Opts(SolverOptions):
        def __call__(self, solver):
            pass

    def fnode_eval(f, asg):
        if f.is_symbol():
            return asg[f]
        if f.is_bool_constant():
            return f.constant_value()
        if f.is_not():
            return not fnode_eval(f.arg(0), asg)
        if f.is_and():
            return all(fnode_eval(a, asg) for a in f.args())
        if f.is_or():
            return any(fnode_eval(a, asg) for a in f.args())
        if f.is_iff():
            return fnode_eval(f.arg(0), asg) == fnode_eval(f.arg(1), asg)
        if f.is_implies():
            return (not fnode_eval(f.arg(0), asg)) or fnode_eval(f.arg(1), asg)
        raise InternalSolverError("C19Member: unsupported node %s" % f)

    class C19BaseException(BaseException):
        pass

    class C19Member(IncrementalTrackingSolver):
        LOGICS = [QF_BOOL]
        OptionsClass = Opts

        def __init__(self, environment, logic, **options):
            IncrementalTrackingSolver.__init__(self, environment, logic, **options)
            so = self.options.solver_options
            self.delay_ms = so.get("delay_ms", 0)
            self.mode = so.get("mode", "answer")
            self.pick = so.get("pick", 0)
            self.model = None

        @clear_pending_pop
        def _reset_assertions(self):
            pass

        @clear_pending_pop
        def _add_assertion(self, formula, named=None):
            return formula

        @clear_pending_pop
        def _push(self, levels=1):
            pass

        @clear_pending_pop
        def _pop(self, levels=1):
            pass

        @clear_pending_pop
        def _solve(self, assumptions=None):
            if self.delay_ms:
                time.sleep(self.delay_ms / 1000.0)
            if self.mode == "raise":
                raise InternalSolverError("C19Member asked to fail")
            if self.mode == "unknown":
                raise SolverReturnedUnknownResultError()
            if self.mode == "exit":
                os._exit(17)
            if self.mode == "sysexit0":
                sys.exit(0)
            if self.mode == "sysexit1":
                sys.exit(1)
            if self.mode == "kbdint":
                raise KeyboardInterrupt()
            if self.mode == "baseexc":
                raise C19BaseException("C19Member asked to fail with a BaseException")
            if self.mode == "nonbool_none":
                return None
            if self.mode == "nonbool_str":
                return "sat"
            mgr = self.environment.formula_manager
            fs = list(self.assertions) + list(assumptions or [])
            vs = sorted(set().union(*[f.get_free_variables() for f in fs]) if fs else [],
                        key=lambda s: s.symbol_name())
            sols = []
            for vals in itertools.product([False, True], repeat=len(vs)):
                asg = dict(zip(vs, vals))
                if all(fnode_eval(f, asg) for f in fs):
                    sols.append(asg)
            if not sols:
                self.model = None
                return False
            asg = sols[self.pick % len(sols)]
            self.model = EagerModel({k: mgr.Bool(v) for k, v in asg.items()}, self.environment)
            return True

        def get_model(self):
            return self.model

        def get_value(self, f):
            if f.is_symbol() and f.symbol_name() == "boom":
                raise PysmtValueError("C19Member cannot evaluate 'boom'")
            return self.model.get_value(f)

        def _exit(self):
            pass

    env.factory._all_solvers["c19member"] = C19Member


def _perturb(pt):
    """Schedule perturbation inside the parent (the worker): a pause before every `Process.is_alive()` and/or
    `Process.terminate()`, as if the parent had been preempted there.  The code must be correct under every schedule;
    the pauses widen the windows "a member finishes between the time-out of the queue and the liveness check" and
    "a loser finishes while the winner is being selected"."""
    import multiprocessing.process as mpp
    a_ms, t_ms = pt.get("alive_ms", 0), pt.get("terminate_ms", 0)
    if a_ms:
        orig_alive = mpp.BaseProcess.is_alive

        def is_alive(self):
            time.sleep(a_ms / 1000.0)
            return orig_alive(self)
        mpp.BaseProcess.is_alive = is_alive
    if t_ms:
        orig_term = mpp.BaseProcess.terminate

        def terminate(self):
            time.sleep(t_ms / 1000.0)
            return orig_term(self)
        mpp.BaseProcess.terminate = terminate


def _count_events():
    """Observable events of the parent, to be compared with the model's step bound: messages taken from the signalling
    queue and terminate() calls."""
    import multiprocessing.process as mpp
    import multiprocessing.queues as mpq
    counters = {"terminate": 0, "read": 0}
    orig_term = mpp.BaseProcess.terminate
    orig_get = mpq.Queue.get

    def terminate(self):
        counters["terminate"] += 1
        return orig_term(self)

    def get(self, *a, **kw):
        r = orig_get(self, *a, **kw)
        counters["read"] += 1
        return r
    mpp.BaseProcess.terminate = terminate
    mpq.Queue.get = get
    return counters


def _to_fnode(mgr, syms, f):
    op = f[0]
    if op == "var":
        return syms[f[1]]
    if op in ("ilt", "ile", "ieq"):
        t = lambda a: syms[a[1]] if a[0] == "ivar" else mgr.Int(a[1])
        a, b = t(f[1]), t(f[2])
        return mgr.LT(a, b) if op == "ilt" else mgr.LE(a, b) if op == "ile" else mgr.Equals(a, b)
    if op == "ueq":
        return mgr.Equals(syms[f[1]], syms[f[2]])
    if op == "const":
        return mgr.Bool(f[1])
    if op == "not":
        return mgr.Not(_to_fnode(mgr, syms, f[1]))
    a, b = _to_fnode(mgr, syms, f[1]), _to_fnode(mgr, syms, f[2])
    if op == "and":
        return mgr.And(a, b)
    if op == "or":
        return mgr.Or(a, b)
    if op == "xor":
        return mgr.Not(mgr.Iff(a, b))
    if op == "iff":
        return mgr.Iff(a, b)
    return mgr.Implies(a, b)


# --------------------------------------------------------------------------- worker (own session)
def _others_alive(ext, grace=5.0):
    """losers_dead: names of the member processes, other than `ext`, that are still alive.  terminate() is
    asynchronous, so the processes get a grace period to disappear."""
    import multiprocessing
    # The grace period is measured in *observed* time: every pause counts for at most 50 ms, so that a stall of the
    # whole machine (during which the dying processes cannot make progress either) does not use it up.
    observed, last = 0.0, time.time()
    while True:
        others = [c.name for c in multiprocessing.active_children() if ext is None or c.pid != ext.pid]
        if not others or observed > grace:
            return others
        time.sleep(0.005)
        now = time.time()
        observed += min(now - last, 0.05)
        last = now


def _worker(cfg, wfd):
    """Run one configuration against the real Portfolio; one JSON line per finished script step on `wfd`."""
    os.setsid()
    out = os.fdopen(wfd, "w", buffering=1)
    # members that end with KeyboardInterrupt / a BaseException make multiprocessing print a traceback: not ours
    devnull = os.open(os.devnull, os.O_WRONLY)
    os.dup2(devnull, 2)

    def emit(obj):
        out.write(json.dumps(obj) + "\n")
        out.flush()

    try:
        import warnings
        warnings.simplefilter("ignore")
        import multiprocessing
        from pysmt.environment import reset_env
        from pysmt.logics import QF_BOOL
        from pysmt.exceptions import PysmtException
        from pysmt.solvers.portfolio import Portfolio
        env = reset_env()
        _install(env)
        _perturb(cfg.get("perturb") or {})
        counters = _count_events()
        mgr = env.formula_manager
        syms = {i: mgr.Symbol("x%d" % i) for i in range(NVARS)}
        logic = QF_BOOL
        if cfg.get("kind") == "ext":
            # members = pySMT's generic SMT-LIB wrapper (pysmt/smtlib/solver.py) over a controlled external process
            from pysmt.logics import QF_UFLIA
            from pysmt.typing import INT
            logic = QF_UFLIA
            usort = env.type_manager.Type("U", 0)
            # extreme but legal symbol names (SMT-LIB quoted symbols may contain anything but `|` and `\`): the
            # records keep the canonical names x0.. / y0.. / u0..
            names = WEIRD_NAMES if cfg.get("weird_names") else {}
            syms.update({i: mgr.Symbol(names[i]) for i in range(NVARS) if i in names})
            syms.update({i: mgr.Symbol(names.get(i, var_name(i)), INT) for i in INT_VARS})
            syms.update({i: mgr.Symbol(names.get(i, var_name(i)), usort) for i in U_VARS})
            members = []
            for k, m in enumerate(cfg["members"]):
                name = "c19ext%d" % k
                env.factory.add_generic_solver(name, [sys.executable, "-B", os.path.abspath(__file__), "--extsolver",
                                                      "--mode", "ok" if m["mode"] == "answer" else m["mode"], "--delay-ms", str(m["delay_ms"])], [QF_UFLIA])
                members.append(name)
        else:
            members = [("c19member", {"solver_options": {"delay_ms": m["delay_ms"], "mode": m["mode"], "pick": m["pick"]}})
                       for m in cfg["members"]]
        p = Portfolio(members, environment=env, logic=logic,
                      solver_options={"exit_on_exception": bool(cfg["eoe"])})
        # twin: the same edits with push(k) / pop(n) replaced by k / n single calls (it never solves: no processes)
        twin = Portfolio(members, environment=env, logic=logic,
                         solver_options={"exit_on_exception": bool(cfg["eoe"])})
        canon = {}           # FNode -> index of the first assert step that produced it

        def probe(rec):
            live = list(p.assertions)
            rec["assertions"] = [canon.get(f, -1) for f in live]
            rec["twin"] = [canon.get(f, -1) for f in twin.assertions]
        winner = None
        last_sat = False
        for k, step in enumerate(cfg["script"]):
            op = step[0]
            rec = {"step": k, "op": op}
            t0 = time.time()
            if op in ("get_model", "get_values", "get_boom", "kill_winner") and not last_sat:
                # a query is only meaningful after a "sat" verdict (`probe_value` is the one issued in any state)
                rec["skipped"] = True
                emit(rec)
                continue
            if op not in ("get_model", "get_values", "get_boom", "probe_value"):
                last_sat = False
            counters["terminate"] = counters["read"] = 0
            try:
                if op == "assert":
                    fn = _to_fnode(mgr, syms, step[1])
                    rec["fid"] = canon.setdefault(fn, k)
                    p.add_assertion(fn)
                    twin.add_assertion(fn)
                    probe(rec)
                elif op == "push":
                    n = step[1] if len(step) > 1 else 1
                    p.push(n)
                    for _ in range(n):
                        twin.push()
                    probe(rec)
                elif op == "pop":
                    n = step[1] if len(step) > 1 else 1
                    p.pop(n)
                    for _ in range(n):
                        twin.pop()
                    probe(rec)
                elif op in SOLVE_OPS:
                    winner = None
                    if op == "solve":
                        if len(step) > 1:
                            # the assumptions in one of the spellings an Iterable may have (one-shot ones included)
                            fns = [_to_fnode(mgr, syms, a) for a in step[1]]
                            how = step[2] if len(step) > 2 else "list"
                            arg = {"list": lambda: fns, "tuple": lambda: tuple(fns), "set": lambda: set(fns),
                                   "generator": lambda: (f_ for f_ in fns), "iter": lambda: iter(fns),
                                   "map": lambda: map(lambda f_: f_, fns)}[how]()
                            res = p.solve(arg)
                        else:
                            res = p.solve()
                    else:
                        # one-shot shortcuts of Solver: push, assert, solve, and the level is popped by the next command
                        res = getattr(p, op)(_to_fnode(mgr, syms, step[1]))
                    rec["res"] = res if type(res) is bool else repr(res)
                    # verdict of the solve() call inside the shortcut
                    inner = res if op in ("solve", "is_sat") else (not res if type(res) is bool else res)
                    last_sat = inner is True
                    ext = p._ext_solver
                    if ext is not None:
                        winner = int(ext.name.split(" ")[0])
                    rec["winner"] = winner
                    rec["others_alive"] = _others_alive(ext)
                    if op == "solve":
                        probe(rec)       # (not after a one-shot shortcut: reading `assertions` pops its level)
                elif op == "probe_value":
                    # get_value in whatever state the portfolio is in
                    rec["kept"] = p._ext_solver is not None
                    rec["value"] = p.get_value(syms[step[1]]).is_true()
                elif op == "get_boom":
                    # a query that fails inside the member's solver
                    rec["value"] = str(p.get_value(mgr.Symbol("boom")))
                elif op == "kill_winner":
                    ext = p._ext_solver
                    os.kill(ext.pid, signal.SIGKILL)
                    ext.join(10)
                    rec["killed"] = not ext.is_alive()
                elif op == "get_model":
                    m = p.get_model()
                    rec["model"] = {str(k_): v.is_true() for k_, v in m}
                elif op == "get_values":
                    vals = {}
                    wanted = step[1]
                    if cfg.get("kind") == "ext":
                        # an SMT-LIB solver only knows the symbols of the formulas it was given
                        known = set()
                        for f_ in p._assertion_stack:
                            known |= set(f_.simplify().get_free_variables())   # (the wrapper asserts the simplified formula)
                        wanted = [i for i in wanted if syms[i] in known]
                    for i in wanted:
                        val = p.get_value(syms[i])
                        vals[var_name(i)] = val.is_true() if val.is_bool_constant() else int(val.constant_value())
                    rec["values"] = vals
            except BaseException as e:     # noqa: the outcome "exception" is data
                rec["exc"] = type(e).__name__
                rec["pysmt_exc"] = isinstance(e, PysmtException)
                rec["os_exc"] = isinstance(e, (OSError, EOFError))
                rec["msg"] = str(e)[:200]
                if op in SOLVE_OPS:
                    rec["others_alive"] = _others_alive(None)
            rec["dt"] = round(time.time() - t0, 4)
            if op in SOLVE_OPS:
                rec["n_terminate"], rec["n_read"] = counters["terminate"], counters["read"]
            emit(rec)
        t0 = time.time()
        rec = {"step": "exit", "op": "exit"}
        try:
            p.exit()
        except BaseException as e:     # noqa
            rec["exc"] = type(e).__name__
            rec["msg"] = str(e)[:200]
        rec["left"] = _others_alive(None)
        rec["dt"] = round(time.time() - t0, 4)
        emit(rec)
        emit({"step": "done"})
    except BaseException as e:
        import traceback
        emit({"step": "crash", "exc": type(e).__name__, "msg": traceback.format_exc()[-1500:]})
    finally:
        out.flush()
        os._exit(0)


def _live_descendants(pgid, self_pid):
    """Number of live (non-zombie) processes in session/process group `pgid` other than the worker itself."""
    n = 0
    for d in os.listdir("/proc"):
        if not d.isdigit() or int(d) == self_pid:
            continue
        try:
            with open("/proc/%s/stat" % d) as f:
                st = f.read()
        except OSError:
            continue
        rest = st[st.rindex(")") + 2:].split()
        # rest[0] = state, rest[1] = ppid, rest[2] = pgrp
        if int(rest[2]) == pgid and rest[0] not in ("Z", "X"):
            n += 1
    return n


def _kill_group(pid):
    try:
        os.killpg(pid, signal.SIGKILL)
    except OSError:
        pass
    try:
        os.kill(pid, signal.SIGKILL)
    except OSError:
        pass
    try:
        os.waitpid(pid, 0)
    except OSError:
        pass


class _Job:
    def __init__(self, idx, cfg):
        self.idx = idx
        self.cfg = cfg
        r, w = os.pipe()
        sys.stdout.flush()
        sys.stderr.flush()
        pid = os.fork()
        if pid == 0:
            try:
                os.close(r)
                _worker(cfg, w)      # never returns
            finally:
                os._exit(3)
        os.close(w)
        self.pid = pid
        self.rfd = r
        self.buf = b""
        self.records = []
        self.last_progress = time.time()
        self.t_start = self.last_progress
        # time without progress as *observed* by the monitoring loop: one iteration counts for at most 1 s, so that a
        # stall of the whole machine is not mistaken for a blocked call
        self.idle_observed = 0.0
        self.last_seen = self.last_progress
        self.blocked = None          # None | description
        self.finished = False

    def feed(self):
        try:
            data = os.read(self.rfd, 65536)
        except OSError:
            data = b""
        if not data:
            self.finished = True
            return
        self.buf += data
        while b"\n" in self.buf:
            line, self.buf = self.buf.split(b"\n", 1)
            try:
                self.records.append(json.loads(line))
            except ValueError:
                self.records.append({"step": "garbled", "raw": line[:200].decode("latin1")})
            self.last_progress = time.time()
            self.idle_observed = 0.0
            self.last_seen = self.last_progress

    def check_blocked(self):
        now = time.time()
        self.idle_observed += min(now - self.last_seen, 1.0)
        self.last_seen = now
        idle = self.idle_observed
        if idle >= HARD_S:
            self.blocked = "no progress for %.0f s" % idle
        elif idle >= BLOCK_S:
            # sampled twice, to be sure no member is between fork and exec of its work
            if _live_descendants(self.pid, self.pid) == 0:
                time.sleep(0.2)
                if _live_descendants(self.pid, self.pid) == 0:
                    self.blocked = "no progress for %.0f s and no member process alive" % idle
        return self.blocked is not None

    def close(self):
        _kill_group(self.pid)
        try:
            os.close(self.rfd)
        except OSError:
            pass


def run_configs(ctx, cfgs, workers, on_result, stop=lambda: False):
    """Run the configurations, `workers` at a time; `on_result(cfg, records, blocked)` for each."""
    pending = list(enumerate(cfgs))
    pending.reverse()
    running = {}
    try:
        while pending or running:
            while pending and len(running) < workers and not stop():
                idx, cfg = pending.pop()
                j = _Job(idx, cfg)
                running[j.rfd] = j
            if not running:
                break
            rl, _, _ = select.select(list(running), [], [], 0.5)
            for fd in rl:
                running[fd].feed()
            for fd, j in list(running.items()):
                done = j.finished or (j.records and j.records[-1].get("step") in ("done", "crash"))
                if not done and fd not in rl and j.check_blocked():
                    done = True
                if done:
                    del running[fd]
                    j.close()
                    on_result(j.cfg, j.records, j.blocked)
    finally:
        for j in running.values():
            j.close()


# --------------------------------------------------------------------------- configurations
def gen_script(rng, ncycles):
    """assert/push/pop between solves; after a solve a model and/or values are asked for (the checker skips the
    check of queries that follow a non-sat outcome; the worker records whatever happens)."""
    script = []
    depth = 0
    for c in range(ncycles):
        r = rng.random()
        if c > 0 and depth > 0 and r < 0.3:
            n = rng.choice([k for k in (1, 1, 2, 2, 3) if k <= depth])
            script.append(["pop"] if n == 1 else ["pop", n])
            depth -= n
        elif r < 0.6:
            n = rng.choice([1, 1, 1, 2, 3])
            script.append(["push"] if n == 1 else ["push", n])
            depth += n
            if n > 1 and rng.random() < 0.5:
                # something on an inner level that a later pop(n) has to remove as well
                script.append(["assert", gen_formula(rng, 2)])
                script.append(["push"])
                depth += 1
        f = gen_formula(rng)
        if rng.random() < 0.15:
            f = ["and", f, ["not", f]]          # make some calls unsat
        kind = rng.random()
        if kind < 0.3:
            # one-shot shortcut (push; assert; solve; the temporary level is popped by the NEXT command) ...
            script.append([rng.choice(["is_sat", "is_sat", "is_valid", "is_unsat"]), f])
            if rng.random() < 0.3:
                order = list(range(NVARS))
                rng.shuffle(order)
                script.append(["get_values", order])
            if kind >= 0.2 and rng.random() < 0.6:
                # ... immediately followed by a solve(): when every member fails, this is a command that RAISES while
                # the temporary level is pending -- the level must be gone afterwards, and only that level
                script.append(["solve"])
                if rng.random() < 0.5:
                    script.append(["assert", gen_formula(rng, 2)])
                    script.append(["solve"])
            if kind < 0.2:
                # ... immediately followed by an assertion that must land on the live stack, not on the temporary
                # level, and that constrains the next answer
                g = rng.choice([["not", f], ["var", rng.randrange(NVARS)], ["not", ["var", rng.randrange(NVARS)]],
                                gen_formula(rng, 2)])
                script.append(["assert", g])
                script.append(["solve"])
        else:
            script.append(["assert", f])
            if rng.random() < 0.25:
                # solve under assumptions: literals, now and then any formula
                lits = [rng.choice([["var", i], ["not", ["var", i]]]) for i in rng.sample(range(NVARS), rng.choice([1, 2]))]
                if rng.random() < 0.3:
                    lits.append(rng.choice([["not", f], gen_formula(rng, 2)]))
                script.append(["solve", lits, rng.choice(["list", "tuple", "set", "generator", "iter", "map"])])
            else:
                script.append(["solve"])
        q = rng.random()
        x = rng.random()
        if x < 0.12:
            script.append(["probe_value", rng.randrange(NVARS)])      # whatever the outcome of the solve was
        elif x < 0.2:
            script.append(["get_boom"])                               # a query the member's solver cannot answer
        if q < 0.5:
            script.append(["get_model"])
        if q > 0.3:
            order = list(range(NVARS))
            rng.shuffle(order)
            script.append(["get_values", order])
        if q > 0.8:
            script.append(["get_model"])
        if x > 0.93:
            # the surviving member is killed from outside: the next query must end with an error, not block
            script.append(["kill_winner"])
            script.append(["probe_value", rng.randrange(NVARS)])
    if rng.random() < 0.1:
        script.insert(0, ["probe_value", 0])                          # before any solve()
    return script


def gen_ext_script(rng, ncycles):
    """Scripts for portfolios of SMT-LIB wrapper members: formulas over Bool, Int and the declared sort U."""
    script, depth = [], 0
    for c in range(ncycles):
        r = rng.random()
        if c > 0 and depth > 0 and r < 0.3:
            n = rng.choice([k for k in (1, 1, 2) if k <= depth])
            script.append(["pop"] if n == 1 else ["pop", n])
            depth -= n
        elif r < 0.6:
            n = rng.choice([1, 1, 2])
            script.append(["push"] if n == 1 else ["push", n])
            depth += n
        f = gen_ext_formula(rng)
        if rng.random() < 0.6 and "ueq" not in json.dumps(f):
            f = ["and", f, rng.choice([["ueq"] + rng.sample(U_VARS, 2), ["not", ["ueq"] + rng.sample(U_VARS, 2)]])]
        if rng.random() < 0.15:
            f = ["and", f, ["not", f]]
        kind = rng.random()
        if kind < 0.25:
            script.append([rng.choice(["is_sat", "is_valid", "is_unsat"]), f])
        else:
            script.append(["assert", f])
            if kind < 0.45:
                script.append(["solve", [rng.choice([["var", rng.randrange(NVARS)],
                                                     ["ile", ["ivar", rng.choice(INT_VARS)], ["ic", 0]],
                                                     ["not", ["ueq"] + rng.sample(U_VARS, 2)]])],
                               rng.choice(["list", "tuple", "generator", "iter", "map"])])
            else:
                script.append(["solve"])
        if rng.random() < 0.7:
            script.append(["get_values", list(range(NVARS)) + list(INT_VARS)])
    return script


def gen_ext_configs(rng, count):
    cfgs = []
    fixed = [(False, ["crash", "crash"]), (False, ["crash", "unknown", "crash"]), (False, ["answer", "answer"]),
             (False, ["answer", "crash"]), (True, ["crash", "answer"]), (False, ["crash_after", "answer"]),
             (False, ["unknown", "answer", "crash_after"]), (True, ["answer", "answer", "answer"])]
    for k in range(count):
        if k < len(fixed):
            eoe, modes = fixed[k]
        else:
            eoe = rng.random() < 0.3
            modes = [rng.choice(["answer", "answer", "unknown", "crash", "crash_after"]) for _ in range(rng.choice([2, 3]))]
        cfgs.append({"kind": "ext", "eoe": eoe, "shape": "smtlib-wrapper-members", "weird_names": k % 2 == 0,
                     "members": [{"mode": m, "pick": i, "delay_ms": rng.choice([0, 0, 5, 20, 60])} for i, m in enumerate(modes)],
                     "script": gen_ext_script(rng, rng.choice([1, 2, 2, 3]))})
    return cfgs


def gen_members(rng, n, shape):
    ms = []
    tie = rng.random() < 0.5
    delays = POLL_DELAYS if shape.startswith("poll") else DELAYS
    d0 = rng.choice(delays)
    if shape.startswith("poll"):
        shape = "all-fail" if rng.random() < 0.6 else "mixed"
    for i in range(n):
        if shape == "all-fail":
            mode = rng.choice(FAIL_POOL)
        elif shape == "all-answer":
            mode = "answer"
        elif shape == "one-answer":
            mode = rng.choice(FAIL_POOL)
        else:
            mode = rng.choice(ANY_POOL)
        ms.append({"mode": mode, "delay_ms": d0 if tie else rng.choice(delays), "pick": i})
    if shape == "one-answer":
        ms[rng.randrange(n)]["mode"] = "answer"
    return ms


def gen_configs(ctx):
    rng = ctx.rng
    cfgs = []
    # all ordered pairs of modes, both values of exit_on_exception, tie and gap
    for eoe in (False, True):
        for a in MODES:
            for b in MODES:
                d = rng.choice([(0, 0), (5, 5), (0, 10), (10, 0), (2, 1)])
                cfgs.append({"eoe": eoe,
                             "members": [{"mode": a, "delay_ms": d[0], "pick": 0},
                                         {"mode": b, "delay_ms": d[1], "pick": 1}],
                             "script": gen_script(rng, 2)})
    for m in EXTRA_FAIL_MODES:
        for eoe, ms in ((False, [(m, 0), ("answer", 10)]), (True, [("answer", 0), (m, 5)]), (False, [(m, 2), (m, 2)]),
                        (True, [(m, 0), ("raise", 20)])):
            cfgs.append({"eoe": eoe, "members": [{"mode": a, "delay_ms": d, "pick": i} for i, (a, d) in enumerate(ms)],
                         "script": gen_script(rng, 1)})
    # early failure + slow healthy member: the failing members end 0-20 ms after the start, the healthy ones answer
    # only after several polling periods of the repaired wait loop (0.1 s).  The parent must keep waiting while
    # *some* member is alive; the model (failures_ignored) allows exactly the healthy verdict -- for every failure mode
    # without exit_on_exception, and for silent deaths also with it.
    slow = [(False, [m, "answer"]) for m in EXTRA_FAIL_MODES] + \
           [(True, [m, "answer", "answer"]) for m in EXTRA_FAIL_MODES if m in SILENT_MODES] + \
           [(False, ["raise", "answer"]), (False, ["unknown", "answer"]), (False, ["exit", "answer"]),
            (True, ["exit", "answer"]), (False, ["answer", "raise", "exit"]), (False, ["exit", "unknown", "answer", "raise"]),
            (True, ["exit", "answer", "exit"]), (False, ["unknown", "answer", "answer"])]
    n_slow_random = 8 if ctx.tier == "quick" else 150
    for k in range(len(slow) + n_slow_random):
        if k < len(slow):
            eoe, modes = slow[k]
        else:
            n = rng.choice([2, 3, 4])
            modes = [rng.choice(FAIL_POOL) for _ in range(n)]
            for _ in range(rng.choice([1, 1, 2])):
                modes[rng.randrange(n)] = "answer"
            if "answer" in modes and all(m == "answer" for m in modes):
                modes[rng.randrange(n)] = rng.choice(FAIL_POOL)
            eoe = all(m == "answer" or m in SILENT_MODES for m in modes) and rng.random() < 0.5
        slow_d = rng.choice([250, 300, 350, 450, 600])
        cfgs.append({"eoe": eoe, "shape": "early-failure-slow-healthy",
                     "members": [{"mode": m, "pick": i,
                                  "delay_ms": (slow_d + rng.choice([0, 0, 5, 60])) if m == "answer"
                                  else rng.choice([0, 1, 5, 10, 20])}
                                 for i, m in enumerate(modes)],
                     "script": gen_script(rng, 1 if k < len(slow) else rng.choice([1, 2]))})
    n_random = 180 if ctx.tier == "quick" else 6000
    shapes = ["mixed"] * 5 + ["all-fail"] * 2 + ["all-answer"] * 2 + ["one-answer"] * 2 + ["poll"] * 2
    for _ in range(n_random):
        n = rng.choice([2, 3, 3, 4, 4])
        shape = rng.choice(shapes)
        cfg = {"eoe": rng.random() < 0.3,
               "members": gen_members(rng, n, shape),
               "script": gen_script(rng, rng.choice([1, 2, 3, 4]))}
        r = rng.random()
        if shape == "poll":
            # members that raise while the parent is between the time-out and the liveness checks
            cfg["eoe"] = rng.random() < 0.7
            cfg["perturb"] = {"alive_ms": rng.choice([0, 5, 20])}
            if rng.random() < 0.5:
                d = rng.choice([85, 90, 95, 100, 105])
                for m in cfg["members"]:
                    m["mode"] = "raise" if rng.random() < 0.8 else rng.choice(MODES)
                    m["delay_ms"] = d + rng.choice([0, 3, 6, 9, 12])
        elif r < 0.25:
            # losers get time to finish while the winner is being selected
            cfg["perturb"] = {"terminate_ms": rng.choice([2, 5, 10])}
        cfgs.append(cfg)
    cfgs += gen_ext_configs(rng, 20 if ctx.tier == "quick" else 300)
    for k, c in enumerate(cfgs):
        c["id"] = k
    return cfgs


# --------------------------------------------------------------------------- expected values
def lean_line(cfg, truth):
    ms = ",".join(("T" if truth else "F") if m["mode"] in ANSWERING else MODE_LETTER[m["mode"]]
                  for m in cfg["members"])
    return "portfolio eoe=%d atomic=1 %s" % (1 if cfg["eoe"] else 0, ms)


def py_allowed(cfg, truth):
    """The property text, directly (S oracle): set of acceptable outcomes of one solve()."""
    modes = [m["mode"] for m in cfg["members"]]
    answers = any(m in ANSWERING for m in modes)
    exn = set()
    if "raise" in modes:
        exn.add("err:InternalSolverError")
    if "unknown" in modes:
        exn.add("err:SolverReturnedUnknownResultError")
    if any(m.startswith("nonbool") or m == "crash" for m in modes):
        exn.add("err:UnknownSolverAnswerError")
    v = {"v:T" if truth else "v:F"}
    if not cfg["eoe"]:
        return v if answers else {"err:*"}
    if answers:
        return v | exn
    return exn if exn else {"err:*"}


def walk(cfg):
    """Assertion stack before every script step (harness-side bookkeeping, independent of pySMT)."""
    stack, marks, out = [], [], []
    for step in cfg["script"]:
        out.append(list(stack))
        if step[0] == "assert":
            stack.append(step[1])
        elif step[0] == "push":
            for _ in range(step[1] if len(step) > 1 else 1):
                marks.append(len(stack))
        elif step[0] == "pop":
            for _ in range(step[1] if len(step) > 1 else 1):
                del stack[marks.pop():]
    return out


def live_ids(cfg):
    """Indices of the assert steps whose formula is live AFTER every script step (same bookkeeping as `walk`)."""
    stack, marks, out = [], [], []
    for k, step in enumerate(cfg["script"]):
        if step[0] == "assert":
            stack.append(k)
        elif step[0] == "push":
            for _ in range(step[1] if len(step) > 1 else 1):
                marks.append(len(stack))
        elif step[0] == "pop":
            for _ in range(step[1] if len(step) > 1 else 1):
                del stack[marks.pop():]
        out.append(list(stack))
    return out


def stack_line(cfg):
    """Request for the Lean assertion-stack specification (`Spec/AssertStack.lean` through the driver)."""
    toks = []
    for k, step in enumerate(cfg["script"]):
        if step[0] == "assert":
            toks.append("a%d" % k)
        elif step[0] == "push":
            toks.append("u%d" % (step[1] if len(step) > 1 else 1))
        elif step[0] == "pop":
            toks.append("o%d" % (step[1] if len(step) > 1 else 1))
        else:
            toks.append("c")
    return "stack " + " ".join(toks)


def solve_stack(step, stack):
    """The assertions that the solve() call of a solve-like step sees: the live stack, plus the formula of a one-shot
    shortcut on its temporary level (is_valid asks for the satisfiability of the negation)."""
    if step[0] == "solve":
        return list(stack) + list(step[1] if len(step) > 1 else [])      # solve(assumptions)
    return list(stack) + [["not", step[1]] if step[0] == "is_valid" else step[1]]


def describe(cfg):
    return "eoe=%s%s%s members=[%s] script=[%s]" % (
        cfg["eoe"], " kind=ext" + (" weird-names" if cfg.get("weird_names") else "") if cfg.get("kind") == "ext" else "", (" perturb=%s" % json.dumps(cfg["perturb"], sort_keys=True)) if cfg.get("perturb") else "",
        ", ".join("%s@%dms/pick%d" % (m["mode"], m["delay_ms"], m["pick"]) for m in cfg["members"]),
        "; ".join(s[0] + (" " + show(s[1]) if s[0] in ("assert", "is_sat", "is_valid", "is_unsat") else
                         "(%d)" % s[1] if s[0] in ("push", "pop") and len(s) > 1 else
                         "(%s%s)" % ((s[2] + ": ") if len(s) > 2 else "", ", ".join(show(a) for a in s[1]))
                         if s[0] == "solve" and len(s) > 1 else "")
                  for s in cfg["script"]))


def shape_of(cfg):
    modes = [m["mode"] for m in cfg["members"]]
    na = len([m for m in modes if m in ANSWERING])
    if na == 0:
        return "all-fail"
    if na == len(modes):
        return "all-answer"
    return "some-fail"


def nontrivial_key(cfg):
    modes = [m["mode"] for m in cfg["members"]]
    ans = sorted(m["delay_ms"] for m in cfg["members"] if m["mode"] in ANSWERING)
    race = len(ans) >= 2 and ans[1] - ans[0] <= 2
    if any(m not in ANSWERING for m in modes) or race or cfg.get("kind") == "ext":
        return json.dumps([cfg["eoe"], [(m["mode"], m["delay_ms"]) for m in cfg["members"]],
                           [s[0] for s in cfg["script"]]])
    return None


# --------------------------------------------------------------------------- checking one result
def check_result(ctx, cfg, records, blocked, lean_sets, reports):
    """Compare one run with the model (K) and with the property (S).  `reports` collects (kind, sig, what)."""
    stacks = walk(cfg)
    by_step = {r["step"]: r for r in records if isinstance(r.get("step"), int)}
    crash = [r for r in records if r.get("step") in ("crash", "garbled")]
    if crash:
        reports.append(("infra", None, "worker crashed: %s" % crash[0]))
        return
    base = {"shape": shape_of(cfg), "eoe": str(bool(cfg["eoe"]))}
    sat_now = None        # (winner, expected model) after a sat verdict, until the next non-query step
    live = live_ids(cfg)
    lean_live = lean_sets.get(stack_line(cfg))
    fid = {}              # assert step -> first assert step with the same FNode (the worker's `canon`)
    stack_reported = False
    phase = "none"        # none (no solver kept) | sat | unsat | stale (edited since) | killed (winner killed from outside)
    nmem = len(cfg["members"])
    for k, step in enumerate(cfg["script"]):
        op = step[0]
        rec = by_step.get(k)
        if rec is None:
            # the worker never finished this step
            if blocked:
                what = "%s blocked (%s)" % (op, blocked)
                if op in SOLVE_OPS:
                    cur = solve_stack(step, stacks[k])
                    truth = bool(solutions(cur)[1])
                    ctx.count("outcome blocked")
                    allowed = lean_sets.get(lean_line(cfg, truth))
                    if allowed is not None and "blocked" not in allowed[0]:
                        reports.append(("k", None, "%s() blocked; the model allows only %s" % (op, sorted(allowed[0]))))
                    reports.append(("s", dict(base, oracle="outcome-set", call=op, observed="blocked"), what))
                elif op in ("get_model", "get_values", "get_boom") and sat_now is not None:
                    reports.append(("k", None, "%s blocked; the model (A1) says it is answered" % op))
                    reports.append(("s", dict(base, oracle="query", call=op, observed="blocked"), what))
                elif op == "probe_value":
                    reports.append(("k", None, "get_value blocked (%s); the model says every call returns" % phase))
                    reports.append(("s", dict(base, oracle="query", call=op, observed="blocked", phase=phase), what))
                elif op in ("get_model", "get_values", "get_boom", "kill_winner"):
                    pass       # skipped by the worker when there is no sat verdict
                else:
                    reports.append(("s", dict(base, oracle="outcome-set", call=op, observed="blocked"), what))
            else:
                reports.append(("infra", None, "worker ended before step %d (%s) without a report" % (k, op)))
            return
        if op == "assert" and "fid" in rec:
            fid[k] = rec["fid"]
        if "assertions" in rec:
            # the live assertions: harness bookkeeping = Lean specification of the SMT-LIB stack = the real portfolio
            # = a twin portfolio driven with single push() / pop() calls
            if lean_live is not None and lean_live[k] != live[k]:
                reports.append(("l", None, "assertion stack: the Lean specification says %s, the harness %s after step %d"
                                % (lean_live[k], live[k], k)))
            want = [fid.get(i, i) for i in live[k]]
            what = None
            if rec["assertions"] != want:
                what = "after %s the live assertions are %s, expected %s" % (
                    op + ("(%d)" % step[1] if op in ("push", "pop") and len(step) > 1 else ""),
                    [show(cfg["script"][i][1]) if i >= 0 else "?" for i in rec["assertions"]],
                    [show(cfg["script"][i][1]) for i in want])
                sig = dict(base, oracle="assertion-stack", call=op,
                           levels=str(step[1] if op in ("push", "pop") and len(step) > 1 else 1))
            elif rec.get("twin") != rec["assertions"]:
                what = "after %s the live assertions %s differ from those of the twin driven by single pushes/pops %s" % (
                    op, rec["assertions"], rec.get("twin"))
                sig = dict(base, oracle="twin-single-pops", call=op)
            if what and not stack_reported:
                stack_reported = True
                reports.append(("k", None, what))
                reports.append(("s", sig, what))
        if op in ("assert", "push", "pop"):
            sat_now = None
            if phase in ("sat", "unsat"):
                phase = "stale"
            if "exc" in rec:
                reports.append(("s", dict(base, oracle="outcome-set", call=op, observed="err:" + rec["exc"]),
                                "%s raised %s: %s" % (op, rec["exc"], rec.get("msg"))))
                return
            continue
        if op in SOLVE_OPS:
            # the LIVE assertion stack (harness-tracked, SMT-LIB semantics) plus the formula of a one-shot shortcut
            cur = solve_stack(step, stacks[k])
            vs, sols = solutions(cur)
            truth = bool(sols)
            sat_now = None
            res = rec.get("res")
            if op in ("is_valid", "is_unsat") and type(res) is bool:
                res = not res          # verdict of the solve() inside the shortcut
            if "exc" in rec:
                observed = "err:" + rec["exc"]
            elif res is True:
                observed = "v:T"
            elif res is False:
                observed = "v:F"
            else:
                observed = "v:?" + str(res)
            if op != "solve":
                ctx.count("one-shot " + op)
            elif len(step) > 1:
                ctx.count("solve with assumptions (%s)" % (step[2] if len(step) > 2 else "list"))
            phase = "sat" if observed == "v:T" else "unsat" if observed == "v:F" else "none"
            # step bound of the model (solve_step_bound): at most one message per member is read, at most n terminations
            # (+1: `_close_existing` terminates the solver kept by the previous call, part of `solveStart`)
            if rec.get("n_read", 0) > nmem or rec.get("n_terminate", 0) > nmem + 1:
                reports.append(("k", None, "%s(): %s messages read and %s terminate() calls for %d members (model: at most n / n+1)"
                                % (op, rec.get("n_read"), rec.get("n_terminate"), nmem)))
            ctx.count("outcome " + observed.split(":")[0] + (":" + shape_of(cfg)) + (" eoe" if cfg["eoe"] else ""))
            # K: observed in the model's set
            line = lean_line(cfg, truth)
            allowed = lean_sets.get(line)
            if allowed is not None and observed not in allowed[0]:
                reports.append(("k", None, "%s() -> %s; the model allows only %s for `%s`"
                                % (op, observed, sorted(allowed[0]), line)))
            # S: the property text
            ok = py_allowed(cfg, truth)
            # "err:*": the call must report an error of the library (not an OS-level error such as BrokenPipeError)
            good = observed in ok or ("err:*" in ok and observed.startswith("err:") and rec.get("pysmt_exc"))
            if not good:
                oracle = "verdict" if observed.startswith("v:") else "outcome-set"
                reports.append(("s", dict(base, oracle=oracle, call=op, observed=observed.split(" ")[0][:60]),
                                "%s() -> %s, the property allows %s (live assertions %s are %s)%s"
                                % (op if op == "solve" else "solve() inside " + op, observed, sorted(ok), [show(f) for f in cur], "sat" if truth else "unsat",
                                   "; member processes %s were left alive" % rec["others_alive"]
                                   if rec.get("others_alive") else "")))
            if observed.startswith("v:"):
                w = rec.get("winner")
                ans = [(m["delay_ms"], i) for i, m in enumerate(cfg["members"]) if m["mode"] in ANSWERING]
                if len(ans) >= 2:
                    ctx.count("race won by the member with the smallest delay" if (w is not None and w < len(cfg["members"])
                              and cfg["members"][w]["delay_ms"] == min(ans)[0]) else "race won by a slower member")
                    if w is not None and w != min(ans)[1]:
                        ctx.count("race won by a member other than the first fastest")
                if w is None or not (0 <= w < len(cfg["members"])) or cfg["members"][w]["mode"] not in ANSWERING:
                    reports.append(("k", None, "verdict_in_answers: _ext_solver is member %r, which does not answer" % (w,)))
                    reports.append(("s", dict(base, oracle="winner-answers", call=op),
                                    "solve() returned %s but the surviving member %r is not one that answers" % (observed, w)))
                if rec.get("others_alive"):
                    reports.append(("k", None, "losers_dead: after solve() returned, member processes %s are still alive"
                                    % rec["others_alive"]))
                    reports.append(("s", dict(base, oracle="leaked-member", call=op),
                                    "after %s() returned, member processes %s other than the winner are still alive"
                                    % (op, rec["others_alive"])))
                if observed == "v:T" and truth and w is not None and 0 <= w < len(cfg["members"]):
                    if cfg.get("kind") == "ext":
                        # an SMT-LIB member: which model it picks is its own business; a member whose wrapped process
                        # died after the verdict cannot serve queries (that is the member's failure, not the portfolio's)
                        sat_now = None if cfg["members"][w]["mode"] == "crash_after" else (w, None)
                    else:
                        sat_now = (w, sols[cfg["members"][w]["pick"] % len(sols)])
            else:
                if rec.get("others_alive"):
                    reports.append(("k", None, "losers_dead: after solve() raised, member processes %s are still alive"
                                    % rec["others_alive"]))
                    reports.append(("s", dict(base, oracle="leaked-member", call=op),
                                    "after %s() raised %s, member processes %s are still alive"
                                    % (op, observed, rec["others_alive"])))
            continue
        # queries
        if rec.get("skipped"):
            continue
        if op == "kill_winner":
            phase, sat_now = "killed", None
            continue
        if op == "get_boom":
            # the member's solver raises: the exception must come back (F25f) and the member must go on serving
            ctx.count("query failing inside the member")
            if rec.get("exc") != "PysmtValueError":
                reports.append(("k", None, "get_value(boom) -> %s; the model says the winner replies (here: with its exception)"
                                % (rec.get("exc") or rec.get("value"))))
                reports.append(("s", dict(base, oracle="query-failure", call=op, observed="err:%s" % rec.get("exc")),
                                "get_value of a term the member's solver rejects ended with %s instead of the solver's "
                                "PysmtValueError" % (rec.get("exc") or "a value")))
            continue
        if op == "probe_value":
            ctx.count("get_value in phase " + phase)
            exc = rec.get("exc")
            if phase == "none":
                # no solver is kept (no solve() yet, or the last one raised): immediate ValueError (F25e)
                if exc != "ValueError" or rec.get("kept"):
                    reports.append(("k", None, "get_value without a kept solver -> %s (kept=%s); the model: immediate error"
                                    % (exc or rec.get("value"), rec.get("kept"))))
                    reports.append(("s", dict(base, oracle="query-without-solver", call=op, observed="err:%s" % exc),
                                    "get_value after a solve() that gave no verdict ended with %s instead of "
                                    "ValueError('No SAT model')" % (exc or "a value")))
            elif phase == "killed":
                if exc is None:
                    reports.append(("k", None, "get_value after the winner was killed returned %r; the model: EOF error"
                                    % (rec.get("value"),)))
            elif phase in ("unsat", "stale"):
                if exc is not None and rec.get("os_exc"):
                    reports.append(("s", dict(base, oracle="query-failure", call=op, observed="err:%s" % exc),
                                    "get_value after %s ended with the OS-level %s: the serving member died instead of "
                                    "reporting its error" % ("an unsat verdict" if phase == "unsat" else "an edit", exc)))
            elif sat_now is not None:
                w, expected = sat_now
                if exc is not None:
                    reports.append(("s", dict(base, oracle="query", call=op, observed="err:" + exc),
                                    "get_value after a sat verdict raised %s: %s" % (exc, rec.get("msg"))))
                elif expected is not None and step[1] in expected and rec.get("value") != expected[step[1]]:
                    reports.append(("k", None, "serve_from_winner: get_value(x%d) -> %s, the winner's model is %s"
                                    % (step[1], rec.get("value"), expected)))
            continue
        if sat_now is None:
            continue           # after unsat / an exception: behaviour unspecified, nothing to check
        w, expected = sat_now
        if "exc" in rec:
            reports.append(("k", None, "%s raised %s after a sat verdict" % (op, rec["exc"])))
            reports.append(("s", dict(base, oracle="query", call=op, observed="err:" + rec["exc"]),
                            "%s after a sat verdict raised %s: %s" % (op, rec["exc"], rec.get("msg"))))
            return
        got = rec.get("model") if op == "get_model" else rec.get("values")
        asg = {var_index(name): val for name, val in got.items()}
        # S: satisfies the assertions (variables without a value: both completions must work => try all)
        free = [v for v in vs if v not in asg]
        import itertools
        fulls = [dict(asg, **{}) for _ in ()]
        fulls = []
        for vals in itertools.product(*[var_domain(v) for v in free]):
            full = dict(asg)
            full.update(dict(zip(free, vals)))
            fulls.append(full)
        if expected is None:
            # SMT-LIB members: values were asked for some variables only (not for those of sort U): the values obtained
            # must be extensible to a model
            sat_ok = any(all(ev(f, full) for f in cur) for full in fulls)
        else:
            sat_ok = all(all(ev(f, full) for f in cur) for full in fulls)
        if not sat_ok:
            reports.append(("s", dict(base, oracle="model-satisfies", call=op),
                            "%s -> %s does not satisfy the assertions %s" % (op, got, [show(f) for f in cur])))
        if expected is None:
            continue
        # K: served by the winner (its model is a function of its `pick`)
        exp = {v: expected[v] for v in vs}
        seen = {v: asg[v] for v in vs if v in asg}
        if op == "get_model" and free:
            reports.append(("k", None, "get_model -> %s has no value for %s, variables of the live assertions %s"
                            % (got, ["x%d" % v for v in free], [show(f) for f in cur])))
        if op == "get_values":
            # a variable that does not occur in the assertions has the default value of the winner's model
            exp_cmp = {v: exp[v] for v in seen}
        else:
            exp_cmp = exp
        if seen != exp_cmp:
            reports.append(("k", None, "serve_from_winner: %s -> %s, but the winner (member %d, pick %d) has the model %s"
                            % (op, got, w, cfg["members"][w]["pick"], exp)))
    ex = [r for r in records if r.get("step") == "exit"]
    if ex and ex[0].get("exc"):
        reports.append(("s", dict(base, oracle="outcome-set", call="exit", observed="err:" + ex[0]["exc"]),
                        "exit() raised %s: %s" % (ex[0]["exc"], ex[0].get("msg"))))
    if ex and ex[0].get("left"):
        reports.append(("k", None, "after exit() member processes %s are still alive" % ex[0]["left"]))
        reports.append(("s", dict(base, oracle="leaked-member", call="exit"),
                        "after exit() member processes %s are still alive" % ex[0]["left"]))
    if not ex and blocked:
        reports.append(("s", dict(base, oracle="outcome-set", call="exit", observed="blocked"), "exit() blocked (%s)" % blocked))


def flush_reports(ctx, cfg, records, reports, attempts=None):
    rep = {"config": cfg, "readable": describe(cfg), "observed": records}
    if attempts is not None:
        rep["attempts"] = attempts
    for kind, sig, what in reports:
        if kind == "s":
            ctx.report_s(sig, what + " -- " + describe(cfg), rep)
        elif kind == "k":
            ctx.report_k(what + " -- " + describe(cfg), rep)
        elif kind == "l":
            ctx.report_l(what + " -- " + describe(cfg))
        else:
            ctx.infra(what + " -- " + describe(cfg))


def lean_outcome_sets(ctx, cfgs):
    """One driver request per distinct (configuration, truth) pair; returns line -> (solve set, query set)."""
    lines = set()
    for cfg in cfgs:
        stacks = walk(cfg)
        for k, step in enumerate(cfg["script"]):
            if step[0] in SOLVE_OPS:
                lines.add(lean_line(cfg, bool(solutions(solve_stack(step, stacks[k]))[1])))
        lines.add(stack_line(cfg))
    lines = sorted(lines)
    # the driver shards are contiguous chunks: interleave, so that the expensive requests are spread evenly
    sh = max(1, ctx.workers)
    lines = [l for i in range(sh) for l in lines[i::sh]]
    sets = {}
    try:
        answers = ctx.lean_run_sharded("C19", lines) if len(lines) >= 200 else ctx.lean_run("C19", lines)
    except common.LeanError as e:
        ctx.report_l("driver C19 does not run", str(e))
        return sets
    for line, ans in zip(lines, answers):
        if not ans.startswith("ok "):
            ctx.report_l("driver C19: unexpected answer %r to %r" % (ans, line))
            continue
        if line.startswith("stack "):
            sets[line] = [[] if t == "-" else [int(x) for x in t.split(",")] for t in ans[3:].split("|")]
            continue
        parts = [p.strip() for p in ans[3:].split("|")]
        toset = lambda s: set() if s == "-" else set(s.split(","))
        so, qo, cl = toset(parts[0]), toset(parts[1]), toset(parts[2])
        if so != cl:
            ctx.report_l("driver C19: explored outcome set %s differs from the closed form %s for %r"
                         % (sorted(so), sorted(cl), line))
        if "blocked" in qo or "foreign" in qo:
            ctx.report_l("driver C19: query outcomes %s for %r (expected only `winner` under A1)" % (sorted(qo), line))
        sets[line] = (so, qo)
        if len(parts) > 3:
            for kv in parts[3].split():
                k, v = kv.split("=")
                ctx.extra[k] = ctx.extra.get(k, 0) + int(v)
    ctx.extra["model_configurations_explored"] = len([k for k in sets if not k.startswith("stack ")])
    ctx.extra["exhaustive"] = "the model's schedules are enumerated completely for every configuration used " \
                              "(states/transitions = totals); the schedules of the real system are sampled"
    return sets


def run(ctx):
    import pysmt.shortcuts             # noqa: imported before the workers are forked
    import pysmt.solvers.portfolio     # noqa
    cfgs = gen_configs(ctx)
    lean_sets = lean_outcome_sets(ctx, cfgs)
    n_blocked = [0]

    def on_result(cfg, records, blocked):
        reports = []
        check_result(ctx, cfg, records, blocked, lean_sets, reports)
        ctx.case(nontrivial_key(cfg))
        ctx.count("shape " + shape_of(cfg))
        if cfg.get("shape"):
            ctx.count("shape " + cfg["shape"])
        ctx.count("members %d" % len(cfg["members"]))
        if blocked:
            n_blocked[0] += 1
        if len(ctx.samples) < 5 and len(records) > 2:
            ctx.sample({"config": describe(cfg),
                        "observed": [{k: v for k, v in r.items() if k in ("op", "res", "exc", "winner", "model", "values")}
                                     for r in records if isinstance(r.get("step"), int)]})
        flush_reports(ctx, cfg, records, reports)

    def stop():
        # on a broken tree every blocked call costs BLOCK_S: stop after a few, the evidence is there
        return n_blocked[0] >= 6 or ctx.time_left() < BLOCK_S + 15

    workers = max(1, ctx.workers)
    run_configs(ctx, cfgs, workers, on_result, stop)
    ctx.extra["configurations"] = len(cfgs)
    ctx.extra["escalation"] = ("ESCALATE = False: the anchored code runs in forked worker / member processes; the runner's "
                               "line coverage is per process and cannot drive the changed-line escalation for C19")
    ctx.extra["configurations_run"] = ctx.evaluations
    if ctx.evaluations < len(cfgs):
        ctx.extra["stopped_early"] = "blocked calls" if n_blocked[0] >= 6 else "time budget"


def replay(ctx, rep):
    """Re-run the stored configuration (the schedule is up to the OS: up to 25 attempts)."""
    import pysmt.shortcuts             # noqa
    import pysmt.solvers.portfolio     # noqa
    cfg = rep["replay"]["config"]
    lean_sets = lean_outcome_sets(ctx, [cfg])
    attempts = 80
    state = {"n": 0, "hit": False}

    def on_result(cfg_, records, blocked):
        state["n"] += 1
        reports = []
        check_result(ctx, cfg_, records, blocked, lean_sets, reports)
        ctx.case(nontrivial_key(cfg_))
        if any(k in ("s", "k") for k, _, _ in reports) and not state["hit"]:
            state["hit"] = True
            flush_reports(ctx, cfg_, records, reports, attempts=state["n"])

    batch = max(1, min(ctx.workers, 8))
    while state["n"] < attempts and not state["hit"] and ctx.time_left() > BLOCK_S + 15:
        run_configs(ctx, [cfg] * batch, batch, on_result)
    ctx.extra["replay_attempts"] = state["n"]


# --------------------------------------------------------------------------- the controlled external SMT-LIB process
def _ext_main(argv):
    """`c19.py --extsolver --mode ok|unknown|crash|crash_after --delay-ms D`: the strict reference SMT-LIB solver of the
    harness (refsolver.py, enumeration over Bool / Int in [-3, 3] / 3-element declared sorts) with a controlled behaviour
    at `check-sat`: answer after D ms; answer `unknown`; die without an answer; answer and die."""
    import refsolver
    mode, delay = "ok", 0
    i = 0
    while i < len(argv):
        if argv[i] == "--mode":
            mode = argv[i + 1]
        elif argv[i] == "--delay-ms":
            delay = int(argv[i + 1])
        i += 2
    st = refsolver.Strict(3, 3)
    pending = []
    out = sys.stdout
    for line in sys.stdin:
        try:
            pending += refsolver.tokenize(line)
            cmds, pending = refsolver.parse(pending)
        except refsolver.Err:
            cmds, pending = [None], []
        for c in cmds:
            is_check = isinstance(c, list) and c and c[0] == "check-sat"
            if is_check:
                if delay:
                    time.sleep(delay / 1000.0)
                if mode == "crash":
                    os._exit(9)
            reply = '(error "syntax error")' if c is None else st.command(c)
            if is_check and mode == "unknown":
                reply = "unknown"
                st.sat_mode = False
            if reply != "success" or st.print_success:
                out.write(reply + "\n")
                out.flush()
            if is_check and mode == "crash_after":
                os._exit(0)
            if st.exited:
                return 0
    return 0


if __name__ == "__main__":
    if len(sys.argv) > 1 and sys.argv[1] == "--extsolver":
        sys.exit(_ext_main(sys.argv[2:]))
