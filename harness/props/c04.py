"""C04 -- hash-consing: one object per structure, faithful accessors, faithful copies.

K: random construction histories over two fresh Environments are executed on the real
   FormulaManager and, as one `mgr ...` request, on the Lean model (lean/Drivers/C04.lean);
   compared: node id of every returned object (hence the partition into identity classes),
   error class of every rejected call, the complete node table of both managers read back
   through the public accessors (node_type, args, payload accessors, bv_width, symbol
   name/type, constant_value, array_value_index_type, quantifier_vars, function_name),
   array_value_get answers, _next_free_id, _fresh_guess, the symbol table and the type
   manager tables of both environments (incl. after normalize).
S: independent of the Lean model.  A second, purely functional "blueprint" algebra (class
   Blue) computes from the documentation of each constructor the structure the call must
   return (or the error class).  Checked on every history: the object returned has exactly
   the blueprint structure when read through the accessors; two objects of one environment
   never have the same structure; one object never answers two different blueprints;
   array_value_get = dict lookup with default; a normalised copy has the source structure,
   shares no FNode with the source environment, consists of nodes of the target manager,
   and its types are interned in the target TypeManager.
"""
import json
import random
import sys
import time
import warnings
from fractions import Fraction

import common

LEAN_MODULES = ["PySMT.Props.C04"]
RULE = ("a history is a random sequence (quick: 4..400 ops) of FormulaManager constructor calls over two "
        "Environments: typed pools guarantee well-sorted arguments; 30% of the ops re-build an earlier "
        "result along another route (other spelling of constants, GE for LE, list/var-args, replay of the "
        "whole DAG in another order); all 66 node types, every numeric spelling (int/bool/float/Fraction/"
        "pair/str), normalize in both directions.  A history is non-trivial when at least one call "
        "returned an already existing object and at least one normalisation fired; the key is the "
        "multiset of op names plus the identity partition.")
ASSUMPTIONS = [
    "CPython dict/hash semantics, id() and FNode.__eq__/__hash__ (fnode.py:81-99) are trusted; the model abstracts "
    "object identity to the node id and id() to an injective address function supplied per history",
    "formulas are never mixed between environments except through normalize",
    "ill-sorted constructions (rejected by the type checker after the node was inserted) are not generated: C03/C15",
    "float('inf'), float('nan'), gmpy2 numbers, tuples that are not pairs of ints, BV strings with '_', sign or blanks, "
    "Pow with a constant base and a negative or non-integer exponent, a custom sort named 'Array' are not generated",
]

# ----------------------------------------------------------------------------- wire helpers

def hx(s):
    return "".join("%06x" % ord(c) for c in s)


def ty_str(t):
    k = t[0]
    if k in "BIRS":
        return k
    if k == "V":
        return "V%d" % t[1]
    if k == "A":
        return "A(%s,%s)" % (ty_str(t[1]), ty_str(t[2]))
    if k == "F":
        return "F(%s:%s)" % (ty_str(t[1]), ",".join(ty_str(p) for p in t[2]))
    if k == "C":
        return "C%s(%s)" % (hx(t[1]), ",".join(ty_str(p) for p in t[2]))
    raise ValueError(t)


def ty_of_obj(ty):
    """structural tuple of a real PySMTType, read through its public interface"""
    if ty.is_bool_type():
        return ("B",)
    if ty.is_int_type():
        return ("I",)
    if ty.is_real_type():
        return ("R",)
    if ty.is_string_type():
        return ("S",)
    if ty.is_bv_type():
        return ("V", ty.width)
    if ty.is_array_type():
        return ("A", ty_of_obj(ty.index_type), ty_of_obj(ty.elem_type))
    if ty.is_function_type():
        return ("F", ty_of_obj(ty.return_type), tuple(ty_of_obj(p) for p in ty.param_types))
    return ("C", ty.basename, tuple(ty_of_obj(a) for a in (ty.args or ())))


def subtypes(t):
    yield t
    k = t[0]
    if k == "A":
        yield from subtypes(t[1])
        yield from subtypes(t[2])
    elif k == "F":
        yield from subtypes(t[1])
        for p in t[2]:
            yield from subtypes(p)
    elif k == "C":
        for p in t[2]:
            yield from subtypes(p)


def classify(e):
    if isinstance(e, AssertionError):
        return "E:assert"
    if isinstance(e, ZeroDivisionError):
        return "E:zerodiv"
    if isinstance(e, IndexError):
        return "E:index"
    if isinstance(e, (TypeError, AttributeError)):
        return "E:type"
    if isinstance(e, ValueError):
        return "E:value"
    return "E:other:" + type(e).__name__


class Expected(Exception):
    """blueprint: the call must be rejected with this class"""
    def __init__(self, cls):
        Exception.__init__(self, cls)
        self.cls = cls


# ----------------------------------------------------------------------------- blueprint algebra (S oracle)
NTN = {}


def _load_ops():
    import pysmt.operators as op
    for name in dir(op):
        v = getattr(op, name)
        if name.isupper() and isinstance(v, int) and not isinstance(v, bool):
            NTN[name] = v
    return op


class Blue(object):
    """Pure term algebra with its own interning (independent of pysmt's and of the Lean
    model).  A term is an int `kid`; `self.node[kid] = (nt, argkids, payloadkey)`."""

    def __init__(self):
        self.tab = {}
        self.node = []
        self.ty = []
        self.T = self.mk(NTN["BOOL_CONSTANT"], (), ("b", True), ("B",))
        self.F = self.mk(NTN["BOOL_CONSTANT"], (), ("b", False), ("B",))

    def mk(self, nt, args, payload, ty):
        key = (nt, tuple(args), payload)
        k = self.tab.get(key)
        if k is None:
            k = len(self.node)
            self.tab[key] = k
            self.node.append(key)
            self.ty.append(ty)
        return k

    def nt(self, k):
        return self.node[k][0]

    def is_const(self, k):
        n = self.node[k]
        if n[0] in (NTN["BOOL_CONSTANT"], NTN["REAL_CONSTANT"], NTN["INT_CONSTANT"], NTN["BV_CONSTANT"],
                    NTN["STR_CONSTANT"], NTN["ALGEBRAIC_CONSTANT"]):
            return True
        if n[0] == NTN["ARRAY_VALUE"]:
            return all(self.is_const(a) for a in n[1])
        return False

    def width(self, k):
        t = self.ty[k]
        if t[0] != "V":
            raise Expected("E:assert")
        return t[1]

    # --- leaves
    def Symbol(self, name, ty):
        return self.mk(NTN["SYMBOL"], (), ("y", name, ty), ty)

    def Real(self, spelling):
        kind, v = spelling
        if kind == "int":
            q = Fraction(v)
        elif kind in ("float", "frac"):
            q = Fraction(v[0], v[1])
        elif kind == "pair":
            if v[1] == 0:
                raise Expected("E:zerodiv")
            q = Fraction(v[0], v[1])
        else:
            raise Expected("E:type")
        return self.mk(NTN["REAL_CONSTANT"], (), ("q", q.numerator, q.denominator), ("R",))

    def Int(self, spelling):
        kind, v = spelling
        if kind != "int":
            raise Expected("E:type")
        return self.mk(NTN["INT_CONSTANT"], (), ("i", v), ("I",))

    def Bool(self, spelling):
        kind, v = spelling
        if kind != "bool":
            raise Expected("E:type")
        return self.T if v else self.F

    def String(self, s):
        if s is None:
            raise Expected("E:type")
        return self.mk(NTN["STR_CONSTANT"], (), ("s", s), ("S",))

    def BV(self, val, width):
        kind, v = val
        if kind == "str":
            body = v[2:] if v.startswith("#b") else v
            if body == "" or any(c not in "01" for c in body):
                raise Expected("E:value")
            if width is not None and width != len(body):
                raise Expected("E:value")
            width = len(body)
            v = int(body, 2)
        elif kind != "int":
            if kind == "other" and width is None:
                raise Expected("E:value")
            raise Expected("E:type")
        if width is None:
            raise Expected("E:value")
        if v < 0 or v >= 2 ** width:
            raise Expected("E:value")
        return self.mk(NTN["BV_CONSTANT"], (), ("v", v, width), ("V", width))

    def SBV(self, val, width):
        kind, v = val
        if kind == "int":
            if width is None or width == 0:
                raise Expected("E:value")
            if v < -(2 ** (width - 1)) or v > 2 ** (width - 1) - 1:
                raise Expected("E:value")
            return self.BV(("int", v % (2 ** width)), width)
        return self.BV(val, width)

    def Algebraic(self, tag):
        return self.mk(NTN["ALGEBRAIC_CONSTANT"], (), ("a", tag), ("R",))

    # --- generic
    def plain(self, ntname, args, ty):
        return self.mk(NTN[ntname], args, None, ty)

    def Not(self, a):
        if self.nt(a) == NTN["NOT"]:
            return self.node[a][1][0]
        return self.plain("NOT", (a,), ("B",))

    def nary(self, ntname, args, empty):
        if len(args) == 0:
            if empty is None:
                raise Expected("E:type")
            return empty
        if len(args) == 1:
            return args[0]
        return self.plain(ntname, args, self.ty[args[0]])

    def And(self, args):
        return self.nary("AND", args, self.T)

    def Or(self, args):
        return self.nary("OR", args, self.F)

    def Quant(self, ntname, vs, body):
        if not vs:
            return body
        return self.mk(NTN[ntname], (body,), ("V", tuple(vs)), ("B",))

    def Function(self, f, params):
        if not params:
            return f
        ft = self.ty[f]
        if ft[0] != "F":
            raise Expected("E:type")
        if len(ft[2]) != len(params):
            raise Expected("E:value")
        return self.mk(NTN["FUNCTION"], tuple(params), ("f", f), ft[1])

    def Ite(self, c, a, b):
        return self.plain("ITE", (c, a, b), self.ty[a])

    def EqualsOrIff(self, a, b):
        if self.ty[a] == ("B",):
            return self.plain("IFF", (a, b), ("B",))
        return self.plain("EQUALS", (a, b), ("B",))

    def Pow(self, b, e):
        if not self.is_const(e):
            raise Expected("E:value")
        if self.is_const(b):
            pb, pe = self.node[b][2], self.node[e][2]
            if pb[0] == "i":
                return self.Real(("int", pb[1] ** pe[1]))
            q = Fraction(pb[1], pb[2]) ** pe[1]
            return self.Real(("frac", (q.numerator, q.denominator)))
        return self.plain("POW", (b, e), ("R",))

    def Div(self, l, r):
        n = self.node[r]
        if n[0] == NTN["REAL_CONSTANT"] and n[2][1] != 0:
            q = 1 / Fraction(n[2][1], n[2][2])
            return self.nary("TIMES", (l, self.Real(("frac", (q.numerator, q.denominator)))), None)
        return self.plain("DIV", (l, r), self.ty[l])

    def ToReal(self, a):
        t = self.ty[a]
        if t == ("R",):
            return a
        if t == ("I",):
            if self.nt(a) == NTN["INT_CONSTANT"]:
                return self.Real(("int", self.node[a][2][1]))
            return self.plain("TOREAL", (a,), ("R",))
        raise Expected("E:type")

    def MinMax(self, is_min, le, args):
        if len(args) == 0:
            raise Expected("E:assert")
        if len(args) == 1:
            return args[0]
        if len(args) == 2:
            a, b = args
        else:
            h = len(args) // 2
            a = self.MinMax(is_min, le, args[:h])
            b = self.MinMax(is_min, le, args[h:])
        c = self.plain(le, (a, b), ("B",))
        return self.Ite(c, a, b) if is_min else self.Ite(c, b, a)

    def AtMostOne(self, args):
        cs = []
        for i in range(len(args) - 1):
            cs.append(self.plain("IMPLIES", (args[i], self.Not(self.Or(tuple(args[i + 1:])))), ("B",)))
        return self.And(tuple(cs))

    def ExactlyOne(self, args):
        return self.And((self.Or(tuple(args)), self.AtMostOne(args)))

    def AllDifferent(self, args):
        cs = []
        for i in range(len(args)):
            for j in range(i + 1, len(args)):
                cs.append(self.Not(self.EqualsOrIff(args[i], args[j])))
        return self.And(tuple(cs))

    # --- bit-vectors
    def bvop(self, ntname, args, payload, width):
        return self.mk(NTN[ntname], args, ("n",) + tuple(payload), ("V", width))

    def BVUn(self, ntname, a):
        w = self.width(a)
        return self.bvop(ntname, (a,), (w,), w)

    def BVBin(self, ntname, a, b):
        w = self.width(a)
        return self.bvop(ntname, (a, b), (w,), w)

    def BVNary(self, ntname, args):
        if not args:
            raise Expected("E:value")
        r = args[0]
        for a in args[1:]:
            r = self.BVBin(ntname, r, a)
        return r

    def BVConcat(self, args):
        if len(args) < 2:
            raise Expected("E:index")
        r = args[0]
        for a in args[1:]:
            w = self.width(r) + self.width(a)
            r = self.bvop("BV_CONCAT", (r, a), (w,), w)
        return r

    def BVExtract(self, a, start, end):
        w = self.width(a)
        if end is None:
            end = w - 1
        if not (end >= start and start >= 0):
            raise Expected("E:assert")
        size = end - start + 1
        if size > w:
            raise Expected("E:assert")
        return self.bvop("BV_EXTRACT", (a,), (size, start, end), size)

    def BVShift(self, ntname, a, b):
        if b[0] == "int":
            b = self.BV(("int", b[1]), self.width(a))
        else:
            b = b[1]
        return self.BVBin(ntname, a, b)

    def BVRot(self, ntname, a, n):
        w = self.width(a)
        return self.bvop(ntname, (a,), (w, n), w)

    def BVExt(self, ntname, a, n):
        w = self.width(a)
        return self.bvop(ntname, (a,), (w + n, n), w + n)

    def BVComp(self, a, b):
        return self.bvop("BV_COMP", (a, b), (1,), 1)

    def BVRepeat(self, a, n):
        r = a
        for _ in range(n - 1):
            r = self.BVConcat((r, a))
        return r

    def BVSMod(self, s, t):
        m = self.width(s)
        z1 = self.BV(("str", "#b0"), None)
        o1 = self.BV(("str", "#b1"), None)
        ms = self.BVExtract(s, m - 1, m - 1)
        mt = self.BVExtract(t, m - 1, m - 1)
        eq = lambda a, b: self.plain("EQUALS", (a, b), ("B",))
        abs_s = self.Ite(eq(ms, z1), s, self.BVUn("BV_NEG", s))
        abs_t = self.Ite(eq(mt, z1), t, self.BVUn("BV_NEG", t))
        u = self.BVBin("BV_UREM", abs_s, abs_t)
        c1 = eq(u, self.BV(("int", 0), m))
        c2 = self.And((eq(ms, z1), eq(mt, z1)))
        c3 = self.And((eq(ms, o1), eq(mt, z1)))
        c4 = self.And((eq(ms, z1), eq(mt, o1)))
        case3 = self.BVNary("BV_ADD", (self.BVUn("BV_NEG", u), t))
        case4 = self.BVNary("BV_ADD", (u, t))
        case5 = self.BVUn("BV_NEG", u)
        return self.Ite(self.Or((c1, c2)), u, self.Ite(c3, case3, self.Ite(c4, case4, case5)))

    # --- arrays
    def Array(self, idx_ty, default, assign, order):
        """assign: dict key kid -> value kid; order: the key kids in increasing address order
        (the only thing the blueprint takes from the run: CPython addresses)"""
        for k in assign:
            if not self.is_const(k):
                raise Expected("E:value")
        args = [default]
        for k in order:
            if assign[k] != default:
                args += [k, assign[k]]
        return self.mk(NTN["ARRAY_VALUE"], tuple(args), ("t", idx_ty), ("A", idx_ty, self.ty[default]))

    def canon(self, k, memo):
        """structure modulo the order of array-value assignments (for normalize)"""
        r = memo.get(k)
        if r is not None:
            return r
        nt, args, pl = self.node[k]
        cargs = tuple(self.canon(a, memo) for a in args)
        if nt == NTN["ARRAY_VALUE"]:
            pairs = sorted(zip(cargs[1::2], cargs[2::2]))
            cargs = (cargs[0],) + tuple(x for p in pairs for x in p)
        if pl is not None and pl[0] == "V":
            pl = ("V", tuple(self.canon(v, memo) for v in pl[1]))
        elif pl is not None and pl[0] == "f":
            pl = ("f", self.canon(pl[1], memo))
        r = ("c", nt, cargs, pl)
        r = memo.setdefault(("intern", r), len(memo))
        memo[k] = r
        return r
