"""C04 -- hash-consing: one object per structure, faithful accessors, faithful copies.

K: random construction histories over three fresh Environments are executed on the real
   FormulaManager and, as one `mgr ...` request, on the Lean model (lean/Drivers/C04.lean);
   compared: node id of every returned object (hence the partition into identity classes),
   error class of every rejected call, the complete node table of both managers read back
   through the public accessors (node_type, args, payload accessors, bv_width, symbol
   name/type, constant_value, array_value_index_type, quantifier_vars, function_name),
   array_value_get answers, _next_free_id, _fresh_guess, the symbol table and the type
   manager tables of all environments (incl. after normalize).  normalize goes from any
   environment into any other (several sources interleaved on one target, whose normalizer
   keeps its memo) and from an environment into itself (own formulas, after foreign ones).
S: independent of the Lean model.  A second, purely functional "blueprint" algebra (class
   Blue) computes from the documentation of each constructor the structure the call must
   return (or the error class).  Checked on every history: the object returned has exactly
   the blueprint structure when read through the accessors; two objects of one environment
   never have the same structure; one object never answers two different blueprints;
   array_value_get = dict lookup with default; a normalised copy has the source structure,
   shares no FNode with the source environment, consists of nodes of the target manager,
   and its types are interned in the target TypeManager; normalize of a manager's own
   formula returns that very object.
"""
import json
import random
import sys
import time
import warnings
from fractions import Fraction

import common

LEAN_MODULES = ["PySMT.Props.C04"]
RULE = ("a history is a random sequence (quick: 4..400 ops) of FormulaManager constructor calls over one to three "
        "Environments: typed pools guarantee well-sorted arguments; 30% of the ops re-build an earlier "
        "result along another route (other spelling of constants, GE for LE, list/var-args, replay of the "
        "whole DAG in another order); all 66 node types, every numeric spelling (int/bool/float/Fraction/"
        "pair/str, floats of extreme magnitude), confusable sorts (declared sorts printing like built-ins), the "
        "pysmt.shortcuts and FNode operator/method routes to the constructors, lazy iterables, ill-sorted one-node calls, "
        "normalize between all pairs of environments incl. an environment and itself (also through the shortcuts), interleaved.  A history is non-trivial when at least one call "
        "returned an already existing object and at least one normalisation fired; the key is the "
        "multiset of op names plus the identity partition.")
ASSUMPTIONS = [
    "CPython dict/hash semantics, id() and FNode.__eq__/__hash__ (fnode.py:81-99) are trusted; the model abstracts "
    "object identity to the node id and id() to an injective address function supplied per history",
    "formulas are never mixed between environments except through normalize; three environments per history",
    "ill-sorted constructions (rejected by the type checker after the node was inserted) are not generated: C03/C15",
    "float('inf'), float('nan'), gmpy2 numbers, tuples that are not pairs of ints, BV strings with '_', sign or blanks, "
    "Pow with a constant base and a negative or non-integer exponent, a custom sort named 'Array' are not generated",
]

# ----------------------------------------------------------------------------- wire helpers

def hx(s):
    return "".join("%06x" % ord(c) for c in s)


def ty_str(t):
    k = t[0]
    if k in "BIRS":
        return k
    if k == "V":
        return "V%d" % t[1]
    if k == "A":
        return "A(%s,%s)" % (ty_str(t[1]), ty_str(t[2]))
    if k == "F":
        return "F(%s:%s)" % (ty_str(t[1]), ",".join(ty_str(p) for p in t[2]))
    if k == "C":
        return "C%s(%s)" % (hx(t[1]), ",".join(ty_str(p) for p in t[2]))
    raise ValueError(t)


def ty_of_obj(ty):
    """structural tuple of a real PySMTType, read through its public interface"""
    if ty.is_bool_type():
        return ("B",)
    if ty.is_int_type():
        return ("I",)
    if ty.is_real_type():
        return ("R",)
    if ty.is_string_type():
        return ("S",)
    if ty.is_bv_type():
        return ("V", ty.width)
    if ty.is_array_type():
        return ("A", ty_of_obj(ty.index_type), ty_of_obj(ty.elem_type))
    if ty.is_function_type():
        return ("F", ty_of_obj(ty.return_type), tuple(ty_of_obj(p) for p in ty.param_types))
    return ("C", ty.basename, tuple(ty_of_obj(a) for a in (ty.args or ())))


def subtypes(t):
    yield t
    k = t[0]
    if k == "A":
        yield from subtypes(t[1])
        yield from subtypes(t[2])
    elif k == "F":
        yield from subtypes(t[1])
        for p in t[2]:
            yield from subtypes(p)
    elif k == "C":
        for p in t[2]:
            yield from subtypes(p)


def classify(e):
    if isinstance(e, AssertionError):
        return "E:assert"
    if isinstance(e, ZeroDivisionError):
        return "E:zerodiv"
    if isinstance(e, IndexError):
        return "E:index"
    if isinstance(e, (TypeError, AttributeError)):
        return "E:type"
    if isinstance(e, ValueError):
        return "E:value"
    return "E:other:" + type(e).__name__


def _expect(cls):
    raise Expected(cls)


class Expected(Exception):
    """blueprint: the call must be rejected with this class"""
    def __init__(self, cls):
        Exception.__init__(self, cls)
        self.cls = cls


# ----------------------------------------------------------------------------- blueprint algebra (S oracle)
NTN = {}


def _load_ops():
    import pysmt.operators as op
    for name in dir(op):
        v = getattr(op, name)
        if name.isupper() and isinstance(v, int) and not isinstance(v, bool):
            NTN[name] = v
    return op


class Blue(object):
    """Pure term algebra with its own interning (independent of pysmt's and of the Lean
    model).  A term is an int `kid`; `self.node[kid] = (nt, argkids, payloadkey)`."""

    def __init__(self):
        self.tab = {}
        self.node = []
        self.ty = []
        self.T = self.mk(NTN["BOOL_CONSTANT"], (), ("b", True), ("B",))
        self.F = self.mk(NTN["BOOL_CONSTANT"], (), ("b", False), ("B",))

    def mk(self, nt, args, payload, ty):
        key = (nt, tuple(args), payload)
        k = self.tab.get(key)
        if k is None:
            k = len(self.node)
            self.tab[key] = k
            self.node.append(key)
            self.ty.append(ty)
        return k

    def nt(self, k):
        return self.node[k][0]

    def is_const(self, k):
        n = self.node[k]
        if n[0] in (NTN["BOOL_CONSTANT"], NTN["REAL_CONSTANT"], NTN["INT_CONSTANT"], NTN["BV_CONSTANT"],
                    NTN["STR_CONSTANT"], NTN["ALGEBRAIC_CONSTANT"]):
            return True
        if n[0] == NTN["ARRAY_VALUE"]:
            return all(self.is_const(a) for a in n[1])
        return False

    def width(self, k):
        t = self.ty[k]
        if t[0] != "V":
            raise Expected("E:assert")
        return t[1]

    # --- leaves
    def Symbol(self, name, ty):
        return self.mk(NTN["SYMBOL"], (), ("y", name, ty), ty)

    def Real(self, spelling):
        kind, v = spelling
        if kind == "int":
            q = Fraction(v)
        elif kind in ("float", "frac"):
            q = Fraction(v[0], v[1])
        elif kind == "pair":
            if v[1] == 0:
                raise Expected("E:zerodiv")
            q = Fraction(v[0], v[1])
        else:
            raise Expected("E:type")
        return self.mk(NTN["REAL_CONSTANT"], (), ("q", q.numerator, q.denominator), ("R",))

    def Int(self, spelling):
        kind, v = spelling
        if kind != "int":
            raise Expected("E:type")
        return self.mk(NTN["INT_CONSTANT"], (), ("i", v), ("I",))

    def Bool(self, spelling):
        kind, v = spelling
        if kind != "bool":
            raise Expected("E:type")
        return self.T if v else self.F

    def String(self, s):
        if s is None:
            raise Expected("E:type")
        return self.mk(NTN["STR_CONSTANT"], (), ("s", s), ("S",))

    def BV(self, val, width):
        """width: None, an int, or ("alt", n, python value): a bool / float equal to the int n"""
        kind, v = val
        alt = isinstance(width, tuple)
        wnum = width[1] if alt else width
        if kind == "str":
            body = v[2:] if v.startswith("#b") else v
            if body == "" or any(c not in "01" for c in body):
                raise Expected("E:value")
            if wnum is not None and wnum != len(body):
                raise Expected("E:value")
            return self.mk(NTN["BV_CONSTANT"], (), ("v", int(body, 2), len(body)), ("V", len(body)))
        if wnum is None:
            raise Expected("E:value")
        if alt:
            raise Expected("E:type")        # the width is part of the constant: only an int names it
        if wnum <= 0:
            raise Expected("E:value")
        if kind != "int":
            raise Expected("E:type")
        if v < 0 or v >= 2 ** wnum:
            raise Expected("E:value")
        return self.mk(NTN["BV_CONSTANT"], (), ("v", v, wnum), ("V", wnum))

    def SBV(self, val, width):
        kind, v = val
        if kind == "int":
            wnum = width[1] if isinstance(width, tuple) else width
            if wnum is None or wnum <= 0:
                raise Expected("E:value")
            if v < -(2 ** (wnum - 1)) or v > 2 ** (wnum - 1) - 1:
                raise Expected("E:value")
            return self.BV(("int", v % (2 ** wnum)), width)
        return self.BV(val, width)

    def Algebraic(self, tag):
        return self.mk(NTN["ALGEBRAIC_CONSTANT"], (), ("a", tag), ("R",))

    # --- generic
    def plain(self, ntname, args, ty):
        return self.mk(NTN[ntname], args, None, ty)

    def Not(self, a):
        if self.nt(a) == NTN["NOT"]:
            return self.node[a][1][0]
        return self.plain("NOT", (a,), ("B",))

    def nary(self, ntname, args, empty):
        if len(args) == 0:
            if empty is None:
                raise Expected("E:type")
            return empty
        if len(args) == 1:
            return args[0]
        return self.plain(ntname, args, self.ty[args[0]])

    def And(self, args):
        return self.nary("AND", args, self.T)

    def Or(self, args):
        return self.nary("OR", args, self.F)

    def Quant(self, ntname, vs, body):
        if not vs:
            return body
        return self.mk(NTN[ntname], (body,), ("V", tuple(vs)), ("B",))

    def Function(self, f, params):
        if not params:
            return f
        ft = self.ty[f]
        if ft[0] != "F":
            raise Expected("E:type")
        if len(ft[2]) != len(params):
            raise Expected("E:value")
        return self.mk(NTN["FUNCTION"], tuple(params), ("f", f), ft[1])

    def Ite(self, c, a, b):
        return self.plain("ITE", (c, a, b), self.ty[a])

    def EqualsOrIff(self, a, b):
        if self.ty[a] == ("B",):
            return self.plain("IFF", (a, b), ("B",))
        return self.plain("EQUALS", (a, b), ("B",))

    def Pow(self, b, e):
        if not self.is_const(e):
            raise Expected("E:value")
        if self.is_const(b):
            pb, pe = self.node[b][2], self.node[e][2]
            if pb[0] == "i":
                return self.Real(("int", pb[1] ** pe[1]))
            q = Fraction(pb[1], pb[2]) ** pe[1]
            return self.Real(("frac", (q.numerator, q.denominator)))
        return self.plain("POW", (b, e), ("R",))

    def Div(self, l, r):
        n = self.node[r]
        if n[0] == NTN["REAL_CONSTANT"] and n[2][1] != 0:
            q = 1 / Fraction(n[2][1], n[2][2])
            return self.nary("TIMES", (l, self.Real(("frac", (q.numerator, q.denominator)))), None)
        return self.plain("DIV", (l, r), self.ty[l])

    def ToReal(self, a):
        t = self.ty[a]
        if t == ("R",):
            return a
        if t == ("I",):
            if self.nt(a) == NTN["INT_CONSTANT"]:
                return self.Real(("int", self.node[a][2][1]))
            return self.plain("TOREAL", (a,), ("R",))
        raise Expected("E:type")

    def MinMax(self, is_min, le, args):
        if len(args) == 0:
            raise Expected("E:assert")
        if len(args) == 1:
            return args[0]
        if len(args) == 2:
            a, b = args
        else:
            h = len(args) // 2
            a = self.MinMax(is_min, le, args[:h])
            b = self.MinMax(is_min, le, args[h:])
        c = self.plain(le, (a, b), ("B",))
        return self.Ite(c, a, b) if is_min else self.Ite(c, b, a)

    def AtMostOne(self, args):
        cs = []
        for i in range(len(args) - 1):
            cs.append(self.plain("IMPLIES", (args[i], self.Not(self.Or(tuple(args[i + 1:])))), ("B",)))
        return self.And(tuple(cs))

    def ExactlyOne(self, args):
        return self.And((self.Or(tuple(args)), self.AtMostOne(args)))

    def AllDifferent(self, args):
        cs = []
        for i in range(len(args)):
            for j in range(i + 1, len(args)):
                cs.append(self.Not(self.EqualsOrIff(args[i], args[j])))
        return self.And(tuple(cs))

    # --- bit-vectors
    def bvop(self, ntname, args, payload, width):
        return self.mk(NTN[ntname], args, ("n",) + tuple(payload), ("V", width))

    def BVUn(self, ntname, a):
        w = self.width(a)
        return self.bvop(ntname, (a,), (w,), w)

    def BVBin(self, ntname, a, b):
        w = self.width(a)
        return self.bvop(ntname, (a, b), (w,), w)

    def BVNary(self, ntname, args):
        if not args:
            raise Expected("E:value")
        r = args[0]
        for a in args[1:]:
            r = self.BVBin(ntname, r, a)
        return r

    def BVConcat(self, args):
        if len(args) < 2:
            raise Expected("E:index")
        r = args[0]
        for a in args[1:]:
            w = self.width(r) + self.width(a)
            r = self.bvop("BV_CONCAT", (r, a), (w,), w)
        return r

    def BVExtract(self, a, start, end):
        w = self.width(a)
        if end is None:
            end = w - 1
        if not (end >= start and start >= 0):
            raise Expected("E:assert")
        size = end - start + 1
        if size > w:
            raise Expected("E:assert")
        return self.bvop("BV_EXTRACT", (a,), (size, start, end), size)

    def BVShift(self, ntname, a, b):
        if b[0] == "int":
            b = self.BV(("int", b[1]), self.width(a))
        else:
            b = b[1]
        return self.BVBin(ntname, a, b)

    def BVRot(self, ntname, a, n):
        w = self.width(a)
        return self.bvop(ntname, (a,), (w, n), w)

    def BVExt(self, ntname, a, n):
        w = self.width(a)
        return self.bvop(ntname, (a,), (w + n, n), w + n)

    def BVComp(self, a, b):
        return self.bvop("BV_COMP", (a, b), (1,), 1)

    def BVRepeat(self, a, n):
        r = a
        for _ in range(n - 1):
            r = self.BVConcat((r, a))
        return r

    def BVSMod(self, s, t):
        m = self.width(s)
        z1 = self.BV(("str", "#b0"), None)
        o1 = self.BV(("str", "#b1"), None)
        ms = self.BVExtract(s, m - 1, m - 1)
        mt = self.BVExtract(t, m - 1, m - 1)
        eq = lambda a, b: self.plain("EQUALS", (a, b), ("B",))
        abs_s = self.Ite(eq(ms, z1), s, self.BVUn("BV_NEG", s))
        abs_t = self.Ite(eq(mt, z1), t, self.BVUn("BV_NEG", t))
        u = self.BVBin("BV_UREM", abs_s, abs_t)
        c1 = eq(u, self.BV(("int", 0), m))
        c2 = self.And((eq(ms, z1), eq(mt, z1)))
        c3 = self.And((eq(ms, o1), eq(mt, z1)))
        c4 = self.And((eq(ms, z1), eq(mt, o1)))
        case3 = self.BVNary("BV_ADD", (self.BVUn("BV_NEG", u), t))
        case4 = self.BVNary("BV_ADD", (u, t))
        case5 = self.BVUn("BV_NEG", u)
        return self.Ite(self.Or((c1, c2)), u, self.Ite(c3, case3, self.Ite(c4, case4, case5)))

    # --- arrays
    def Array(self, idx_ty, default, assign, order):
        """assign: dict key kid -> value kid; order: the key kids in increasing address order
        (the only thing the blueprint takes from the run: CPython addresses)"""
        args = [default]
        for k in order:
            if not self.is_const(k):
                raise Expected("E:value")
            if assign[k] != default:
                args += [k, assign[k]]
            elif self.ty[k] != idx_ty:
                raise Expected("E:type")    # a dropped assignment is still checked for its index sort
        return self.mk(NTN["ARRAY_VALUE"], tuple(args), ("t", idx_ty), ("A", idx_ty, self.ty[default]))

    def canon(self, k, memo):
        """structure modulo the order of array-value assignments (for normalize)"""
        r = memo.get(k)
        if r is not None:
            return r
        nt, args, pl = self.node[k]
        cargs = tuple(self.canon(a, memo) for a in args)
        if nt == NTN["ARRAY_VALUE"]:
            pairs = sorted(zip(cargs[1::2], cargs[2::2]))
            cargs = (cargs[0],) + tuple(x for p in pairs for x in p)
        if pl is not None and pl[0] == "V":
            pl = ("V", tuple(self.canon(v, memo) for v in pl[1]))
        elif pl is not None and pl[0] == "f":
            pl = ("f", self.canon(pl[1], memo))
        r = ("c", nt, cargs, pl)
        r = memo.setdefault(("intern", r), len(memo))
        memo[k] = r
        return r


# ----------------------------------------------------------------------------- spellings
def sp_py(sp):
    kind, v = sp
    if kind == "int":
        return v
    if kind == "bool":
        return v
    if kind == "float":
        return v[0] / v[1]
    if kind == "frac":
        return Fraction(v[0], v[1])
    if kind == "pair":
        return (v[0], v[1])
    return "1"


def sp_wire(sp):
    kind, v = sp
    if kind == "int":
        return "int:%d" % v
    if kind == "bool":
        return "bool:%d" % (1 if v else 0)
    if kind in ("float", "frac"):
        return "%s:%d/%d" % (kind, v[0], v[1])
    if kind == "pair":
        return "pair:%d,%d" % v
    return "other"


def is_dyadic(q):
    """is q exactly a Python float (normal, subnormal, huge or tiny)?"""
    try:
        return Fraction(q.numerator / q.denominator) == q
    except (OverflowError, ZeroDivisionError):
        return False


def real_spellings(q, rng):
    """every documented spelling of the rational q"""
    out = [("frac", (q.numerator, q.denominator))]
    for k in (1, -1, 2, 3, -5):
        out.append(("pair", (q.numerator * k, q.denominator * k)))
    if q.denominator == 1:
        out.append(("int", q.numerator))
    if is_dyadic(q):
        out.append(("float", (q.numerator, q.denominator)))
    return out


def bv_spellings(v, w):
    """(ctor, value spelling, width argument)"""
    b = format(v, "0%db" % w)
    out = [("BV", ("int", v), w), ("BV", ("str", "#b" + b), None), ("BV", ("str", "#b" + b), w),
           ("BV", ("str", b), None), ("BV", ("str", b), w)]
    if v < 2 ** (w - 1):
        out.append(("SBV", ("int", v), w))
    else:
        out.append(("SBV", ("int", v - 2 ** w), w))
    out.append(("SBV", ("str", "#b" + b), None))
    if v == 0:
        out.append(("BVZero", None, w))
    if v == 1:
        out.append(("BVOne", None, w))
    return out


def bv_value(rng, w):
    """a value of width w: often 0, 1, all ones, exactly 2^(w-1) (the most negative) or next to it"""
    if rng.random() < 0.45:
        return rng.choice([0, 1, 2 ** w - 1, 2 ** (w - 1), max(2 ** (w - 1) - 1, 0), min(2 ** (w - 1) + 1, 2 ** w - 1)])
    return rng.randrange(2 ** w)


def w_py(w):
    return w[2] if isinstance(w, tuple) else w


def w_wire(w):
    if w is None:
        return "N"
    if isinstance(w, tuple):
        return "a%d" % w[1]
    return str(w)


def alt_width(rng, w):
    """a Python value that is == w and hashes like it but is not an int"""
    return ("alt", w, True) if w == 1 and rng.random() < 0.7 else ("alt", w, float(w))


def bvval_py(val):
    kind, v = val
    if kind in ("int", "str"):
        return v
    if kind == "bool":
        return True
    return None


def bvval_wire(val):
    kind, v = val
    if kind == "int":
        return "i%d" % v
    if kind == "str":
        return "s" + hx(v)
    return "o"


NENV = 3


class patched_get_env(object):
    """`pysmt.shortcuts` works on the environment on top of the global stack; here it is made
    to see `env` without pushing it (pushing would also redirect the type checker's
    `BVType()/ArrayType()` factories and register types in `env`'s TypeManager)."""
    def __init__(self, env):
        self.env = env

    def __enter__(self):
        import pysmt.shortcuts as sc
        self.sc, self.old = sc, sc.get_env
        sc.get_env = lambda: self.env

    def __exit__(self, *a):
        self.sc.get_env = self.old


class ViaShortcuts(object):
    """manager look-alike whose constructors are the functions of pysmt.shortcuts"""
    def __init__(self, mgr, env):
        self._mgr, self._env = mgr, env

    def __getattr__(self, name):
        import pysmt.shortcuts as sc
        f = getattr(sc, name, None)
        if f is None or name in ("normalize", "BVType", "Type"):
            return getattr(self._mgr, name)

        def call(*a, **k):
            with patched_get_env(self._env):
                return f(*a, **k)
        return call


class patched_infix(object):
    """the infix / method layer of FNode works on the global environment (`fnode._env/_mgr`);
    here it is pointed to `env` without pushing it (the default global environment has infix
    notation enabled, which is all `assert_infix_enabled` looks at)"""
    def __init__(self, env):
        self.env = env

    def __enter__(self):
        import pysmt.fnode as fn
        import pysmt.environment as pe
        self.fn, self.old = fn, (fn._env, fn._mgr)
        # only the manager the operators build in is redirected; `_env()` (type checker and
        # serializer used by get_type() / error messages) stays the global one: printing an
        # array value registers its array type in the PRINTER's TypeManager
        # (printers.py:284), which must not land in the compared environment
        fn._mgr = lambda: self.env.formula_manager
        self.flag = pe.get_env().enable_infix_notation
        pe.get_env().enable_infix_notation = True

    def __exit__(self, *a):
        import pysmt.environment as pe
        self.fn._env, self.fn._mgr = self.old
        pe.get_env().enable_infix_notation = self.flag


INFIX2 = {"Plus": "__add__", "Minus": "__sub__", "Times": "__mul__", "Div": "__truediv__", "GT": "__gt__", "GE": "__ge__",
          "LT": "__lt__", "LE": "__le__", "And": "__and__", "Or": "__or__", "Xor": "__xor__",
          "BVAdd": "__add__", "BVSub": "__sub__", "BVMul": "__mul__", "BVUDiv": "__truediv__", "BVUGT": "__gt__",
          "BVUGE": "__ge__", "BVULT": "__lt__", "BVULE": "__le__", "BVAnd": "__and__", "BVOr": "__or__",
          "BVXor": "__xor__", "BVLShl": "__lshift__", "BVLShr": "__rshift__", "BVURem": "__mod__",
          "Implies": "Implies", "Iff": "Iff", "Equals": "Equals", "NotEquals": "NotEquals",
          "BVSLT": "BVSLT", "BVSLE": "BVSLE", "BVSGT": "BVSGT", "BVSGE": "BVSGE", "BVComp": "BVComp",
          "BVSDiv": "BVSDiv", "BVSRem": "BVSRem", "BVAShr": "BVAShr", "BVNand": "BVNand", "BVNor": "BVNor",
          "BVXnor": "BVXnor", "BVConcat": "BVConcat"}
INFIX1 = {"Not": "__invert__", "BVNot": "__invert__", "BVNeg": "__neg__"}


class ViaInfix(object):
    """manager look-alike that takes the operator / method route of FNode where the call has
    one: `a + b`, `a <= b`, `~a`, `a.Implies(b)`, `x[i:j]`, `x[i]`, `x.BVRol(n)`, `c.Ite(a, b)`"""
    def __init__(self, mgr, env, rng):
        self._mgr, self._env, self._rng = mgr, env, rng

    def __getattr__(self, name):
        from pysmt.fnode import FNode
        real = getattr(self._mgr, name)
        env, rng = self._env, self._rng

        def call(*a, **k):
            if k or not a or not all(isinstance(x, FNode) or type(x) is int or x is None for x in a):
                return real(*a, **k)
            nodes = [x for x in a if isinstance(x, FNode)]
            with patched_infix(env):
                if name in INFIX2 and len(a) == 2 and len(nodes) == 2:
                    return getattr(a[0], INFIX2[name])(a[1])
                if name in INFIX1 and len(a) == 1:
                    return getattr(a[0], INFIX1[name])()
                if name == "Ite" and len(nodes) == 3:
                    return a[0].Ite(a[1], a[2])
                if name in ("BVRol", "BVRor", "BVZExt", "BVSExt", "BVRepeat") and len(a) == 2 and type(a[1]) is int:
                    return getattr(a[0], name)(a[1])
                if name == "BVExtract" and isinstance(a[0], FNode):
                    x = a[0]
                    start = a[1] if len(a) > 1 else 0
                    end = a[2] if len(a) > 2 else None
                    if type(start) is int and (end is None or type(end) is int):
                        forms = [slice(start, end)]
                        if start == 0:
                            forms.append(slice(None, end))
                        if end is not None and start == end:
                            forms.append(start)
                        if end is not None:
                            forms.append(slice(start, end, 1))
                        return x[rng.choice(forms)]
            return real(*a, **k)
        return call


class Recorder(object):
    """stands in for env.factory: records what the shortcuts hand to the solver layer"""
    def __init__(self):
        self.got = None

    def _one(self, formula, **kw):
        self.got = [formula]
        return None

    is_sat = is_valid = is_unsat = get_model = get_implicant = qelim = _one

    def get_unsat_core(self, clauses, **kw):
        self.got = list(clauses)

    def binary_interpolant(self, a, b, **kw):
        self.got = [a, b]

    def sequence_interpolant(self, formulas, **kw):
        self.got = list(formulas)


ROUTES1 = ["is_sat", "is_valid", "is_unsat", "get_model", "get_implicant", "qelim"]


class Res(object):
    __slots__ = ("env", "obj", "out", "kid", "exp", "recipe", "name", "special")

    def __init__(self, env, obj, out, kid, exp, recipe, name, special=None):
        self.env, self.obj, self.out, self.kid, self.exp = env, obj, out, kid, exp
        self.recipe, self.name, self.special = recipe, name, special


U = ("C", "U", ())
PAIR_II = ("C", "Pair", (("I",), ("I",)))
BOX_PAIR = ("C", "Box", (PAIR_II,))
BOX_U = ("C", "Box", (U,))
# declared sorts whose PRINTED name is that of a built-in sort or of a generated instance
C_INT = ("C", "Int", ())
C_PAIR = ("C", "Pair{Int, Int}", ())
C_ARR = ("C", "Array{Int, Int}", ())
C_BV8 = ("C", "BV{8}", ())
C_BOOL = ("C", "Bool", ())
CONFUSABLE = [("I",), C_INT, PAIR_II, C_PAIR, ("A", ("I",), ("I",)), C_ARR, ("V", 8), C_BV8, ("B",), C_BOOL]
BASE_TYPES = [("B",), ("I",), ("R",), ("S",), ("V", 1), ("V", 2), ("V", 3), ("V", 4), ("V", 8), ("V", 12), U,
              PAIR_II, BOX_PAIR, BOX_U, C_INT, C_PAIR, C_ARR, C_BV8]
ARRAY_TYPES = [("A", ("I",), ("I",)), ("A", ("V", 2), ("V", 4)), ("A", ("I",), ("B",)), ("A", ("I",), ("R",)),
               ("A", ("V", 2), ("A", ("I",), ("I",))), ("A", U, ("I",)), ("A", ("S",), BOX_PAIR),
               ("A", C_INT, ("I",)), ("A", ("I",), C_INT), ("A", C_PAIR, PAIR_II)]
FUN_TYPES = [("F", ("B",), (("I",),)), ("F", ("I",), (("I",), ("I",))), ("F", U, (U,)), ("F", PAIR_II, (U, ("I",))),
             ("F", ("V", 4), (("V", 4), ("B",))), ("F", ("R",), (BOX_PAIR,)), ("F", ("A", ("I",), ("I",)), (("I",),)),
             ("F", BOX_PAIR, (PAIR_II,)), ("F", ("S",), (("S",), ("R",))),
             ("F", ("I",), (C_INT,)), ("F", C_INT, (("I",),)), ("F", ("B",), (C_PAIR,)), ("F", ("B",), (PAIR_II,)),
             ("F", C_ARR, (("A", ("I",), ("I",)),))]
STRINGS = ["", "a", "ab", "abc", "0", "-3", "\"q\"", "a b", "é中", "x|y", "\\n"]
INTS = [0, 1, -1, 2, 3, -3, 5, 7, 10, 255, 2 ** 70, -(2 ** 64)]
RATS = [Fraction(0), Fraction(1), Fraction(-1), Fraction(1, 2), Fraction(-1, 2), Fraction(3, 2), Fraction(2), Fraction(1, 3),
        Fraction(-7, 3), Fraction(5, 4), Fraction(1, 10), Fraction(0.1), Fraction(3), Fraction(2 ** 70, 3), Fraction(1, 1024),
        # floats of extreme magnitude: tiny, subnormal, huge, next to 1, 0.1-like
        Fraction(2.0 ** -70), Fraction(1e-100), Fraction(5e-324), Fraction(-2.0 ** -1074), Fraction(1e300),
        Fraction(1.7976931348623157e308), Fraction(1.0 + 2.0 ** -52), Fraction(0.3), Fraction(-1e-7), Fraction(2.0 ** 64),
        Fraction(1, 2 ** 80), Fraction(123456789, 2 ** 64 + 1)]


class History(object):
    """One construction history, executed on pysmt while it is generated."""

    def __init__(self, rng, nops, tier):
        from pysmt.environment import Environment
        self.rng = rng
        self.nops = nops
        self.envs = [Environment() for _ in range(NENV)]
        self.mgr = [x.formula_manager for x in self.envs]
        self.B = Blue()
        self.res = []
        self.ops = []
        self.pool = [{} for _ in range(NENV)]
        self.symidx = [{} for _ in range(NENV)]
        self.pytypes = [{} for _ in range(NENV)]
        self.counts = {}
        self.viol = []               # (sig, what)
        self.norm_checks = []
        self.max_widths = 24
        self.active = [0]
        self.churn = 0
        self.akid = {}
        self.tyids = {}
        self.keep = []

    # ------------------------------------------------------------------ basics
    def r(self, i):
        return "r%d" % i

    def o(self, i):
        return self.res[i].obj

    def k(self, i):
        return self.res[i].kid

    def tyof(self, i):
        return self.B.ty[self.res[i].kid]

    def pytype(self, e, t):
        """the real type object of environment e (created bottom-up through its TypeManager;
        the first creation is mirrored by a `Type` op so that the model registers it too)"""
        c = self.pytypes[e]
        if t in c:
            return c[t]
        tm = self.envs[e].type_manager
        new = not all(s in c for s in subtypes(t))
        obj = self._mk_type(tm, c, t)
        if new and t[0] not in "BIRS":
            self.res.append(Res(e, None, "0", None, None, None, "Type", special="type"))
            self.ops.append("%d Type %s" % (e, ty_str(t)))
        return obj

    def _mk_type(self, tm, c, t):
        if t in c:
            return c[t]
        k = t[0]
        if k == "B":
            r = tm.BOOL()
        elif k == "I":
            r = tm.INT()
        elif k == "R":
            r = tm.REAL()
        elif k == "S":
            r = tm.STRING()
        elif k == "V":
            r = tm.BVType(t[1])
        elif k == "A":
            r = tm.ArrayType(self._mk_type(tm, c, t[1]), self._mk_type(tm, c, t[2]))
        elif k == "F":
            ps = [self._mk_type(tm, c, p) for p in t[2]]
            r = tm.FunctionType(self._mk_type(tm, c, t[1]), ps)
        else:
            args = [self._mk_type(tm, c, p) for p in t[2]]
            d = tm.Type(t[1], len(t[2]))
            r = d if len(t[2]) == 0 else tm.get_type_instance(d, *args)
        c[t] = r
        return r

    GENERIC = ("BVUn", "BVNary", "BVBin", "BVNotOf", "BVShift", "BVRot", "BVExt")

    def emit(self, e, name, wire, pyc, bluec, recipe=None):
        mgr = self.mgr[e]
        route = self.rng.random()
        if route < 0.08:
            mgr = ViaShortcuts(mgr, self.envs[e])       # the same call through pysmt.shortcuts
        elif route < 0.2:
            mgr = ViaInfix(mgr, self.envs[e], self.rng)  # ... through the operators / methods of FNode
        try:
            obj = pyc(mgr)
            out = None
        except Exception as ex:           # the outcome is compared like a value
            obj = None
            out = classify(ex)
        try:
            kid = bluec(self.B)
            exp = None
        except Expected as x:
            kid = None
            exp = x.cls
        idx = len(self.res)
        self.res.append(Res(e, obj, out, kid, exp, recipe, name or ("ill:" + wire[1])))
        if name is None:        # the wire tokens are complete (flag + name + arguments)
            name = "ill:" + wire[1]
            self.ops.append("%d %s" % (e, " ".join(wire)))
        else:
            self.ops.append("%d %s" % (e, " ".join([name] + wire)))
        self.counts[name] = self.counts.get(name, 0) + 1
        if obj is not None and kid is not None:
            self.pool[e].setdefault(self.B.ty[kid], []).append(idx)
        return idx

    def build(self, e, name, *args):
        wire, pyc, bluec = getattr(self, "c_" + name)(e, *args)
        wname = args[0] if name in self.GENERIC else name
        return self.emit(e, wname, wire, pyc, bluec, recipe=(name, args))

    def tyidx(self, t):
        return self.tyids.setdefault(t, len(self.tyids))

    def usable(self, i):
        x = self.res[i]
        return x.obj is not None and x.kid is not None

    # ------------------------------------------------------------------ constructors: (wire, python call, blueprint call)
    def c_Symbol(self, e, name, t):
        ty = self.pytype(e, t)
        return ["h" + hx(name), ty_str(t)], (lambda m: m.Symbol(name, ty)), (lambda B: self._blue_symbol(e, name, t))

    def _blue_symbol(self, e, name, t):
        prev = self.symty(e).get(name)
        if prev is not None:
            if prev != t:
                raise Expected("E:type")
        elif name == "":
            raise Expected("E:value")
        return self.B.Symbol(name, t)

    def symty(self, e):
        """declared symbols of environment e (generation guidance and the blueprint of Symbol /
        FreshSymbol, read from the manager's public symbol table)"""
        return {n: ty_of_obj(s.symbol_type()) for n, s in self.mgr[e].symbols.items()}

    def c_Fresh(self, e, t, pre, post):
        ty = self.pytype(e, t)
        tmpl = pre + "%d" + post
        guess = self.mgr[e]._fresh_guess
        names = set(self.mgr[e].symbols)

        def blue(B):
            c = guess
            while (tmpl % c) in names:
                c += 1
            return B.Symbol(tmpl % c, t)
        if pre == "FV" and post == "":
            py = lambda m: m.FreshSymbol(ty)
        else:
            py = lambda m: m.FreshSymbol(ty, tmpl)
        return [ty_str(t), "h" + hx(pre), "h" + hx(post)], py, blue

    def _lst(self, idx):
        return "[" + ",".join(self.r(i) for i in idx) + "]"

    def _nary(self, e, pyname, idx, style, bluef):
        objs = [self.o(i) for i in idx]
        if style == 0:
            py = lambda m: getattr(m, pyname)(*objs)
        else:
            arg = self.spell(objs)      # list / tuple / lazy iterable, also of nothing
            py = lambda m: getattr(m, pyname)(arg)
        ks = tuple(self.k(i) for i in idx)
        return [self._lst(idx)], py, (lambda B: bluef(B, ks))

    def c_And(self, e, idx, style=0):
        return self._nary(e, "And", idx, style, lambda B, ks: B.And(ks))

    def c_Or(self, e, idx, style=0):
        return self._nary(e, "Or", idx, style, lambda B, ks: B.Or(ks))

    def c_Plus(self, e, idx, style=0):
        return self._nary(e, "Plus", idx, style, lambda B, ks: B.nary("PLUS", ks, None))

    def c_Times(self, e, idx, style=0):
        return self._nary(e, "Times", idx, style, lambda B, ks: B.nary("TIMES", ks, None))

    def c_StrConcat(self, e, idx, style=0):
        def blue(B, ks):
            if len(ks) <= 1:
                raise Expected("E:type")
            return B.plain("STR_CONCAT", ks, ("S",))
        return self._nary(e, "StrConcat", idx, style, blue)

    def c_AtMostOne(self, e, idx, style=0):
        return self._nary(e, "AtMostOne", idx, style, lambda B, ks: B.AtMostOne(ks))

    def c_ExactlyOne(self, e, idx, style=0):
        return self._nary(e, "ExactlyOne", idx, style, lambda B, ks: B.ExactlyOne(ks))

    def c_AllDifferent(self, e, idx, style=0):
        return self._nary(e, "AllDifferent", idx, style, lambda B, ks: B.AllDifferent(ks))

    def c_Min(self, e, idx, style=0):
        return self._nary(e, "Min", idx, style, lambda B, ks: B.MinMax(True, "LE", ks))

    def c_Max(self, e, idx, style=0):
        return self._nary(e, "Max", idx, style, lambda B, ks: B.MinMax(False, "LE", ks))

    def c_MinBV(self, e, sign, idx):
        objs = [self.o(i) for i in idx]
        ks = tuple(self.k(i) for i in idx)
        le = "BV_SLE" if sign else "BV_ULE"
        return ["1" if sign else "0", self._lst(idx)], (lambda m: m.MinBV(sign, *objs)), (lambda B: B.MinMax(True, le, ks))

    def c_MaxBV(self, e, sign, idx):
        objs = [self.o(i) for i in idx]
        ks = tuple(self.k(i) for i in idx)
        le = "BV_SLE" if sign else "BV_ULE"
        return ["1" if sign else "0", self._lst(idx)], (lambda m: m.MaxBV(sign, objs)), (lambda B: B.MinMax(False, le, ks))

    def c_BVNary(self, e, pyname, idx, style=0):
        nt = {"BVAnd": "BV_AND", "BVOr": "BV_OR", "BVAdd": "BV_ADD", "BVMul": "BV_MUL"}[pyname]
        return self._nary(e, pyname, idx, style, lambda B, ks: B.BVNary(nt, ks))

    def c_BVConcat(self, e, idx, style=0):
        return self._nary(e, "BVConcat", idx, style, lambda B, ks: B.BVConcat(ks))

    # fixed-arity constructors that are one create_node: (python name, node type, result type or None = type of arg k, swap)
    PLAIN = {
        "Implies": ("IMPLIES", "B", False), "Iff": ("IFF", "B", False), "Minus": ("MINUS", 0, False),
        "Equals": ("EQUALS", "B", False), "LE": ("LE", "B", False), "LT": ("LT", "B", False),
        "GE": ("LE", "B", True), "GT": ("LT", "B", True),
        "BVULT": ("BV_ULT", "B", False), "BVULE": ("BV_ULE", "B", False), "BVUGT": ("BV_ULT", "B", True),
        "BVUGE": ("BV_ULE", "B", True), "BVSLT": ("BV_SLT", "B", False), "BVSLE": ("BV_SLE", "B", False),
        "BVSGT": ("BV_SLT", "B", True), "BVSGE": ("BV_SLE", "B", True),
        "StrContains": ("STR_CONTAINS", "B", False), "StrPrefixOf": ("STR_PREFIXOF", "B", False),
        "StrSuffixOf": ("STR_SUFFIXOF", "B", False), "StrCharAt": ("STR_CHARAT", "S", False),
        "StrLength": ("STR_LENGTH", "I", False), "StrToInt": ("STR_TO_INT", "I", False),
        "IntToStr": ("INT_TO_STR", "S", False), "BVToNatural": ("BV_TONATURAL", "I", False),
        "Ite": ("ITE", 1, False), "StrIndexOf": ("STR_INDEXOF", "I", False), "StrReplace": ("STR_REPLACE", "S", False),
        "StrSubstr": ("STR_SUBSTR", "S", False), "Store": ("ARRAY_STORE", 0, False),
        "Select": ("ARRAY_SELECT", "elem", False),
    }

    def c_P(self, e, pyname, *idx):
        nt, rt, swap = self.PLAIN[pyname]
        objs = [self.o(i) for i in idx]
        ks = tuple(self.k(i) for i in idx)
        if rt == "elem":
            ty = self.tyof(idx[0])[2]
        elif isinstance(rt, int):
            ty = self.tyof(idx[rt])
        else:
            ty = (rt,)
        bk = (ks[1], ks[0]) if swap else ks
        return [self.r(i) for i in idx], (lambda m: getattr(m, pyname)(*objs)), (lambda B: B.plain(nt, bk, ty))

    def emitP(self, e, pyname, *idx):
        wire, pyc, bluec = self.c_P(e, pyname, *idx)
        return self.emit(e, pyname, wire, pyc, bluec, recipe=("P", (pyname,) + idx))

    def c_Not(self, e, i):
        a, ka = self.o(i), self.k(i)
        return [self.r(i)], (lambda m: m.Not(a)), (lambda B: B.Not(ka))

    def c_Xor(self, e, i, j):
        a, b, ka, kb = self.o(i), self.o(j), self.k(i), self.k(j)
        return [self.r(i), self.r(j)], (lambda m: m.Xor(a, b)), (lambda B: B.Not(B.plain("IFF", (ka, kb), ("B",))))

    def c_NotEquals(self, e, i, j):
        a, b, ka, kb = self.o(i), self.o(j), self.k(i), self.k(j)
        return [self.r(i), self.r(j)], (lambda m: m.NotEquals(a, b)), (lambda B: B.Not(B.plain("EQUALS", (ka, kb), ("B",))))

    def c_EqualsOrIff(self, e, i, j):
        a, b, ka, kb = self.o(i), self.o(j), self.k(i), self.k(j)
        return [self.r(i), self.r(j)], (lambda m: m.EqualsOrIff(a, b)), (lambda B: B.EqualsOrIff(ka, kb))

    def c_Pow(self, e, i, j):
        a, b, ka, kb = self.o(i), self.o(j), self.k(i), self.k(j)
        return [self.r(i), self.r(j)], (lambda m: m.Pow(a, b)), (lambda B: B.Pow(ka, kb))

    def c_Div(self, e, i, j):
        a, b, ka, kb = self.o(i), self.o(j), self.k(i), self.k(j)
        return [self.r(i), self.r(j)], (lambda m: m.Div(a, b)), (lambda B: B.Div(ka, kb))

    def c_ToReal(self, e, i):
        a, ka = self.o(i), self.k(i)
        return [self.r(i)], (lambda m: m.ToReal(a)), (lambda B: B.ToReal(ka))

    def c_ForAll(self, e, vs, b):
        return self._quant(e, "ForAll", "FORALL", vs, b)

    def c_Exists(self, e, vs, b):
        return self._quant(e, "Exists", "EXISTS", vs, b)

    def spell(self, objs):
        """one of the ways to hand a sequence of nodes to a constructor that takes an iterable:
        list, tuple, and the LAZY ones (always truthy, no len(), consumed once)"""
        k = self.rng.randrange(9)
        objs = list(objs)
        if k == 0:
            return objs
        if k == 1:
            return tuple(objs)
        if k == 2:
            return iter(objs)
        if k == 3:
            return (o for o in objs)
        if k == 4:
            return filter(lambda o: True, objs)
        if k == 5:
            return map(lambda o: o, objs)
        if k == 6:
            return dict(enumerate(objs)).values()
        if k == 7:
            import collections
            return collections.deque(objs)
        import itertools
        return itertools.chain(objs[:1], objs[1:])

    def _quant(self, e, pyname, nt, vs, b):
        vk = [self.k(i) for i in vs]
        bo, bk = self.o(b), self.k(b)
        arg = self.spell([self.o(i) for i in vs])
        return [self._lst(vs), self.r(b)], (lambda m: getattr(m, pyname)(arg, bo)), (lambda B: B.Quant(nt, vk, bk))

    def c_Function(self, e, f, ps):
        fo, fk = self.o(f), self.k(f)
        po = [self.o(i) for i in ps]
        pk = [self.k(i) for i in ps]
        return [self.r(f), self._lst(ps)], (lambda m: m.Function(fo, po)), (lambda B: B.Function(fk, pk))

    def c_Real(self, e, sp):
        v = sp_py(sp)
        return [sp_wire(sp)], (lambda m: m.Real(v)), (lambda B: B.Real(sp))

    def c_Int(self, e, sp):
        v = sp_py(sp)
        return [sp_wire(sp)], (lambda m: m.Int(v)), (lambda B: B.Int(sp))

    def c_Bool(self, e, sp):
        v = sp_py(sp)
        return [sp_wire(sp)], (lambda m: m.Bool(v)), (lambda B: B.Bool(sp))

    def c_TRUE(self, e):
        return [], (lambda m: m.TRUE()), (lambda B: B.T)

    def c_FALSE(self, e):
        return [], (lambda m: m.FALSE()), (lambda B: B.F)

    def c_String(self, e, s):
        if s is None:
            return ["o"], (lambda m: m.String(5)), (lambda B: B.String(None))
        return ["s" + hx(s)], (lambda m: m.String(s)), (lambda B: B.String(s))

    def c_BV(self, e, val, w):
        v = bvval_py(val)
        pw = w_py(w)
        if w is None:
            py = lambda m: m.BV(v)
        else:
            py = lambda m: m.BV(v, pw)
        return [bvval_wire(val), w_wire(w)], py, (lambda B: B.BV(val, w))

    def c_SBV(self, e, val, w):
        v = bvval_py(val)
        pw = w_py(w)
        return [bvval_wire(val), w_wire(w)], (lambda m: m.SBV(v, pw)), (lambda B: B.SBV(val, w))

    def c_BVOne(self, e, _v, w):
        pw = w_py(w)
        return [w_wire(w)], (lambda m: m.BVOne(pw)), (lambda B: B.BV(("int", 1), w))

    def c_BVZero(self, e, _v, w):
        pw = w_py(w)
        return [w_wire(w)], (lambda m: m.BVZero(pw)), (lambda B: B.BV(("int", 0), w))

    def c_BVUn(self, e, pyname, i):
        nt = {"BVNot": "BV_NOT", "BVNeg": "BV_NEG"}[pyname]
        a, ka = self.o(i), self.k(i)
        return [self.r(i)], (lambda m: getattr(m, pyname)(a)), (lambda B: B.BVUn(nt, ka))

    BVBIN = {"BVXor": "BV_XOR", "BVSub": "BV_SUB", "BVUDiv": "BV_UDIV", "BVURem": "BV_UREM", "BVSDiv": "BV_SDIV",
             "BVSRem": "BV_SREM"}

    def c_BVBin(self, e, pyname, i, j):
        nt = self.BVBIN[pyname]
        a, b, ka, kb = self.o(i), self.o(j), self.k(i), self.k(j)
        return [self.r(i), self.r(j)], (lambda m: getattr(m, pyname)(a, b)), (lambda B: B.BVBin(nt, ka, kb))

    def c_BVNotOf(self, e, pyname, i, j):
        nt = {"BVNand": "BV_AND", "BVNor": "BV_OR", "BVXnor": "BV_XOR"}[pyname]
        a, b, ka, kb = self.o(i), self.o(j), self.k(i), self.k(j)
        return [self.r(i), self.r(j)], (lambda m: getattr(m, pyname)(a, b)), \
            (lambda B: B.BVUn("BV_NOT", B.BVBin(nt, ka, kb)))

    def c_BVShift(self, e, pyname, i, rhs):
        nt = {"BVLShl": "BV_LSHL", "BVLShr": "BV_LSHR", "BVAShr": "BV_ASHR"}[pyname]
        a, ka = self.o(i), self.k(i)
        if rhs[0] == "int":
            n = rhs[1]
            return [self.r(i), "i%d" % n], (lambda m: getattr(m, pyname)(a, n)), (lambda B: B.BVShift(nt, ka, ("int", n)))
        if rhs[0] == "other":       # bool / float: `assert isinstance(right, FNode)`
            val = rhs[1]
            return [self.r(i), "o"], (lambda m: getattr(m, pyname)(a, val)), (lambda B: _expect("E:assert"))
        b, kb = self.o(rhs[1]), self.k(rhs[1])
        return [self.r(i), self.r(rhs[1])], (lambda m: getattr(m, pyname)(a, b)), (lambda B: B.BVShift(nt, ka, ("node", kb)))

    def c_BVExtract(self, e, i, start, end):
        a, ka = self.o(i), self.k(i)
        if isinstance(start, tuple) or isinstance(end, tuple):
            ps = start[1] if isinstance(start, tuple) else start
            pe = end[1] if isinstance(end, tuple) else end
            wire = [self.r(i), "o" if isinstance(start, tuple) else str(start), "o" if isinstance(end, tuple) else str(end)]
            return wire, (lambda m: m.BVExtract(a, ps, pe)), (lambda B: _expect("E:assert"))
        if end is None:
            py = (lambda m: m.BVExtract(a, start)) if start != 0 else (lambda m: m.BVExtract(a))
        else:
            py = lambda m: m.BVExtract(a, start, end)
        return [self.r(i), str(start), "N" if end is None else str(end)], py, (lambda B: B.BVExtract(ka, start, end))

    def c_BVRot(self, e, pyname, i, n):
        nt = {"BVRol": "BV_ROL", "BVRor": "BV_ROR"}[pyname]
        a, ka = self.o(i), self.k(i)
        if isinstance(n, tuple):    # a bool / float step: rejected whatever it is equal to
            val = n[1]
            return [self.r(i), "o"], (lambda m: getattr(m, pyname)(a, val)), (lambda B: _expect("E:type"))
        return [self.r(i), str(n)], (lambda m: getattr(m, pyname)(a, n)), (lambda B: B.BVRot(nt, ka, n))

    def c_BVExt(self, e, pyname, i, n):
        nt = {"BVZExt": "BV_ZEXT", "BVSExt": "BV_SEXT"}[pyname]
        a, ka = self.o(i), self.k(i)
        if isinstance(n, tuple):
            val = n[1]
            return [self.r(i), "o"], (lambda m: getattr(m, pyname)(a, val)), (lambda B: _expect("E:type"))
        return [self.r(i), str(n)], (lambda m: getattr(m, pyname)(a, n)), (lambda B: B.BVExt(nt, ka, n))

    def c_BVComp(self, e, i, j):
        a, b, ka, kb = self.o(i), self.o(j), self.k(i), self.k(j)
        return [self.r(i), self.r(j)], (lambda m: m.BVComp(a, b)), (lambda B: B.BVComp(ka, kb))

    def c_BVSMod(self, e, i, j):
        a, b, ka, kb = self.o(i), self.o(j), self.k(i), self.k(j)
        return [self.r(i), self.r(j)], (lambda m: m.BVSMod(a, b)), (lambda B: B.BVSMod(ka, kb))

    def c_BVRepeat(self, e, i, n):
        a, ka = self.o(i), self.k(i)
        return [self.r(i), str(n)], (lambda m: m.BVRepeat(a, n)), (lambda B: B.BVRepeat(ka, n))

    def c_Array(self, e, it, d, kvs):
        ty = self.pytype(e, it)
        do, dk = self.o(d), self.k(d)
        assign = {self.o(a): self.o(b) for a, b in kvs}
        kassign = {self.k(a): self.k(b) for a, b in kvs}
        order = [self.k(a) for a, _ in sorted(kvs, key=lambda ab: id(self.o(ab[0])))]
        wire = [ty_str(it), self.r(d), "[" + ",".join("%s:%s" % (self.r(a), self.r(b)) for a, b in kvs) + "]"]
        r = self.rng.random()
        if not kvs and r < 0.5:
            py = lambda m: m.Array(ty, do)
        elif r < 0.8:
            py = lambda m: m.Array(ty, do, assign)
        elif r < 0.9:
            import collections
            od = collections.OrderedDict(reversed(list(assign.items())))
            py = lambda m: m.Array(ty, do, od)
        else:
            import types
            mp = types.MappingProxyType(assign)
            py = lambda m: m.Array(ty, do, mp)
        return wire, py, (lambda B: B.Array(it, dk, kassign, order))

    def c_Algebraic(self, e, tag):
        return ["h" + hx(tag)], (lambda m: m._Algebraic(tag)), (lambda B: B.Algebraic(tag))

    # ------------------------------------------------------------------ special ops
    def do_get(self, e, a, i):
        """array_value_get (read-only accessor)"""
        ao, io = self.o(a), self.o(i)
        try:
            got = ao.array_value_get(io)
            out = None
        except Exception as ex:
            got = None
            out = classify(ex)
        self.res.append(Res(e, got, out, None, None, None, "get", special=("get", a, i)))
        self.ops.append("%d get %s %s" % (e, self.r(a), self.r(i)))
        self.counts["get"] = self.counts.get("get", 0) + 1

    def do_normalize(self, e, i):
        """mgr[e].normalize(object i), i living in any environment (also e itself)"""
        src = self.o(i)
        symbefore = self.symty(e)
        decl = dict((n, d.arity) for n, d in self.envs[e].type_manager._custom_types_decl.items())
        try:
            got = self.mgr[e].normalize(src)
            out = None
        except Exception as ex:
            got = None
            out = classify(ex)
        idx = len(self.res)
        # blueprint: rejected iff a symbol of the DAG is declared with another type in the
        # target, or a custom sort of the DAG is declared with another arity there
        exp = None
        syms, sorts = self._dag_symbols(self.k(i))
        bad = set()
        for name, t in syms:
            if symbefore.get(name, t) != t:
                bad.add("E:type")
        for name, ar in sorts:
            if decl.get(name, ar) != ar:
                bad.add("E:value")
        if bad:
            exp = "|".join(sorted(bad))     # which one is met first depends on the traversal
        x = Res(e, got, out, None, exp, None, "normalize", special=("norm", i))
        self.res.append(x)
        self.ops.append("%d normalize %s" % (e, self.r(i)))
        self.counts["normalize"] = self.counts.get("normalize", 0) + 1
        if got is not None:
            # types of the copy exist in the target now: make them known to the generator
            for _, t in syms:
                for st in subtypes(t):
                    self._adopt_type(e, st)
            x.kid = self.actual_kid(got, {})
            self.pool[e].setdefault(self.B.ty[x.kid], []).append(idx)
        else:
            self.pytypes[e] = {}       # partially interned types: rebuild the generator's view lazily
            self._resync_types(e)
        return idx

    def do_route(self, e, route, idxs):
        """a pysmt.shortcuts function that contextualises foreign formulas (is_sat, get_model,
        get_unsat_core, binary_interpolant, ...) called in environment e, whose factory is a
        recorder: what reaches the solver layer must be what normalize gives.  For the model
        this is the sequence of normalize calls the shortcut documents."""
        import pysmt.shortcuts as sc
        env, mgr = self.envs[e], self.mgr[e]
        objs = [self.o(i) for i in idxs]
        foreign = [self.res[i].env != e for i in idxs]
        if route == "get_unsat_core":
            normed = [any(foreign)] * len(idxs)      # all clauses are re-created if one is foreign
        else:
            normed = foreign
        # blueprint: which call fails first (symbol / sort clash in the target)
        symnow = self.symty(e)
        decl = dict((n, d.arity) for n, d in env.type_manager._custom_types_decl.items())
        exps = []
        for i, nrm in zip(idxs, normed):
            bad = set()
            if nrm:
                syms, sorts = self._dag_symbols(self.k(i))
                for name, t in syms:
                    if symnow.get(name, t) != t:
                        bad.add("E:type")
                for name, ar in sorts:
                    if decl.get(name, ar) != ar:
                        bad.add("E:value")
                if not bad:
                    for name, t in syms:
                        symnow[name] = t
                    for name, ar in sorts:
                        decl[name] = ar
            exps.append("|".join(sorted(bad)) if bad else None)
            if bad:
                break
        rec = Recorder()
        old_factory = env._factory
        env._factory = rec
        try:
            with patched_get_env(env):
                if route in ROUTES1:
                    getattr(sc, route)(objs[0])
                elif route == "binary_interpolant":
                    sc.binary_interpolant(objs[0], objs[1])
                else:
                    getattr(sc, route)(self.spell(objs) if route == "get_unsat_core" else list(objs))
            out = None
        except Exception as ex:
            out = classify(ex)
        finally:
            env._factory = old_factory
        handed = rec.got if rec.got is not None else []
        self.counts["route:" + route] = self.counts.get("route:" + route, 0) + 1
        memo = getattr(getattr(mgr, "_normalizer", None), "memoization", {}) or {}
        last = None
        for pos, (i, nrm) in enumerate(zip(idxs, normed)):
            exp = exps[pos] if pos < len(exps) else None
            if out is None:
                got = handed[pos] if pos < len(handed) else None
            else:
                # the call raised: the formulas before the failing one were re-created (their
                # copies are in the normalizer's memo), nothing reached the factory
                got = memo.get(self.o(i)) if (nrm and exp is None) else None
            if not nrm:
                if out is None and got is not self.o(i):
                    self.viol.append(({"oracle": "route", "route": route, "shape": "own-formula-replaced"},
                                      "%s handed %s to the factory for the environment's own %s" % (route, got, self.o(i))))
                continue
            syms, _ = self._dag_symbols(self.k(i))
            x = Res(e, got, None if got is not None else (out or "E:other:nothing-handed"), None, exp, None,
                    "normalize", special=("norm", i))
            idx = len(self.res)
            self.res.append(x)
            self.ops.append("%d normalize %s" % (e, self.r(i)))
            self.counts["normalize"] = self.counts.get("normalize", 0) + 1
            last = idx
            if x.obj is not None:
                for _, t in syms:
                    for st in subtypes(t):
                        self._adopt_type(e, st)
                if x.obj in mgr:
                    x.kid = self.actual_kid(x.obj, {})
                    self.pool[e].setdefault(self.B.ty[x.kid], []).append(idx)
            else:
                self.pytypes[e] = {}
                self._resync_types(e)
                break
        return last

    def _adopt_type(self, e, t):
        if t not in self.pytypes[e]:
            tm = self.envs[e].type_manager
            try:
                self._mk_type(tm, self.pytypes[e], t)
            except Exception:
                # bookkeeping of the generator only: the target does not hold the type the
                # copy should have brought (S reports the copy itself)
                self.pytypes[e] = {}
                self._resync_types(e)

    def _resync_types(self, e):
        """after a failed normalize: the generator's type cache only keeps what the target's
        TypeManager really holds (no Type op is emitted for those)"""
        tm = self.envs[e].type_manager
        c = self.pytypes[e]
        for w, o in tm._bv_types.items():
            c[("V", w)] = o
        for o in list(tm._custom_types.values()) + list(tm._array_types.values()) + list(tm._function_types.values()):
            c[ty_of_obj(o)] = o
        for k, o in (("B", tm.BOOL()), ("I", tm.INT()), ("R", tm.REAL()), ("S", tm.STRING())):
            c[(k,)] = o

    def _dag_symbols(self, kid):
        seen, syms, sorts = set(), set(), set()
        stack = [kid]
        while stack:
            k = stack.pop()
            if k in seen:
                continue
            seen.add(k)
            nt, args, pl = self.B.node[k]
            stack.extend(args)
            if pl is not None:
                if pl[0] == "y":
                    syms.add((pl[1], pl[2]))
                    for st in subtypes(pl[2]):
                        if st[0] == "C":
                            sorts.add((st[1], len(st[2])))
                elif pl[0] == "V":
                    stack.extend(pl[1])
                elif pl[0] == "f":
                    stack.append(pl[1])
                elif pl[0] == "t":
                    for st in subtypes(pl[1]):
                        if st[0] == "C":
                            sorts.add((st[1], len(st[2])))
        return syms, sorts

    # ------------------------------------------------------------------ reading objects back (accessors only)
    def payload_of(self, n, memo):
        """(blueprint payload key, wire payload) of a node, through the public accessors"""
        import pysmt.operators as op
        nt = n.node_type()
        raw = n._content.payload
        if nt == op.SYMBOL:
            t = ty_of_obj(n.symbol_type())
            return ("y", n.symbol_name(), t), "y%s@%s" % (hx(n.symbol_name()), ty_str(t))
        if nt == op.BOOL_CONSTANT:
            v = n.constant_value()
            if type(v) is not bool:
                return ("?", repr(v)), "?" + repr(v)
            return ("b", v), "b1" if v else "b0"
        if nt == op.INT_CONSTANT:
            v = n.constant_value()
            if type(v) is not int:
                return ("?", repr(v)), "?" + repr(v)
            return ("i", v), "i%d" % v
        if nt == op.REAL_CONSTANT:
            v = n.constant_value()
            if type(v) is not Fraction:
                return ("?", repr(v)), "?" + repr(v)
            return ("q", v.numerator, v.denominator), "q%d/%d" % (v.numerator, v.denominator)
        if nt == op.STR_CONSTANT:
            v = n.constant_value()
            return ("s", v), "s" + hx(v)
        if nt == op.BV_CONSTANT:
            v, w = n.constant_value(), n.bv_width()
            if type(v) is not int or type(w) is not int:
                return ("?", repr((v, w))), "?" + repr((v, w))
            return ("v", v, w), "v%d/%d" % (v, w)
        if nt == op.ALGEBRAIC_CONSTANT:
            v = n.constant_value()
            return ("a", v), "a" + hx(v)
        if nt in (op.FORALL, op.EXISTS):
            vs = n.quantifier_vars()
            return ("V", tuple(self.actual_kid(v, memo) for v in vs)), "V" + ",".join(str(v.node_id()) for v in vs)
        if nt == op.FUNCTION:
            f = n.function_name()
            return ("f", self.actual_kid(f, memo)), "f%d" % f.node_id()
        if nt == op.ARRAY_VALUE:
            t = ty_of_obj(n.array_value_index_type())
            return ("t", t), "t" + ty_str(t)
        if nt == op.BV_EXTRACT:
            p = (n.bv_width(), n.bv_extract_start(), n.bv_extract_end())
        elif nt in (op.BV_ROL, op.BV_ROR):
            p = (n.bv_width(), n.bv_rotation_step())
        elif nt in (op.BV_ZEXT, op.BV_SEXT):
            p = (n.bv_width(), n.bv_extend_step())
        elif nt in op.BV_OPERATORS:
            p = (n.bv_width(),)
        else:
            if raw is not None:
                return ("?", repr(raw)), "?" + repr(raw)
            return None, "N"
        if any(type(x) is not int for x in p) or len(raw) != len(p):
            return ("?", repr(raw)), "?" + repr(raw)
        return ("n",) + p, "n" + ",".join(str(x) for x in p)

    def actual_kid(self, n, memo):
        """structure of an object as the accessors report it, interned in the blueprint table"""
        key = id(n)
        k = self.akid.get(key)
        if k is not None:
            return k
        # iterative post-order over args (payload nodes are shallow: symbols)
        stack = [(n, False)]
        while stack:
            x, done = stack.pop()
            if id(x) in self.akid:
                continue
            if not done:
                stack.append((x, True))
                for a in x.args():
                    if id(a) not in self.akid:
                        stack.append((a, False))
                nt = x.node_type()
                if nt in (0, 1):
                    for v in x.quantifier_vars():
                        if id(v) not in self.akid:
                            stack.append((v, False))
                elif nt == 8:
                    if id(x.function_name()) not in self.akid:
                        stack.append((x.function_name(), False))
            else:
                pk, _ = self.payload_of(x, memo)
                ty = self._type_of(x)
                self.akid[id(x)] = self.B.mk(x.node_type(), tuple(self.akid[id(a)] for a in x.args()), pk, ty)
                self.keep.append(x)
        return self.akid[key]

    def _type_of(self, x):
        try:
            return ty_of_obj(self.envs[0].stc.get_type(x))
        except Exception:
            return ("?",)

    # ------------------------------------------------------------------ generation
    def leaf(self, e, t):
        rng = self.rng
        k = t[0]
        roll = rng.random()
        if k == "B" and roll < 0.25:
            return self.build(e, "Bool", ("bool", rng.random() < 0.5))
        if k == "I" and roll < 0.5:
            return self.build(e, "Int", ("int", rng.choice(INTS)))
        if k == "R" and roll < 0.5:
            return self.build(e, "Real", rng.choice(real_spellings(rng.choice(RATS), rng)))
        if k == "S" and roll < 0.5:
            return self.build(e, "String", rng.choice(STRINGS))
        if k == "V" and roll < 0.5:
            v = bv_value(rng, t[1])
            c, val, w = rng.choice(bv_spellings(v, t[1]))
            return self.build(e, c, val, w)
        if k == "A" and roll < 0.4:
            d = self.pick(e, t[2])
            return self.build(e, "Array", t[1], d, ())
        name = "%s%d_%d" % (t[0].lower(), self.tyidx(t), rng.randrange(3))
        if self.symty(e).get(name, t) != t:
            name += "'"
        return self.build(e, "Symbol", name, t)

    def pick(self, e, t, fresh=0.12):
        lst = self.pool[e].get(t)
        if lst and self.rng.random() > fresh:
            if self.rng.random() < 0.5:
                return lst[-1 - min(int(self.rng.expovariate(0.4)), len(lst) - 1)]
            return self.rng.choice(lst)
        i = self.leaf(e, t)
        if not self.usable(i):
            # a leaf constructor was (wrongly or rightly) rejected: fall back to a plain symbol
            i = self.build(e, "Symbol", "fb%d_%d" % (self.tyidx(t), len(self.res)), t)
        return i

    def picks(self, e, t, n):
        return tuple(self.pick(e, t) for _ in range(n))

    def const_of(self, e, t):
        """index of a constant of sort t (array index / exponent positions)"""
        rng = self.rng
        k = t[0]
        if k == "I":
            return self.build(e, "Int", ("int", rng.choice(INTS[:8])))
        if k == "R":
            return self.build(e, "Real", rng.choice(real_spellings(rng.choice(RATS[:8]), rng)))
        if k == "S":
            return self.build(e, "String", rng.choice(STRINGS))
        if k == "V":
            c, val, w = rng.choice(bv_spellings(bv_value(rng, t[1]), t[1]))
            return self.build(e, c, val, w)
        if k == "B":
            return self.build(e, "Bool", ("bool", rng.random() < 0.5))
        return None

    def g_bool(self, e):
        rng = self.rng
        B = ("B",)
        c = rng.randrange(14)
        st = rng.randrange(4)
        if c == 0:
            return self.build(e, "Not", self.pick(e, B))
        if c == 1:
            return self.build(e, rng.choice(["And", "Or"]), self.picks(e, B, rng.choice([0, 1, 2, 2, 3, 4])), st)
        if c == 2:
            return self.emitP(e, rng.choice(["Implies", "Iff"]), *self.picks(e, B, 2))
        if c == 3:
            return self.build(e, "Xor", *self.picks(e, B, 2))
        if c == 4:
            t = self.anytype()
            return self.emitP(e, "Ite", self.pick(e, B), *self.picks(e, t, 2))
        if c == 5:
            return self.build(e, rng.choice(["AtMostOne", "ExactlyOne"]), self.picks(e, B, rng.randrange(0, 5)), st)
        if c == 6:
            t = self.anytype()
            return self.build(e, "AllDifferent", self.picks(e, t, rng.randrange(0, 4)), st)
        if c == 7:
            t = self.anytype()
            return self.build(e, "EqualsOrIff", *self.picks(e, t, 2))
        if c == 8:
            t = self.anytype(nobool=True)
            return self.emitP(e, "Equals", *self.picks(e, t, 2))
        if c == 9:
            t = self.anytype(nobool=True)
            return self.build(e, "NotEquals", *self.picks(e, t, 2))
        if c == 10:
            return self.build(e, rng.choice(["TRUE", "FALSE"]))
        if c == 11:
            return self.build(e, "Bool", rng.choice([("bool", True), ("bool", False), ("int", 1), ("other", None)]))
        # quantifiers over symbols
        vs = []
        for _ in range(rng.choice([0, 1, 1, 2, 3])):
            t = rng.choice([("B",), ("I",), ("R",), ("V", 4), U])
            name = "q%s%d" % (ty_str(t)[0], rng.randrange(3))
            if self.symty(e).get(name, t) != t:
                continue
            vs.append(self.build(e, "Symbol", name, t))
        vs = tuple(v for v in vs if self.usable(v))
        return self.build(e, rng.choice(["ForAll", "Exists"]), vs, self.pick(e, B))

    def anytype(self, nobool=False):
        rng = self.rng
        r = rng.random()
        if r < 0.7:
            t = rng.choice(BASE_TYPES)
        elif r < 0.9:
            t = rng.choice(ARRAY_TYPES)
        else:
            t = rng.choice(BASE_TYPES)
        if nobool and t == ("B",):
            t = ("I",)
        return t

    def g_arith(self, e):
        rng = self.rng
        T = rng.choice([("I",), ("R",)])
        c = rng.randrange(9)
        if c == 0:
            return self.build(e, rng.choice(["Plus", "Times"]), self.picks(e, T, rng.choice([0, 1, 2, 2, 3, 4])), rng.randrange(4))
        if c == 1:
            return self.emitP(e, "Minus", *self.picks(e, T, 2))
        if c == 2:
            return self.emitP(e, rng.choice(["LE", "LT", "GE", "GT"]), *self.picks(e, T, 2))
        if c == 3:
            a = self.pick(e, T)
            r = rng.random()
            if r < 0.5:
                b = self.const_of(e, T)
            else:
                b = self.pick(e, T)
            if not self.usable(b):
                return b
            return self.build(e, "Div", a, b)
        if c == 4:
            r = rng.random()
            if r < 0.45:        # symbolic base, constant exponent of the same sort
                a = self.build(e, "Symbol", "pw%s" % T[0], T)
                b = self.const_of(e, T)
            elif r < 0.9:       # constant base: folds
                a = self.const_of(e, T)
                b = self.build(e, "Int", ("int", rng.randrange(4)))
            else:               # non-constant exponent: rejected
                a = self.pick(e, T)
                b = self.build(e, "Symbol", "pe%s" % T[0], T)
            if not (self.usable(a) and self.usable(b)):
                return a
            ka, kb = self.k(a), self.k(b)
            if self.B.is_const(ka) and self.B.is_const(kb):
                if self.B.node[kb][2][0] != "i" or self.B.node[kb][2][1] < 0 or abs(self.B.node[ka][2][1]) > 2 ** 40:
                    return a
            return self.build(e, "Pow", a, b)
        if c == 5:
            t = rng.choice([("I",), ("I",), ("R",)])
            return self.build(e, "ToReal", self.pick(e, t) if rng.random() < 0.6 else self.const_of(e, t))
        if c == 6:
            return self.build(e, rng.choice(["Min", "Max"]), self.picks(e, T, rng.choice([1, 2, 3, 4, 5])), rng.randrange(3))
        if c == 7:
            return self.gen_const(e)
        return self.emitP(e, "Ite", self.pick(e, ("B",)), *self.picks(e, T, 2))

    def gen_const(self, e):
        """every numeric spelling, legal and illegal"""
        rng = self.rng
        c = rng.randrange(8)
        if c == 0:
            n = rng.choice(INTS)
            sp = rng.choice([("int", n), ("int", n), ("float", (n, 1)) if abs(n) < 2 ** 53 else ("int", n),
                             ("frac", (n, 1)), ("bool", n % 2 == 1), ("other", None), ("pair", (n, 1))])
            return self.build(e, "Int", sp)
        if c in (1, 2, 3):
            q = rng.choice(RATS)
            sps = real_spellings(q, rng) + [("bool", q != 0), ("other", None), ("pair", (q.numerator, 0))]
            return self.build(e, "Real", rng.choice(sps))
        if c == 4:
            return self.build(e, "String", rng.choice(STRINGS + [None]))
        w = rng.choice([1, 2, 3, 4, 8, 12])
        v = bv_value(rng, w)
        if c in (5, 6):
            ctor, val, ww = rng.choice(bv_spellings(v, w))
            return self.build(e, ctor, val, ww)
        bad = [("BV", ("int", 2 ** w), w), ("BV", ("int", -1), w), ("BV", ("str", "#b102"), None), ("BV", ("str", "abc"), None),
               ("BV", ("str", "#b"), None), ("BV", ("str", ""), None), ("BV", ("str", "#b01"), 3), ("BV", ("int", v), None),
               ("BV", ("bool", True), w), ("BV", ("other", None), w), ("BV", ("other", None), None),
               ("SBV", ("int", 2 ** (w - 1)), w), ("SBV", ("int", -(2 ** (w - 1)) - 1), w), ("SBV", ("int", 1), None),
               ("SBV", ("int", -(2 ** (w - 1))), w), ("SBV", ("int", -1), w), ("SBV", ("other", None), w)]
        b = format(v, "0%db" % w)
        bad += [("BV", ("int", v), alt_width(rng, w)), ("BVOne", None, alt_width(rng, w)), ("BVZero", None, alt_width(rng, w)),
                ("BV", ("str", "#b" + b), alt_width(rng, w)), ("BV", ("str", b), alt_width(rng, w + 1)),
                ("SBV", ("int", 0), alt_width(rng, w)), ("SBV", ("int", 2 ** w), alt_width(rng, w)),
                ("BV", ("int", 0), 0), ("BV", ("int", 0), -1), ("BV", ("other", None), 0), ("SBV", ("int", 0), 0),
                ("BVZero", None, 0), ("BVOne", None, -2)]
        ctor, val, ww = rng.choice(bad)
        return self.build(e, ctor, val, ww)

    def g_bv(self, e):
        rng = self.rng
        w = rng.choice([1, 2, 3, 4, 4, 8, 12])
        T = ("V", w)
        c = rng.randrange(17)
        if c == 0:
            return self.build(e, "BVUn", rng.choice(["BVNot", "BVNeg"]), self.pick(e, T))
        if c == 1:
            return self.build(e, "BVNary", rng.choice(["BVAnd", "BVOr", "BVAdd", "BVMul"]),
                              self.picks(e, T, rng.choice([0, 1, 2, 2, 3, 4])), rng.randrange(3))
        if c == 2:
            return self.build(e, "BVBin", rng.choice(sorted(self.BVBIN)), *self.picks(e, T, 2))
        if c == 3:
            ws = [rng.choice([1, 2, 3, 4]) for _ in range(rng.choice([1, 2, 2, 3]))]
            return self.build(e, "BVConcat", tuple(self.pick(e, ("V", x)) for x in ws), rng.randrange(3))
        if c == 4:
            a = self.pick(e, T)
            r = rng.random()
            if r < 0.7:
                s = rng.randrange(w)
                en = rng.randrange(s, w)
            elif r < 0.85:
                s, en = rng.randrange(w), None
            elif r < 0.95:
                s, en = rng.choice([(1, 0), (0, w), (-1, 0), (2, 1)])
            else:       # bool / float positions: equal to 0 / 1 as Python values, not ints
                s, en = rng.choice([(("other", False), w - 1), (0, ("other", float(w - 1))), (("other", 0.0), None)])
            return self.build(e, "BVExtract", a, s, en)
        if c == 5:
            return self.emitP(e, rng.choice(["BVULT", "BVULE", "BVUGT", "BVUGE", "BVSLT", "BVSLE", "BVSGT", "BVSGE"]),
                              *self.picks(e, T, 2))
        if c == 6:
            a = self.pick(e, T)
            if rng.random() < 0.5:
                rhs = ("node", self.pick(e, T))
            elif rng.random() < 0.9:
                rhs = ("int", rng.choice([0, 1, w - 1, 2 ** w - 1, 2 ** w, -1]))
            else:
                return self.build(e, "BVShift", rng.choice(["BVLShl", "BVLShr"]), a, ("other", rng.choice([True, 1.0, False])))
            return self.build(e, "BVShift", rng.choice(["BVLShl", "BVLShr", "BVAShr"]), a, rhs)
        if c == 7:
            n = rng.randrange(0, w + 1)
            if rng.random() < 0.12:     # the same step spelled as a bool / float: never accepted
                n = ("other", True if n == 1 else False if n == 0 and rng.random() < 0.5 else float(n))
            return self.build(e, "BVRot", rng.choice(["BVRol", "BVRor"]), self.pick(e, T), n)
        if c == 8:
            n = rng.randrange(0, 5)
            if rng.random() < 0.12:
                n = ("other", True if n == 1 else float(n))
            return self.build(e, "BVExt", rng.choice(["BVZExt", "BVSExt"]), self.pick(e, T), n)
        if c == 9:
            return self.build(e, "BVComp", *self.picks(e, T, 2))
        if c == 10:
            return self.build(e, "BVNotOf", rng.choice(["BVNand", "BVNor", "BVXnor"]), *self.picks(e, T, 2))
        if c == 11:
            return self.build(e, "BVSMod", *self.picks(e, T, 2))
        if c == 12:
            return self.build(e, "BVRepeat", self.pick(e, ("V", rng.choice([1, 2, 3]))), rng.choice([1, 2, 3, 4]))
        if c == 13:
            return self.emitP(e, "BVToNatural", self.pick(e, T))
        if c == 14:
            sign = rng.random() < 0.5
            return self.build(e, rng.choice(["MinBV", "MaxBV"]), sign, self.picks(e, T, rng.choice([1, 2, 3, 4])))
        if c == 15:
            return self.gen_const(e)
        return self.emitP(e, "Ite", self.pick(e, ("B",)), *self.picks(e, T, 2))

    def g_str(self, e):
        rng = self.rng
        S, I = ("S",), ("I",)
        c = rng.randrange(11)
        if c == 0:
            return self.emitP(e, rng.choice(["StrLength", "StrToInt"]), self.pick(e, S))
        if c == 1:
            return self.build(e, "StrConcat", self.picks(e, S, rng.choice([0, 1, 2, 2, 3, 4])), rng.randrange(3))
        if c == 2:
            return self.emitP(e, rng.choice(["StrContains", "StrPrefixOf", "StrSuffixOf"]), *self.picks(e, S, 2))
        if c == 3:
            return self.emitP(e, "StrIndexOf", self.pick(e, S), self.pick(e, S), self.pick(e, I))
        if c == 4:
            return self.emitP(e, "StrReplace", *self.picks(e, S, 3))
        if c == 5:
            return self.emitP(e, "StrSubstr", self.pick(e, S), self.pick(e, I), self.pick(e, I))
        if c == 6:
            return self.emitP(e, "IntToStr", self.pick(e, I))
        if c == 7:
            return self.emitP(e, "StrCharAt", self.pick(e, S), self.pick(e, I))
        if c == 8:
            return self.build(e, "String", rng.choice(STRINGS))
        if c == 9:
            return self.build(e, "Algebraic", rng.choice(["alg0", "alg1", "√2"]))
        return self.emitP(e, "Equals", *self.picks(e, S, 2))

    def g_array(self, e):
        rng = self.rng
        T = rng.choice(ARRAY_TYPES)
        it, et = T[1], T[2]
        c = rng.randrange(6)
        if c == 0:
            return self.emitP(e, "Select", self.pick(e, T), self.pick(e, it))
        if c == 1:
            return self.emitP(e, "Store", self.pick(e, T), self.pick(e, it), self.pick(e, et))
        if c in (2, 3, 4):
            if it[0] not in "IRSVB":
                return self.build(e, "Array", it, self.pick(e, et), ())
            d = self.pick(e, et)
            kvs = {}
            for _ in range(rng.choice([0, 1, 2, 3, 5, 8])):
                k = self.const_of(e, it) if rng.random() < 0.93 else self.pick(e, it)
                if not self.usable(k):
                    continue
                v = d if rng.random() < 0.2 else self.pick(e, et)
                kvs[self.o(k)] = (k, v)
            if rng.random() < 0.08:
                # an index of another sort whose value is the default: the assignment is dropped,
                # its index must still be rejected (formula.py:1124-1127)
                ot = rng.choice([t for t in (("I",), ("S",), ("V", 2), ("R",), ("B",)) if t != it])
                k = self.const_of(e, ot)
                if k is not None and self.usable(k):
                    kvs[self.o(k)] = (k, d)
            a = self.build(e, "Array", it, d, tuple(kvs.values()))
            if self.usable(a):
                # array_value_get on present, absent and default-valued indexes
                for k, _ in list(kvs.values())[:3]:
                    if self.B.is_const(self.k(k)):
                        self.do_get(e, a, k)
                k = self.const_of(e, it)
                if self.usable(k):
                    self.do_get(e, a, k)
            return a
        # get on an older array value
        cands = [i for i in self.pool[e].get(T, []) if self.B.nt(self.k(i)) == NTN["ARRAY_VALUE"]]
        if cands and it[0] in "IRSVB":
            k = self.const_of(e, it)
            if self.usable(k):
                self.do_get(e, rng.choice(cands), k)
            return k
        return self.leaf(e, T)

    def g_sig_family(self, e):
        """function symbols re-requested under the SAME name with related signatures: the same
        one, a parameter list that is a prefix / an extension of it, permuted parameters,
        another return type.  Same object iff same (name, signature), else PysmtTypeError."""
        rng = self.rng
        sorts = [("I",), ("B",), ("R",), ("V", 4), U]
        name = "h%d" % rng.randrange(3)
        prev = self.symty(e).get(name)
        if prev is not None and prev[0] == "F" and rng.random() < 0.85:
            ret, ps = prev[1], list(prev[2])
            c = rng.randrange(6)
            if c == 0:
                pass                                    # same signature: same object
            elif c == 1 and len(ps) > 1:
                ps = ps[:-1]                            # proper prefix
            elif c == 2:
                ps = ps + [rng.choice(sorts)]           # extension
            elif c == 3 and len(ps) > 1:
                ps = ps[1:] + ps[:1]                    # rotated (a permutation)
            elif c == 4:
                ret = rng.choice([x for x in sorts if x != ret])
            else:
                ps = ps[:-1] + [rng.choice(sorts)]      # last parameter changed
            ft = ("F", ret, tuple(ps))
        else:
            n = rng.choice([1, 2, 2, 3])
            ft = ("F", rng.choice(sorts), tuple(rng.choice(sorts[:3]) if rng.random() < 0.7 else rng.choice(sorts)
                                                for _ in range(n)))
        f = self.build(e, "Symbol", name, ft)
        if self.usable(f) and rng.random() < 0.6:
            ps = tuple(self.pick(e, p) for p in ft[2])
            return self.build(e, "Function", f, ps)
        return f

    def g_uf(self, e):
        rng = self.rng
        if rng.random() < 0.4:
            return self.g_sig_family(e)
        ft = rng.choice(FUN_TYPES)
        f = self.build(e, "Symbol", "f%d_%d" % (rng.randrange(2), self.tyidx(ft)), ft)
        if not self.usable(f):
            return f
        r = rng.random()
        if r < 0.8:
            ps = tuple(self.pick(e, p) for p in ft[2])
        elif r < 0.9:
            ps = ()
        else:
            ps = tuple(self.pick(e, p) for p in ft[2]) + (self.pick(e, ft[2][0]),)
        return self.build(e, "Function", f, ps)

    def g_symbol(self, e):
        rng = self.rng
        r = rng.random()
        if r < 0.35:
            t = self.anytype()
            return self.leaf(e, t)
        if r < 0.5:     # shared names, clashing types
            return self.build(e, "Symbol", rng.choice(["c0", "c1", "FV1", "FV3", "a0b", ""]), rng.choice(BASE_TYPES[:6]))
        if r < 0.62:    # the same name over sorts that PRINT alike but are different declarations
            t = rng.choice(CONFUSABLE)
            k = rng.randrange(3)
            if k == 1:
                t = ("A", t, rng.choice(CONFUSABLE)) if t[0] != "A" else t
            elif k == 2:
                t = ("F", rng.choice(CONFUSABLE), (t,))
            return self.build(e, "Symbol", rng.choice(["k0", "k1"]), t)
        if r < 0.85:
            pre, post = rng.choice([("FV", ""), ("FV", ""), ("a", "b"), ("", "")])
            return self.build(e, "Fresh", self.anytype(), pre, post)
        if r < 0.93:    # a sort declared with different arities in the two environments
            d = self.envs[e].type_manager._custom_types_decl.get("Q")
            ar = d.arity if d is not None else e % 2
            t = ("C", "Q", ()) if ar == 0 else ("C", "Q", (("I",),))
            return self.build(e, "Symbol", "qs%d" % rng.randrange(2), t)
        t = rng.choice([BOX_PAIR, ("C", "Box", (BOX_PAIR,)), ("A", BOX_PAIR, PAIR_II), ("F", BOX_U, (BOX_PAIR,))])
        return self.build(e, "Symbol", "n%d_%d" % (rng.randrange(2), self.tyidx(t)), t)

    # ------------------------------------------------------------------ other routes to an existing formula
    def alt(self, e, name, args):
        """an equivalent call (documented normalisation / other spelling), or the same one"""
        rng = self.rng
        if name == "P":
            py = args[0]
            swapped = {"LE": "GE", "GE": "LE", "LT": "GT", "GT": "LT", "BVULT": "BVUGT", "BVUGT": "BVULT",
                       "BVULE": "BVUGE", "BVUGE": "BVULE", "BVSLT": "BVSGT", "BVSGT": "BVSLT", "BVSLE": "BVSGE",
                       "BVSGE": "BVSLE"}
            if py in swapped and rng.random() < 0.6:
                return "P", (swapped[py], args[2], args[1])
            if py == "Iff" and rng.random() < 0.4 and self.tyof(args[1]) == ("B",):
                return "EqualsOrIff", (args[1], args[2])
            if py == "Equals" and rng.random() < 0.4:
                return "EqualsOrIff", (args[1], args[2])
            return name, args
        if name in ("And", "Or", "Plus", "Times", "StrConcat", "AtMostOne", "ExactlyOne", "AllDifferent", "Min", "Max",
                    "BVConcat"):
            return name, (args[0], rng.randrange(3))
        if name == "BVNary":
            return name, (args[0], args[1], rng.randrange(3))
        if name == "Real":
            try:
                k = self.B.Real(args[0])
            except Expected:
                return name, args
            p = self.B.node[k][2]
            return name, (rng.choice(real_spellings(Fraction(p[1], p[2]), rng)),)
        if name in ("BV", "SBV", "BVOne", "BVZero"):
            try:
                k = self.B.BV(("int", 1), args[1]) if name == "BVOne" else \
                    self.B.BV(("int", 0), args[1]) if name == "BVZero" else getattr(self.B, name)(args[0], args[1])
            except Expected:
                return name, args
            p = self.B.node[k][2]
            c, val, w = rng.choice(bv_spellings(p[1], p[2]))
            return c, (val, w)
        if name == "Xor" and rng.random() < 0.5:
            i = self.emitP(e, "Iff", args[0], args[1])
            return "Not", (i,)
        if name == "NotEquals" and rng.random() < 0.5:
            i = self.emitP(e, "Equals", args[0], args[1])
            return "Not", (i,)
        if name == "BVNotOf" and rng.random() < 0.5:
            inner = {"BVNand": ("BVNary", ("BVAnd", (args[1], args[2]), 0)), "BVNor": ("BVNary", ("BVOr", (args[1], args[2]), 0)),
                     "BVXnor": ("BVBin", ("BVXor", args[1], args[2]))}[args[0]]
            i = self.build(e, inner[0], *inner[1])
            return "BVUn", ("BVNot", i)
        if name == "BVShift" and args[2][0] == "int" and rng.random() < 0.5 and self.usable(args[1]):
            w = self.tyof(args[1])[1]
            if 0 <= args[2][1] < 2 ** w:
                i = self.build(e, "BV", ("int", args[2][1]), w)
                return name, (args[0], args[1], ("node", i))
        return name, args

    def redo(self, e, name, args):
        if name == "P":
            return self.emitP(e, *args)
        if name == "ILL":
            wire, pyc, bluec = self.c_ILL(e, *args)
            return self.emit(e, None, wire, pyc, bluec, recipe=("ILL", args))
        return self.build(e, name, *args)

    def replay(self, e):
        """re-issue an earlier call (possibly through another spelling): must hit the same object"""
        c = [i for i, x in enumerate(self.res) if x.env == e and x.recipe is not None]
        if not c:
            return None
        i = self.rng.choice(c)
        name, args = self.res[i].recipe
        name, args = self.alt(e, name, args)
        return self.redo(e, name, args)

    def rebuild(self, e, budget=40):
        """re-create the whole DAG of an earlier result bottom-up, in another order, through
        other spellings, so that the final call meets the existing object by a different route"""
        c = [i for i, x in enumerate(self.res) if x.env == e and x.recipe is not None and self.usable(i)]
        if not c:
            return None
        root = self.rng.choice(c[-30:]) if self.rng.random() < 0.7 else self.rng.choice(c)
        return self.rebuild_from(e, root, budget)

    def rebuild_from(self, e, root, budget=40):
        memo = {}
        left = [budget]

        def go(i):
            if i in memo:
                return memo[i]
            x = self.res[i]
            if x.recipe is None or not self.usable(i) or left[0] <= 0:
                memo[i] = i
                return i
            left[0] -= 1
            name, args = x.recipe
            new = self._map_refs(name, args, go)
            if new is None:
                memo[i] = i
                return i
            name2, args2 = self.alt(e, name, new)
            j = self.redo(e, name2, args2)
            memo[i] = j if self.usable(j) else i
            return memo[i]
        return go(root)

    def _map_refs(self, name, args, go):
        """apply `go` to the result indices inside a recipe (in a random order)"""
        rng = self.rng
        def many(t):
            order = list(range(len(t)))
            rng.shuffle(order)
            out = list(t)
            for p in order:
                out[p] = go(t[p])
            return tuple(out)
        if name == "P":
            return (args[0],) + many(args[1:])
        if name in ("And", "Or", "Plus", "Times", "StrConcat", "AtMostOne", "ExactlyOne", "AllDifferent", "Min", "Max",
                    "BVConcat"):
            return (many(args[0]),) + tuple(args[1:])
        if name in ("MinBV", "MaxBV"):
            return (args[0], many(args[1]))
        if name == "BVNary":
            return (args[0], many(args[1])) + tuple(args[2:])
        if name in ("Not", "ToReal"):
            return (go(args[0]),)
        if name in ("Xor", "NotEquals", "EqualsOrIff", "Pow", "Div", "BVComp", "BVSMod"):
            return many(args)
        if name in ("ForAll", "Exists"):
            b = go(args[1])
            return (many(args[0]), b)
        if name == "Function":
            return (go(args[0]), many(args[1]))
        if name in ("BVUn",):
            return (args[0], go(args[1]))
        if name in ("BVBin", "BVNotOf"):
            return (args[0],) + many(args[1:])
        if name == "BVShift":
            rhs = args[2]
            if rhs[0] == "node":
                rhs = ("node", go(rhs[1]))
            return (args[0], go(args[1]), rhs)
        if name in ("BVExtract", "BVRepeat"):
            return (go(args[0]),) + tuple(args[1:])
        if name in ("BVRot", "BVExt"):
            return (args[0], go(args[1]), args[2])
        if name == "Array":
            d = go(args[1])
            kvs = tuple((go(k), go(v)) for k, v in args[2])
            if len(set(kvs_k for kvs_k, _ in kvs)) != len(kvs):
                return None
            return (args[0], d, kvs)
        return args     # leaves: Symbol, Fresh(never replayed identically), constants

    def g_churn(self, e):
        """constant churn: a burst of 70..300 distinct constants between two requests for the
        same earlier constants and for compound terms over them (front caches that are
        flushed, resized or rebuilt must not change which object a structure is)"""
        rng = self.rng
        anchors = []
        q = rng.choice(RATS)
        anchors.append(self.build(e, "Real", rng.choice(real_spellings(q, rng))))
        anchors.append(self.build(e, "Int", ("int", rng.choice(INTS))))
        anchors.append(self.build(e, "String", rng.choice(STRINGS)))
        w = rng.choice([1, 2, 4, 8])
        c, val, ww = rng.choice(bv_spellings(bv_value(rng, w), w))
        anchors.append(self.build(e, c, val, ww))
        old = [i for i in self.pool[e].get(("R",), []) if self.B.nt(self.k(i)) == NTN["REAL_CONSTANT"]]
        anchors += rng.sample(old, min(3, len(old)))
        anchors = [i for i in anchors if self.usable(i)]
        comp = []
        for i in anchors[:3]:
            t = self.tyof(i)
            if t in (("R",), ("I",)):
                comp.append(self.build(e, "Plus", (self.pick(e, t), i), 0))
                comp.append(self.emitP(e, "LE", i, self.pick(e, t)))
        kind = rng.choice(["real", "real", "real", "mixed"])
        n = rng.randrange(70, 301)
        for _ in range(n):
            self.churn += 1
            j = self.churn
            r = rng.random() if kind == "mixed" else 0.0
            if r < 0.55:
                qq = Fraction(1000 + j, rng.choice([1, 7, 9, 16]))
                self.build(e, "Real", rng.choice(real_spellings(qq, rng)))
            elif r < 0.75:
                self.build(e, "Int", ("int", 1000 + j))
            elif r < 0.9:
                self.build(e, "String", "c%d" % j)
            else:
                self.build(e, "BV", ("int", j % 4096), 12)
        # the same constants and compounds again, through other spellings
        for i in anchors + comp:
            x = self.res[i]
            if x.recipe is not None:
                name, args = self.alt(e, *x.recipe)
                self.redo(e, name, args)
        if comp:
            self.rebuild_from(e, rng.choice(comp))

    ILL = [   # (python name, wire name, list style, argument sorts): ONE create_node, rejected by the type checker
        ("And", "And", True, [("I",), ("B",)]), ("Or", "Or", True, [("B",), ("R",)]),
        ("Implies", "Implies", False, [("I",), ("B",)]), ("Iff", "Iff", False, [("I",), ("I",)]),
        ("Plus", "Plus", True, [("B",), ("B",)]), ("Times", "Times", True, [("I",), ("R",)]),
        ("Minus", "Minus", False, [("I",), ("R",)]), ("LE", "LE", False, [("B",), ("B",)]),
        ("LT", "LT", False, [("I",), ("R",)]), ("GE", "GE", False, [("S",), ("S",)]),
        ("Equals", "Equals", False, [("B",), ("B",)]), ("Equals", "Equals", False, [("I",), ("R",)]),
        ("Not", "Not", False, [("I",)]), ("Ite", "Ite", False, [("I",), ("B",), ("B",)]),
        ("Ite", "Ite", False, [("B",), ("I",), ("R",)]), ("BVXor", "BVXor", False, [("V", 4), ("V", 8)]),
        ("BVULT", "BVULT", False, [("V", 4), ("V", 2)]), ("BVAdd", "BVAdd", True, [("V", 4), ("V", 8)]),
        ("StrLength", "StrLength", False, [("I",)]), ("StrConcat", "StrConcat", True, [("S",), ("I",)]),
        ("Select", "Select", False, [("A", ("I",), ("I",)), ("B",)]),
        ("Store", "Store", False, [("A", ("I",), ("I",)), ("I",), ("B",)]),
        ("BVToNatural", "BVToNatural", False, [("I",)]), ("BVComp", "BVComp", False, [("V", 4), ("V", 8)]),
    ]

    def c_ILL(self, e, k, idx):
        pyname, wname, lst, _ = self.ILL[k]
        objs = [self.o(i) for i in idx]
        if lst:
            wire = [self._lst(idx)]
            py = (lambda m: getattr(m, pyname)(objs)) if self.rng.random() < 0.5 else (lambda m: getattr(m, pyname)(*objs))
        else:
            wire = [self.r(i) for i in idx]
            py = lambda m: getattr(m, pyname)(*objs)
        return ["!", wname] + wire, py, (lambda B: _expect("E:type"))

    def g_illsorted(self, e):
        """an ill-sorted call that is ONE create_node: the node is inserted, the type checker
        rejects it (PysmtTypeError), the node and its id stay; asking again fails again"""
        k = self.rng.randrange(len(self.ILL))
        idx = tuple(self.pick(e, t) for t in self.ILL[k][3])
        if not all(self.usable(i) for i in idx):
            return None
        wire, pyc, bluec = self.c_ILL(e, k, idx)
        i = self.emit(e, None, wire, pyc, bluec, recipe=("ILL", (k, idx)))
        if self.rng.random() < 0.4:     # the "found" path re-checks and raises again
            wire, pyc, bluec = self.c_ILL(e, k, idx)
            self.emit(e, None, wire, pyc, bluec, recipe=("ILL", (k, idx)))
        return i

    def g_normalize(self, e):
        """normalize into e an object of another environment (interleaving several sources on
        one target, whose normalizer keeps its memo) or, sometimes, one of e's own formulas"""
        rng = self.rng
        if rng.random() < 0.2:
            srcs = [e]
        else:
            srcs = [k for k in self.active if k != e]
            rng.shuffle(srcs)
            srcs = srcs[:1] + [e]
        def some(k):
            c = [i for i, x in enumerate(self.res) if x.env == k and self.usable(i)]
            if not c:
                return None
            return rng.choice(c[-25:]) if rng.random() < 0.6 else rng.choice(c)
        for k in srcs:
            i = some(k)
            if i is None:
                continue
            r = rng.random()
            if r < 0.6:
                return self.do_normalize(e, i)
            if r < 0.8:     # through a one-formula shortcut
                return self.do_route(e, rng.choice(ROUTES1), [i])
            # several formulas, foreign ones (from any environment) and own ones mixed
            n = 2 if r < 0.9 else rng.choice([2, 3, 4])
            route = "binary_interpolant" if r < 0.9 else rng.choice(["get_unsat_core", "sequence_interpolant"])
            idxs = [i]
            while len(idxs) < n:
                j = some(rng.choice(self.active))
                idxs.append(i if j is None else j)
            rng.shuffle(idxs)
            return self.do_route(e, route, idxs)
        return None

    def run(self):
        rng = self.rng
        # histories differ in their mix: one or two environments, favourite theories
        w = {"bool": 3, "arith": 3, "bv": 3, "str": 1.5, "array": 1.5, "uf": 1, "symbol": 1.5,
             "const": 1.5, "replay": 3, "rebuild": 2.5, "normalize": 1.2}
        for k in list(w):
            w[k] *= rng.choice([0.2, 1, 1, 3])
        bursts = rng.choice([1, 1, 2, 3]) if rng.random() < 0.07 else 0
        nact = rng.choice([1, 2, 2, 3, 3, 3])
        self.active = list(range(nact))
        envw = [1.0] + [rng.choice([0.15, 0.5, 1.0]) for _ in range(nact - 1)]
        names = list(w)
        weights = [w[k] for k in names]
        while len(self.ops) < self.nops:
            e = rng.choices(self.active, envw)[0]
            if bursts and rng.random() < 0.04:
                bursts -= 1
                self.g_churn(e)
                continue
            if rng.random() < 0.012:
                self.g_illsorted(e)
                continue
            g = rng.choices(names, weights)[0]
            if g == "bool":
                self.g_bool(e)
            elif g == "arith":
                self.g_arith(e)
            elif g == "bv":
                self.g_bv(e)
            elif g == "str":
                self.g_str(e)
            elif g == "array":
                self.g_array(e)
            elif g == "uf":
                self.g_uf(e)
            elif g == "symbol":
                self.g_symbol(e)
            elif g == "const":
                self.gen_const(e)
            elif g == "replay":
                self.replay(e)
            elif g == "rebuild":
                self.rebuild(e)
            else:
                self.g_normalize(e)
        while bursts:           # short histories: the bursts come at the end
            bursts -= 1
            self.g_churn(rng.choices(self.active, envw)[0])
            for _ in range(5):
                self.replay(0)

    # ------------------------------------------------------------------ evaluation of one history
    def dag(self, root):
        """all FNode objects of a formula (children and payload nodes)"""
        seen = {}
        stack = [root]
        while stack:
            x = stack.pop()
            if id(x) in seen:
                continue
            seen[id(x)] = x
            stack.extend(x.args())
            nt = x.node_type()
            if nt in (0, 1):
                stack.extend(x.quantifier_vars())
            elif nt == 8:
                stack.append(x.function_name())
        return seen

    def interned(self, tm, ty):
        """is `ty` (and every sub-type) the object registered in TypeManager tm?"""
        if ty.is_bool_type() or ty.is_int_type() or ty.is_real_type() or ty.is_string_type():
            return True
        try:
            if ty.is_bv_type():
                return tm._bv_types[ty.width] is ty
            if ty.is_array_type():
                return tm._array_types[(ty.index_type, ty.elem_type)] is ty and \
                    self.interned(tm, ty.index_type) and self.interned(tm, ty.elem_type)
            if ty.is_function_type():
                return tm._function_types[(ty.return_type, tuple(ty.param_types))] is ty and \
                    self.interned(tm, ty.return_type) and all(self.interned(tm, p) for p in ty.param_types)
            d = tm._custom_types_decl[ty.basename]
            return ty.decl is d and tm._custom_types[(d, tuple(ty.args or ()))] is ty and \
                all(self.interned(tm, a) for a in (ty.args or ()))
        except KeyError:
            return False

    def table(self, e):
        m = self.mgr[e]
        rows = []
        memo = {}
        for n in sorted(m.formulae.values(), key=lambda n: n.node_id()):
            _, pw = self.payload_of(n, memo)
            try:
                bw = str(n.bv_width())
            except Exception:
                bw = "-"
            row = "%d;%d;%s;%s;%s" % (n.node_id(), n.node_type(), ",".join(str(a.node_id()) for a in n.args()), pw, bw)
            if n.node_type() == 21:
                try:
                    row += ";%d;%s" % (n.bv_signed_value(), n.bv_bin_str())
                except Exception as ex:
                    row += ";" + classify(ex)
            rows.append(row)
        syms = ",".join("%s:%d" % (hx(k), v.node_id()) for k, v in reversed(list(m.symbols.items())))
        return " ".join(rows) + " ; next=%d fresh=%d syms=%s" % (m._next_free_id, m._fresh_guess, syms)

    def tmdump(self, e):
        tm = self.envs[e].type_manager
        return {
            "bv": set(str(w) for w in tm._bv_types),
            "arr": set(ty_str(ty_of_obj(t)) for t in tm._array_types.values()),
            "fun": set(ty_str(ty_of_obj(t)) for t in tm._function_types.values()),
            "decl": set("%s/%d" % (hx(n), d.arity) for n, d in tm._custom_types_decl.items()),
            "cus": set(ty_str(ty_of_obj(t)) for t in tm._custom_types.values()),
        }

    def request(self):
        addr = []
        for e in range(NENV):
            nodes = sorted(self.mgr[e].formulae.values(), key=id)
            addr.append("A:" + ",".join(str(n.node_id()) for n in nodes))
        return "mgr %s | %s" % (" ".join(addr), " | ".join(self.ops))

    def py_results(self):
        out = []
        for x in self.res:
            if x.special == "type":
                out.append("0")
            elif x.out is not None:
                out.append(x.out)
            else:
                out.append(str(x.obj.node_id()))
        return out

    def search(self):
        """S: the property itself, with the blueprint as oracle.  Returns [(sig, what)]."""
        V = list(self.viol)
        memo = {}
        for idx, x in enumerate(self.res):
            if x.special == "type":
                continue
            if x.special and x.special[0] == "get":
                if x.obj is None:
                    V.append(({"oracle": "array-get", "shape": "raises", "got": x.out}, "array_value_get raised (op %d)" % idx))
                    continue
                ao, io = self.o(x.special[1]), self.o(x.special[2])
                want = ao.array_value_assigned_values_map().get(io, ao.array_value_default())
                if want is not x.obj:
                    n = (len(ao.args()) - 1) // 2
                    pos = [i for i in range(n) if ao.args()[2 * i + 1] is io]
                    V.append(({"oracle": "array-get", "shape": "wrong-value",
                               "position": "absent" if not pos else "last" if pos[0] == n - 1 else "first" if pos[0] == 0 else "middle"},
                              "array_value_get(%s) = %s, the assignments say %s (op %d)" % (io, x.obj, want, idx)))
                continue
            if x.special and x.special[0] == "norm":
                self._search_norm(idx, x, V, memo)
                continue
            if x.exp is None and x.out is None:
                ak = self.actual_kid(x.obj, memo)
                if ak != x.kid:
                    V.append(({"oracle": "blueprint", "op": x.name, "shape": "structure-differs"},
                              "op %d %s: returned %s whose accessors give %r, built from %r" %
                              (idx, x.name, x.obj, self.B.node[ak], self.B.node[x.kid])))
            elif x.exp != x.out:
                sig = {"oracle": "outcome", "op": x.name, "expected": x.exp or "node", "got": x.out or "node"}
                if x.recipe and x.recipe[0] in ("Int", "Real", "Bool"):
                    sig["spelling"] = x.recipe[1][0][0]
                V.append((sig, "op %d: %s expected %s, got %s" % (idx, self.ops_text(idx), x.exp or "a node", x.out or x.obj)))
        # derived accessors of bit-vector constants, from the (value, width) they were built from
        for e in range(NENV):
            for n in self.mgr[e].formulae.values():
                if n.node_type() == 21:
                    pl = self.B.node[self.actual_kid(n, memo)][2]
                    if pl[0] == "v":
                        self._search_bv(e, n, pl[1], pl[2], V)
        # one object per structure, within each environment
        for e in range(NENV):
            bykid = {}
            for c, n in self.mgr[e].formulae.items():
                if n._content is not c and n._content != c:
                    V.append(({"oracle": "identity", "shape": "table-key-differs-from-content"}, "node %s" % n))
                k = self.actual_kid(n, memo)
                o = bykid.setdefault(k, n)
                if o is not n:
                    V.append(({"oracle": "identity", "shape": "equal-structure-different-objects", "nt": str(n.node_type())},
                              "env %d: nodes %d and %d are both %r" % (e, o.node_id(), n.node_id(), self.B.node[k])))
            for idx, x in enumerate(self.res):
                if x.env == e and x.obj is not None and x.special != "type":
                    c = x.obj._content
                    if self.mgr[e].formulae.get(c) is not x.obj:
                        V.append(({"oracle": "identity", "shape": "returned-object-not-in-table"}, "op %d" % idx))
        return V

    def _search_bv(self, e, n, v, w, V):
        b = format(v, "0%db" % w)
        want = {
            "bv_unsigned_value": lambda: (n.bv_unsigned_value(), v),
            "bv2nat": lambda: (n.bv2nat(), v),
            "bv_signed_value": lambda: (n.bv_signed_value(), v - 2 ** w if v >= 2 ** (w - 1) else v),
            "bv_bin_str": lambda: (n.bv_bin_str(), b),
            "bv_bin_str(reverse)": lambda: (n.bv_bin_str(reverse=True), b[::-1]),
            "bv_str(b)": lambda: (n.bv_str("b"), b),
            "bv_str(d)": lambda: (n.bv_str("d"), str(v)),
            "bv_str(x)": lambda: (n.bv_str("x"), format(v, "x").zfill(w // 4)),
            "constant_value": lambda: (n.constant_value(), v),
            "bv_width": lambda: (n.bv_width(), w),
        }
        for name in sorted(want):
            try:
                got, exp = want[name]()
            except Exception as ex:
                got, exp = classify(ex), "a value"
            if got != exp or type(got) is not type(exp):
                shape = "zero" if v == 0 else "most-negative" if v == 2 ** (w - 1) else "all-ones" if v == 2 ** w - 1 \
                    else "negative" if v > 2 ** (w - 1) else "positive"
                V.append(({"oracle": "accessor", "accessor": name, "shape": shape},
                          "env %d: %s of the constant built from (value=%d, width=%d) is %r, expected %r" % (e, name, v, w, got, exp)))

    def ops_text(self, idx):
        # position of op idx in self.ops = idx (one op per result)
        return self.ops[idx]

    def _search_norm(self, idx, x, V, memo):
        e = x.env
        src_i = x.special[1]
        if x.obj is None or x.exp is not None:
            if x.out not in (x.exp or "").split("|"):
                V.append(({"oracle": "normalize", "shape": "outcome", "expected": x.exp or "node", "got": x.out or "node"},
                          "op %d: normalize(%s) expected %s, got %s" % (idx, self.o(src_i), x.exp or "a copy", x.out or x.obj)))
            return
        ks, kc = self.k(src_i), self.actual_kid(x.obj, memo)
        if ks != kc:
            cm = {}
            if self.B.canon(ks, cm) == self.B.canon(kc, cm):
                V.append(({"oracle": "normalize", "shape": "array-assignment-order"},
                          "op %d: the copy of %s lists the array-value assignments in another order: %s" % (idx, self.o(src_i), x.obj)))
            else:
                V.append(({"oracle": "normalize", "shape": "structure-differs"},
                          "op %d: copy %s of %s" % (idx, x.obj, self.o(src_i))))
        d = self.dag(x.obj)
        if self.res[src_i].env == e:
            if x.obj is not self.o(src_i):
                V.append(({"oracle": "normalize", "shape": "own-formula-not-identity"},
                          "op %d: normalize of the manager's own %s returned another object %s" % (idx, self.o(src_i), x.obj)))
        foreign = set(id(n) for k in range(NENV) if k != e for n in self.mgr[k].formulae.values())
        if any(i in foreign for i in d):
            V.append(({"oracle": "normalize", "shape": "shared-node"}, "op %d: copy %s shares a node with another environment" % (idx, x.obj)))
        m = self.mgr[e]
        tm = self.envs[e].type_manager
        for n in d.values():
            if n not in m or m.formulae.get(n._content) is not n:
                V.append(({"oracle": "normalize", "shape": "foreign-node"}, "op %d: node %s of the copy is not a node of the target" % (idx, n)))
                break
        for n in d.values():
            ty = None
            if n.is_symbol():
                ty = n.symbol_type()
            elif n.is_array_value():
                ty = n.array_value_index_type()
            if ty is not None and not self.interned(tm, ty):
                V.append(({"oracle": "normalize", "shape": "type-not-interned"},
                          "op %d: type %s of %s is not the object registered in the target TypeManager" % (idx, ty, n)))
                break


def parse_tm(s):
    out = {}
    for part in s.split(" "):
        if "=" in part:
            k, v = part.split("=", 1)
            out[k] = set(x for x in v.replace("|", "\x00").split("\x00") if x) if k != "bv" else set(x for x in v.split(",") if x)
    return out


def compare(h, answer):
    """K: first difference between the model's answer and the implementation, or None"""
    if answer == "bad-op":
        return "the model rejects the request as ill-formed"
    parts = answer.split(" # ")
    if len(parts) != 1 + 2 * NENV:
        return "malformed model answer"
    mres = parts[0].split(" ") if parts[0] else []
    pres = h.py_results()
    if len(mres) != len(pres):
        return "model answered %d results for %d ops" % (len(mres), len(pres))
    for i, (a, b) in enumerate(zip(mres, pres)):
        if a != b:
            return "op %d `%s`: model %s, implementation %s" % (i, h.ops[i], a, b)
    for e in range(NENV):
        pt = h.table(e)
        if parts[1 + e] != pt:
            ma, pa = parts[1 + e].split(" "), pt.split(" ")
            for x, y in zip(ma, pa):
                if x != y:
                    return "env %d table: model `%s`, implementation `%s`" % (e, x, y)
            return "env %d table: different length (%d vs %d)" % (e, len(ma), len(pa))
        mt, pt2 = parse_tm(parts[1 + NENV + e]), h.tmdump(e)
        for k in pt2:
            if mt.get(k, set()) != pt2[k]:
                return "env %d type manager %s: model-only %s, implementation-only %s" % (
                    e, k, sorted(mt.get(k, set()) - pt2[k]), sorted(pt2[k] - mt.get(k, set())))
    return None


def sub_seed(seed, index):
    return (seed * 1000003 + index * 7919 + 12345) & 0xFFFFFFFF


def make_history(seed, index, nops, tier):
    h = History(random.Random(sub_seed(seed, index)), nops, tier)
    h.run()
    return h


def pick_nops(rng, tier):
    r = rng.random()
    if tier == "quick":
        if r < 0.55:
            return rng.randrange(4, 60)
        if r < 0.9:
            return rng.randrange(60, 200)
        return rng.randrange(200, 401)
    if r < 0.4:
        return rng.randrange(4, 80)
    if r < 0.8:
        return rng.randrange(80, 400)
    return rng.randrange(400, 1500)


def evaluate(ctx, h, index, nops, answer):
    rep = {"seed": ctx.seed, "index": index, "nops": nops, "tier": ctx.tier, "request": h.request()[:20000],
           "readable": [h.ops[i] for i in range(min(len(h.ops), 400))]}
    if answer is not None:
        d = compare(h, answer)
        if d is not None:
            r = dict(rep)
            r["divergence"] = d
            ctx.report_k("history %d: %s" % (index, d), r)
    for sig, what in h.search():
        r = dict(rep)
        r["violated"] = what
        ctx.report_s(sig, what, r)


def probe_sort_named_array(ctx):
    """S, outside the K stream (the model keeps declared sorts and built-in arrays apart, so
    this scenario is not part of the compared histories): a user-declared sort called
    `Array` of arity 2 must not be confused with the built-in array type."""
    from pysmt.environment import Environment
    env = Environment()
    m, tm = env.formula_manager, env.type_manager
    decl = tm.Type("Array", 2)
    custom = tm.get_type_instance(decl, tm.INT(), tm.INT())
    builtin = tm.ArrayType(tm.INT(), tm.INT())
    x = m.Symbol("x", custom)
    try:
        y = m.Symbol("x", builtin)
    except Exception:
        y = None        # rejecting the second declaration is the correct outcome
    ctx.case("probe:sort-named-Array")
    if y is not None and (y is x or not y.symbol_type().is_array_type()):
        ctx.report_s({"oracle": "identity", "shape": "declared-sort-named-Array-equals-builtin-array"},
                     "Symbol('x', ArrayType(INT,INT)) returns the symbol declared with the user sort Array{Int, Int}: "
                     "symbol_type().is_array_type() = %s" % y.symbol_type().is_array_type(),
                     {"probe": "sort-named-Array"})


def quiet():
    import pysmt.shortcuts      # its import installs a 'default' filter for pysmt's warnings
    warnings.simplefilter("ignore")
    warnings.filterwarnings("ignore", module="pysmt")


def run(ctx):
    from concurrent.futures import ThreadPoolExecutor
    _load_ops()
    quiet()
    sys.setrecursionlimit(20000)
    probe_sort_named_array(ctx)
    quick = ctx.tier == "quick"
    target = 2000 if quick else 14000
    gen_budget = 42 if quick else 600
    batch = 400 if quick else 1000
    t0 = time.time()
    hs = []
    lines = []
    index = 0
    seen_nt = set()
    pending = None
    pool = ThreadPoolExecutor(1)

    def ask(ls):
        try:
            return ctx.lean_run_sharded("C04", ls)
        except common.LeanError as e:
            return e

    def submit():
        nonlocal hs, lines, pending
        if pending is not None:
            _flush(ctx, pending[0], pending[1], pending[2].result(), seen_nt)
            pending = None
        if hs:
            pending = (hs, lines, pool.submit(ask, lines))
            hs, lines = [], []

    while index < target and time.time() - t0 < gen_budget:
        nops = pick_nops(ctx.rng, ctx.tier)
        try:
            h = make_history(ctx.seed, index, nops, ctx.tier)
            line = h.request()
        except Exception as ex:
            # the library left the generator in a state it cannot continue from: a failing input
            import traceback
            ctx.report_s({"oracle": "history", "shape": "generator-crash", "exc": type(ex).__name__},
                         "history %d cannot be generated: %r\n%s" % (index, ex, traceback.format_exc()[-1500:]),
                         {"seed": ctx.seed, "index": index, "nops": nops, "tier": ctx.tier})
            ctx.case(None)
            index += 1
            continue
        lines.append(line)
        hs.append((index, nops, h))
        index += 1
        if len(hs) >= batch:        # the model answers one batch while the next is generated
            submit()
    submit()
    submit()
    pool.shutdown()
    ctx.extra["node_types_covered"] = len(seen_nt)
    ctx.extra["node_types_missing"] = sorted(set(range(66)) - seen_nt)
    ctx.extra["histories"] = index
    ctx.extra["generation_s"] = round(time.time() - t0, 1)


def _flush(ctx, hs, lines, answers, seen_nt):
    if isinstance(answers, Exception):
        ctx.report_l("driver C04 does not run", str(answers))
        answers = None
    for j, (index, nops, h) in enumerate(hs):
        evaluate(ctx, h, index, nops, answers[j] if answers is not None else None)
        hits = 0
        seen = set()
        for x in h.res:
            if x.obj is not None:
                if id(x.obj) in seen:
                    hits += 1
                seen.add(id(x.obj))
        for e in range(NENV):
            for n in h.mgr[e].formulae.values():
                seen_nt.add(n.node_type())
        for k, v in h.counts.items():
            ctx.count("op:" + k, v)
        ctx.count("ops", len(h.ops))
        ctx.count("identity_hits", hits)
        ctx.case(lines[j] if hits > 0 and len(h.ops) >= 4 else None)
        if index < 3:
            ctx.sample({"history": index, "ops": h.ops[:12], "results": h.py_results()[:12]})


def replay(ctx, rep):
    _load_ops()
    quiet()
    r = rep["replay"]
    if "probe" in r:
        probe_sort_named_array(ctx)
        return
    try:
        h = make_history(r["seed"], r["index"], r["nops"], r.get("tier", "quick"))
        h.request()
    except Exception as ex:
        ctx.report_s({"oracle": "history", "shape": "generator-crash", "exc": type(ex).__name__},
                     "history %d cannot be generated: %r" % (r["index"], ex), r)
        ctx.case(None)
        return
    try:
        ans = ctx.lean_run("C04", [h.request()])[0]
    except common.LeanError as e:
        ctx.report_l("driver C04 does not run", str(e))
        ans = None
    evaluate(ctx, h, r["index"], r["nops"], ans)
    ctx.case(h.request())
