"""C09 -- print -> parse round trips.

K/S on the implementation itself:
 (a) `parse(print(f)) is f` for both SMT-LIB printers (tree, DAG) through `SmtLibParser` in the same environment
     (a constant-array literal comes back as the equivalent chain of stores);
 (b) a parsed script made of every serialisable command re-serialises to text that parses to an equivalent command
     list (identical terms; definitions identical up to the fresh names of their parameters);
 (c) `HRParser.parse(f.serialize())` has the same type and meaning (shared semantic oracle `chk_equiv`) and its
     serialisation differs at most in the grouping of n-ary operators.
Model side (K): the Lean `Impl.Parser.readTerm` applied to the Lean `Impl.Printer.toSexp` of the same term
(driver request `rt`), compared with the implementation's outcome.
"""
import io
import os
import re
import warnings
from fractions import Fraction

import pysmt.operators as op
import pysmt.smtlib.commands as smtcmd
from pysmt.environment import Environment
from pysmt.exceptions import PysmtException
from pysmt.logics import get_logic_by_name
from pysmt.parsing import HRParser
from pysmt.smtlib.parser import SmtLibParser, Tokenizer
from pysmt.smtlib.printers import SmtPrinter, SmtDagPrinter
from pysmt.smtlib.script import SmtLibCommand, SmtLibScript
from pysmt.typing import BOOL, INT, REAL, STRING, BVType, ArrayType, FunctionType

import common
import gen
import semantic
import wire

LEAN_MODULES = ["PySMT.Props.C09", "PySMT.Props.C09HR"]
RULE = ("type-directed random formulas of every sort (Bool/Int/Real/BV/String/Array/UF/quantifiers, shared sub-terms) over "
        "symbols named by a name generator (simple, needing quotes, leading digit, spaces, .def_0-like -- in half of the "
        "universes a run of 2-4 CONSECUTIVE .def_k names, k from 0 to 10, given to the Bool/Int symbols --, never reserved "
        "words or literal spellings); scripts made of every serialisable command (incl. define-fun, declare-sort, "
        "push/pop, OMT commands); sequences of 2-3 script round trips through ONE SmtLibParser object (logic without integers "
        "first, then integer numerals without set-logic, ...) compared with a fresh parser; the shortcuts without environment argument "
        "(parsing.parse, to_smtlib, write_smtlib + read_smtlib) under three different current environments per round (same names, "
        "partly other sorts) against the routes with an explicit environment; a case is non-trivial when the formula is not a leaf; distinct = distinct "
        "(printer, formula) pairs / script texts")
ASSUMPTIONS = [
    "symbol names never spell a literal, a reserved word, a theory symbol or (for the human-readable part) an HR keyword",
    "algebraic constants and pow are outside the printed fragment",
    "interpretations under which a division by zero is evaluated are skipped",
    "the human-readable theorems (Props.C09HR) are token level: the regular-expression scanner of HRLexer is not modelled, its "
    "tokens of the real serialisation are compared with the printer model's on every run (K)",
]

SMT_RESERVED = {
    "let", "forall", "exists", "!", "_", "as", "par", "match", "true", "false", "not", "and", "or", "xor", "=>", "=",
    "distinct", "ite", "+", "-", "*", "/", "div", "mod", "abs", "<", "<=", ">", ">=", "to_real", "to_int", "is_int",
    "select", "store", "concat", "extract", "Int", "Real", "Bool", "String", "Array", "BitVec", "pow", "const",
    "bv2nat", "<->",
}
HR_RESERVED = {"False", "True", "xor", "bv2nat", "bvcomp", "ROR", "ROL", "ZEXT", "SEXT", "ToReal", "Int", "Real", "Bool",
               "forall", "exists", "Array", "BV", "str", "a", "s", "u"}

HR_BAD_POOL = ["forall", "exists", "a.b", "k!1", "x'", "?v", "a\\b", ".def_0", "x-y", "it's", "e^2", "<w>"]
NAME_POOL_SIMPLE = ["x", "y", "z", "p", "q", "r", "v0", "w_1", "foo", "Bar", "a.b", "?v", "$t", "@c", "k!1", "x-y", "e^2",
                    "~n", "&r", "t%", "<w>", "_u", "A1", "zz9"]
NAME_POOL_QUOTED = ["a b", "x y z", "1x", "9", "a;b", "a\"b", "(p)", "a,b", "#q", ":k", "a[0]", "{c}", "tab\there",
                    "new\nline", "x'", "é", "let x", "0a", "-", "a(b", "b)"]
NAME_POOL_DEF = [".def_0", ".def_1", ".def_2", ".def_10", ".def", ".def_", "__x0", "__a1"]
NAME_POOL_ESC = ["a|b", "back\\slash", "|", "\\"]


class Names:
    """name generator; every name is used for one symbol only"""

    def __init__(self, rng, hr=False, esc=True, def_run=False):
        self.rng = rng
        self.used = set()
        self.hr = hr
        self.esc = esc
        self.kinds = {}
        # a run of CONSECUTIVE let-like names (.def_k, .def_k+1, ...: the names the DAG printer gives to its lets, k = number of
        # lets written before): handed out to the symbols made first (the Bool and Int symbols of a universe, the ones formulas
        # mention most), so that one formula regularly holds 2-4 user symbols whose names are the printer's next candidates
        self.run = []
        if def_run and not hr:
            k = rng.choice([0, 0, 0, 0, 1, 1, 2, 3, 4, 4, 7])
            self.run = [".def_%d" % (k + i) for i in range(rng.choice([2, 2, 3, 3, 4]))]

    def make(self, base):
        r = self.rng
        if self.run and r.random() < 0.7:
            n = self.run.pop(0)
            if n not in self.used:
                self.used.add(n)
                self.kinds[n] = "def-like"
                return n
        if self.hr and r.random() < 0.03:
            # a name the HR format cannot carry (F30; outside `HR.hrName`): about one symbol in twenty of the HR universes
            n = r.choice(HR_BAD_POOL)
            if n not in self.used:
                self.used.add(n)
                self.kinds[n] = "f30"
                return n
        for _ in range(100):
            k = r.random()
            if k < 0.45:
                n, kind = r.choice(NAME_POOL_SIMPLE), "simple"
            elif k < 0.75:
                n, kind = r.choice(NAME_POOL_QUOTED), "quoted"
            elif k < 0.90:
                n, kind = r.choice(NAME_POOL_DEF), "def-like"
            elif k < 0.95 and self.esc:
                n, kind = r.choice(NAME_POOL_ESC), "escaped"
            else:
                n, kind = base, "simple"
            if r.random() < 0.3 and kind != "def-like":
                n = n + str(r.randint(0, 9)) if r.random() < 0.5 else base + n
            if n == "" or n in self.used or n in SMT_RESERVED or _spells_literal(n):
                continue
            if self.hr and n in HR_RESERVED and n not in ("forall", "exists"):
                continue
            if self.hr and hr_name_class(n) is not None:
                # the HR printer quotes exactly the names that are not SMT-LIB simple symbols, the HR lexer reads
                # [A-Za-z_][A-Za-z0-9_]* and knows no escape inside '...': names in between (a.b, ?v, k!1, .def_0), names
                # spelling a keyword rule (forall, exists) and names holding ' or \ are witnesses of F30 -- about one
                # symbol in twelve of the HR universes is such a name (tagged by `hr_known_shape`, outside `hrName`)
                continue
            self.used.add(n)
            self.kinds[n] = kind
            return n
        n = base + "_%d" % len(self.used)
        self.used.add(n)
        return n


def hr_name_class(n):
    """None when the HR format can carry the name `n` (Lean: `HR.hrName`, identifier map aside), else the F30 shape tag"""
    if "'" in n or "\\" in n:
        return "identifier-with-quote"
    if n in ("Int", "Real", "Bool") or not _smt_simple(n):
        return None                                  # printed between quotes
    if n in ("forall", "exists"):
        return "identifier-spelling-a-keyword"
    if not re.match(r"^[A-Za-z_][A-Za-z0-9_]*\Z", n):
        return "identifier-printed-unquoted"
    return None


def _trim_global_caches():
    """the oracles of pySMT's GLOBAL environment (behind f.get_free_variables() ...) memoise on FNodes hashed by their
    per-environment node id: with the terms of thousands of environments the tables degenerate; they are only caches"""
    from pysmt.environment import get_env
    for v in vars(get_env()).values():
        memo = getattr(v, "memoization", None)
        if isinstance(memo, dict):
            memo.clear()


def _smt_simple(n):
    return re.match(r"^[~!@\$%\^&\*_\-+=<>\.\?\/A-Za-z][~!@\$%\^&\*_\-+=<>\.\?\/A-Za-z0-9]*$", n) is not None


def _spells_literal(n):
    if n == "":
        return False
    if n.startswith("#") and len(n) > 1 and n[1] in "bx":
        return True
    if n[0] == '"':
        return True
    try:
        Fraction(n)
        return True
    except (ValueError, ZeroDivisionError):
        return False


class NamedUniverse(gen.Universe):
    """gen.Universe with symbol names drawn from a name generator"""

    def __init__(self, env, names, theories=("bool", "int", "real", "bv", "str", "arr", "uf", "quant"),
                 widths=(1, 2, 3, 4, 8)):
        self.env = env
        self.mgr = env.formula_manager
        self.tm = env.type_manager
        m = self.mgr
        self.theories = set(theories)
        self.widths = tuple(widths)
        self.U = self.tm.Type("U", 0) if "uf" in self.theories else None
        self.syms = {}
        self.names = names
        nm = names.make

        def add(ty, bases):
            self.syms.setdefault(ty, [])
            for b in bases:
                self.syms[ty].append(m.Symbol(nm(b), ty))
        add(BOOL, ["p", "q", "r"])
        if "int" in self.theories:
            add(INT, ["x", "y", "z"])
        if "real" in self.theories:
            add(REAL, ["u", "v"])
        if "bv" in self.theories:
            for w in self.widths:
                add(BVType(w), ["b%d_%d" % (w, i) for i in range(2)])
        if "str" in self.theories:
            add(STRING, ["s", "t"])
        self.arr_types = []
        if "arr" in self.theories:
            if "int" in self.theories:
                self.arr_types.append(ArrayType(INT, INT))
            if "bv" in self.theories:
                self.arr_types.append(ArrayType(BVType(2), BOOL))
                self.arr_types.append(ArrayType(BVType(2), BVType(2)))
            for t in self.arr_types:
                add(t, ["a%d_%d" % (self.arr_types.index(t), i) for i in range(2)])
        self.funs = []
        if "uf" in self.theories:
            add(self.U, ["c", "d"])
            self.funs.append(m.Symbol(nm("fU"), FunctionType(self.U, [self.U])))
            self.funs.append(m.Symbol(nm("pU"), FunctionType(BOOL, [self.U])))
            if "int" in self.theories:
                self.funs.append(m.Symbol(nm("f"), FunctionType(INT, [INT])))
                self.funs.append(m.Symbol(nm("g"), FunctionType(BOOL, [BOOL, INT])))
                self.funs.append(m.Symbol(nm("h"), FunctionType(INT, [INT, INT])))
        self.qvars = [m.Symbol(nm("qb"), BOOL)]
        if "int" in self.theories:
            self.qvars.append(m.Symbol(nm("qi"), INT))
            self.qvars.append(m.Symbol(nm("qj"), INT))
            self.qvars.append(self.syms[INT][0])
        if "bv" in self.theories:
            self.qvars.append(m.Symbol(nm("qv"), BVType(2)))
        self.qvars.append(self.syms[BOOL][0])


# ------------------------------------------------------------------------------------------
def unfold_array_values(mgr, f):
    """the formula with every constant-array literal replaced by its chain of stores (in the printer's order)"""
    memo = {}
    stack = [(f, False)]
    while stack:
        n, done = stack.pop()
        if id(n) in memo:
            continue
        if not done:
            stack.append((n, True))
            for c in n.args():
                if id(c) not in memo:
                    stack.append((c, False))
            continue
        args = [memo[id(c)] for c in n.args()]
        if n.node_type() == op.ARRAY_VALUE:
            res = mgr.Array(n.array_value_index_type(), args[0])
            assign = {}
            for k, v in zip(args[1::2], args[2::2]):
                assign[k] = v
            # the printer sorts by the string of the *original* keys
            orig = n.array_value_assigned_values_map()
            for k in sorted(orig, key=str):
                res = mgr.Store(res, memo[id(k)], memo[id(orig[k])])
        elif all(a is c for a, c in zip(args, n.args())):
            res = n
        else:
            res = mgr.create_node(node_type=n.node_type(), args=tuple(args), payload=n._content.payload)
        memo[id(n)] = res
    return memo[id(f)]


def match_unfolded(f, g):
    """g is f except that constant-array literals of f are chains of stores over the constant array in g
    (any order of the stores: the assigned indices are distinct constants)"""
    memo = {}

    def go(a, b):
        key = (id(a), id(b))
        if key in memo:
            return memo[key]
        memo[key] = True            # DAG, no cycles
        res = cmp(a, b)
        memo[key] = res
        return res

    def cmp(a, b):
        if a is b and not _has(a, op.ARRAY_VALUE):
            return True
        if a.node_type() == op.ARRAY_VALUE:
            pairs = []
            while b.node_type() == op.ARRAY_STORE:
                pairs.append((b.arg(1), b.arg(2)))
                b = b.arg(0)
            if b.node_type() != op.ARRAY_VALUE or len(b.args()) != 1:
                return False
            if b.array_value_index_type() != a.array_value_index_type() or not go(a.array_value_default(), b.arg(0)):
                return False
            want = list(zip(a.args()[1::2], a.args()[2::2]))
            if len(want) != len(pairs):
                return False
            for k, v in want:
                hit = [i for i, (k2, v2) in enumerate(pairs) if go(k, k2) and go(v, v2)]
                if not hit:
                    return False
                pairs.pop(hit[0])
            return True
        if a.node_type() != b.node_type() or len(a.args()) != len(b.args()):
            return False
        if a._content.payload != b._content.payload:
            return False
        return all(go(x, y) for x, y in zip(a.args(), b.args()))
    return go(f, g)


def declarations(env, formulas, extra_syms=()):
    """text declaring the sorts and symbols of the formulas, written by pySMT's own command serialiser"""
    syms, seen = [], set()
    for f in formulas:
        for s in sorted(f.get_free_variables(), key=lambda s: s.symbol_name()):
            if s not in seen:
                seen.add(s)
                syms.append(s)
    for s in extra_syms:
        if s not in seen:
            seen.add(s)
            syms.append(s)
    types = set()
    for f in formulas:
        for t in env.typeso.get_types(f, custom_only=True):
            types.add(t)
    buf = io.StringIO()
    for t in sorted(types, key=str):
        SmtLibCommand(smtcmd.DECLARE_SORT, [t.decl]).serialize(buf, daggify=False)
        buf.write("\n")
    for s in syms:
        SmtLibCommand(smtcmd.DECLARE_FUN, [s]).serialize(buf, daggify=False)
        buf.write("\n")
    return buf.getvalue()


def print_formula(f, dag):
    buf = io.StringIO()
    p = SmtDagPrinter(buf) if dag else SmtPrinter(buf)
    p.printer(f)
    return buf.getvalue()


def parse_term(env, decls, text):
    """-> ("ok", fnode) | ("err", class, msg)"""
    parser = SmtLibParser(env)
    try:
        with warnings.catch_warnings():
            warnings.simplefilter("ignore")
            parser.get_script(io.StringIO(decls))
            tokens = Tokenizer(io.StringIO(text + "\n"), interactive=False)
            res = parser.get_expression(tokens)
            try:
                extra = tokens.consume_maybe()
            except StopIteration:
                extra = None
        if extra is not None:
            return ("err", "TrailingTokens", repr(extra))
        if res is None:
            return ("err", "NoExpression", "")
        return ("ok", res)
    except RecursionError:
        raise
    except Exception as e:
        return ("err", type(e).__name__, str(e)[:200])


def root_name(f):
    return wire.OPNAMES[f.node_type()] if f.node_type() < len(wire.OPNAMES) else "custom"


def first_difference(a, b):
    """smallest differing pair of sub-terms (same position) of two formulas, as readable strings"""
    while True:
        if a.node_type() != b.node_type() or len(a.args()) != len(b.args()):
            return a, b
        nxt = None
        for x, y in zip(a.args(), b.args()):
            if x is not y and not (x.node_type() == op.ARRAY_VALUE and match_unfolded(x, y)):
                nxt = (x, y)
                break
        if nxt is None:
            return a, b
        a, b = nxt


def classify_smt(f, g):
    """signature details of an SMT-LIB round-trip difference"""
    a, b = first_difference(f, g)
    shape = "%s->%s" % (root_name(a), root_name(b))
    if _has_int_const_div(a):
        shape = "int-div-of-constants"
    return shape, a, b


# ------------------------------------------------------------------------------------------
def run_smt_roundtrip(ctx, n):
    quick = ctx.tier == "quick"
    env = None
    for i in range(n):
        if ctx.time_left() < (70 if quick else 300):
            break
        if i % 25 == 0:
            _trim_global_caches()
            env = Environment()
            names = Names(ctx.rng, def_run=ctx.rng.random() < 0.5)
            if names.run:
                ctx.count("universes_with_consecutive_def_names")
            uni = NamedUniverse(env, names)
            fg = gen.FormulaGen(ctx.rng, uni, max_depth=4, quant_prob=0.1)
        mgr = env.formula_manager
        ty = fg.any_type(0.5)
        f = fg.gen(ty, ctx.rng.choice([1, 2, 3, 4]))
        if any(x.node_type() in (op.POW, op.ALGEBRAIC_CONSTANT) for x in _nodes(f)):
            continue
        has_av = _has(f, op.ARRAY_VALUE)
        decls = declarations(env, [f], extra_syms=[v for v in uni.qvars])
        if _consecutive_def_names(f):
            ctx.count("formulas_with_consecutive_def_names")
        for dag in (False, True):
            pname = "dag" if dag else "tree"
            try:
                text = print_formula(f, dag)
            except Exception as e:
                ctx.report_s({"oracle": "roundtrip", "printer": pname, "kind": "print-error", "error": type(e).__name__,
                              "root": root_name(f)}, "printing raised %r" % (e,),
                             {"formula": semantic.readable(f), "wire": _enc(f)})
                continue
            res = parse_term(env, decls, text)
            ctx.case(None if not f.args() else (pname, text))
            ctx.count("smt_roundtrip_" + pname)
            try:
                if any(("|" in nm or "\\" in nm) for nm in _all_names(f)):
                    # pySMT's own \| and \\ escapes: no such symbol exists in SMT-LIB, the standard lexer of the models
                    # cannot read the text
                    ctx.count("k_rt_nonstandard_escape")
                    raise wire.OutOfFragment("escape")
                K_RT.append((pname, wire.enc_term(f),
                             ("ok " + wire.enc_term(res[1])) if res[0] == "ok" else "err", semantic.readable(f), text))
            except wire.OutOfFragment:
                ctx.count("out_of_fragment")
            rep = {"printer": pname, "decls": decls, "text": text, "formula": semantic.readable(f), "wire": _enc(f)}
            if res[0] == "err":
                sg = {"oracle": "roundtrip", "printer": pname, "kind": "parse-error", "error": res[1],
                      "names": _name_kinds(f, names)}
                if _has_int_const_div(f):
                    sg["shape"] = "int-div-of-constants"
                ctx.report_s(sg,
                             "parse(print(f)) raised %s: %s" % (res[1], res[2]), rep)
                continue
            g = res[1]
            if (g is not f) if not has_av else (not match_unfolded(f, g)):
                shape, a, b = classify_smt(f, g)
                if _has_int_const_div(f):
                    shape = "int-div-of-constants"
                ctx.report_s({"oracle": "roundtrip", "printer": pname, "kind": "different-object", "shape": shape},
                             "parse(print(f)) is not f: sub-term %s came back as %s" % (semantic.readable(a, 120),
                                                                                     semantic.readable(b, 120)),
                             dict(rep, returned=semantic.readable(g)))
            else:
                ctx.sample({"printer": pname, "text": text[:200]})


def _consecutive_def_names(f):
    """does f mention two free symbols named .def_k and .def_k+1 (two successive let names of the DAG printer)?"""
    ks = set()
    for s in f.get_free_variables():
        mt = re.match(r"^\.def_(\d+)$", s.symbol_name())
        if mt:
            ks.add(int(mt.group(1)))
    return any(k + 1 in ks for k in ks)


def _has_int_const_div(f):
    return any(n.node_type() == op.DIV and n.arg(0).is_int_constant() and n.arg(1).is_int_constant() for n in _nodes(f))


def _name_kinds(f, names):
    ks = sorted(set(names.kinds.get(s.symbol_name(), "simple") for s in f.get_free_variables()))
    return "+".join(ks)


def _nodes(f):
    seen, stack = set(), [f]
    while stack:
        n = stack.pop()
        if id(n) in seen:
            continue
        seen.add(id(n))
        yield n
        stack.extend(n.args())


def _all_names(f):
    for x in _nodes(f):
        if x.is_symbol():
            yield x.symbol_name()
        elif x.is_function_application():
            yield x.function_name().symbol_name()
        elif x.is_quantifier():
            for v in x.quantifier_vars():
                yield v.symbol_name()


def _enc(f):
    try:
        return wire.enc_term(f)
    except wire.OutOfFragment as e:
        return "out-of-fragment: %s" % e


# ------------------------------------------------------------------------------------------
# scripts
SCRIPT_PROFILES = {
    # theories of the formulas, logics under which every numeral of the script keeps its sort when read back
    "mixed": (("bool", "int", "real", "bv", "str", "arr", "uf", "quant"), ["QF_AUFBVLIRA", "AUFNIRA", None, None]),
    "real": (("bool", "real", "uf", "quant"), ["QF_LRA", "LRA", "QF_UFLRA", "QF_RDL", None]),
    "bv": (("bool", "bv", "arr", "uf", "quant"), ["QF_BV", "BV", "UFBV", "QF_AUFBV", "QF_ABV", None]),
    "int": (("bool", "int", "arr", "uf", "quant"), ["QF_LIA", "LIA", "QF_AUFLIA", "QF_UFLIA", "QF_IDL", None]),
}


def gen_commands(rng, env, uni, fg, profile, logic="?"):
    """a list of SmtLibCommand made of every serialisable command (logic: name | None; "?" = drawn from the profile)"""
    mgr = env.formula_manager
    cmds = []
    r = rng
    if logic == "?":
        logic = r.choice(SCRIPT_PROFILES[profile][1])
    has_int = "int" in uni.theories
    has_real = "real" in uni.theories
    if logic:
        try:
            cmds.append(SmtLibCommand(smtcmd.SET_LOGIC, [get_logic_by_name(logic)]))
        except PysmtException:      # a logic the tree under test does not know
            pass
    if r.random() < 0.5:
        cmds.append(SmtLibCommand(smtcmd.SET_OPTION, [":produce-models", "true"]))
    if r.random() < 0.5:
        cmds.append(SmtLibCommand(smtcmd.SET_INFO, [":status", r.choice(["sat", "unsat"])]))
    if r.random() < 0.3:
        cmds.append(SmtLibCommand(smtcmd.SET_INFO, [":source", r.choice(["a b c", "text with (parens)", "x"])]))
    if r.random() < 0.2:
        cmds.append(SmtLibCommand(smtcmd.SET_OPTION, [":opt.priority", r.choice(["lex", "box", "pareto"])]))
    body = []
    used = []
    B = lambda d=3: fg.gen(BOOL, d)
    num_types = [t for t, ok in ((INT, has_int), (REAL, has_real), (BVType(4), "bv" in uni.theories)) if ok]
    num_t = lambda: r.choice(num_types)
    omt = r.random() < 0.6
    kinds = ["assert", "assert", "assert", "define-fun", "push", "pop", "check-sat", "get-value",
             "reset-assertions", "get-model", "get-unsat-core", "get-assignment", "define-fun"]
    if omt:
        kinds += ["assert-soft", "maximize", "minimize", "minmax", "maxmin", "check-allsat", "get-objectives",
                  "load-objective-model"]
    for _ in range(r.randint(3, 10)):
        k = r.choice(kinds)
        if k == "assert":
            f = B(r.choice([2, 3, 4]))
            body.append(SmtLibCommand(smtcmd.ASSERT, [f]))
            used.append(f)
        elif k == "define-fun":
            rt = fg.any_type(0.4)
            if rt.is_array_type():
                rt = BOOL
            expr = fg.gen(rt, 3)
            fvs = [s for s in sorted(expr.get_free_variables(), key=lambda s: s.symbol_name())
                   if not s.symbol_type().is_function_type() and not s.symbol_type().is_array_type()]
            formals = r.sample(fvs, min(len(fvs), r.choice([0, 1, 2])))
            name = uni.names.make("df")
            body.append(SmtLibCommand(smtcmd.DEFINE_FUN, [name, formals, rt, expr]))
            used.append(expr)
        elif k == "push":
            body.append(SmtLibCommand(smtcmd.PUSH, [r.choice([1, 1, 2])]))
        elif k == "pop":
            body.append(SmtLibCommand(smtcmd.POP, [r.choice([1, 1, 2])]))
        elif k == "check-sat":
            body.append(SmtLibCommand(smtcmd.CHECK_SAT, []))
        elif k == "get-value":
            ts = [fg.gen(fg.any_type(0.3), 2) for _ in range(r.choice([1, 2, 3]))]
            ts = [t for t in ts if not _has(t, op.POW)]
            if ts:
                body.append(SmtLibCommand(smtcmd.GET_VALUE, ts))
                used += ts
        elif k == "assert-soft":
            f = B(2)
            ws = []
            if has_int or logic is None:
                ws += [mgr.Int(1), mgr.Int(3), mgr.Int(-2)]
            if has_real or not has_int:
                ws += [mgr.Real(Fraction(1, 2)), mgr.Real(2), mgr.Real(-1)]
            w = r.choice(ws)
            gid = r.choice(["goal", "g1", "I"])
            body.append(SmtLibCommand(smtcmd.ASSERT_SOFT, [f, [(":weight", w), (":id", gid)]]))
            used.append(f)
        elif k in ("maximize", "minimize"):
            t = fg.gen(num_t(), 2)
            opts = []
            if r.random() < 0.5:
                opts.append((":id", "obj%d" % len(body)))
            if r.random() < 0.4:
                opts.append((":signed", True))
            else:
                opts.append((":signed", False))
            body.append(SmtLibCommand(k, [t, opts]))
            used.append(t)
        elif k in ("minmax", "maxmin"):
            ty = num_t()
            ts = [fg.gen(ty, 2) for _ in range(r.choice([1, 2, 3]))]
            opts = []
            if r.random() < 0.5:
                opts.append((":id", "mm%d" % len(body)))
            opts.append((":signed", r.random() < 0.3))
            body.append(SmtLibCommand(k, [ts, opts]))
            used += ts
        elif k == "check-allsat":
            ps = [s for s in uni.syms[BOOL]]
            ts = r.sample(ps, r.choice([0, 1, 2]))
            body.append(SmtLibCommand(smtcmd.CHECK_ALLSAT, ts))
            used += ts
        elif k == "get-objectives":
            body.append(SmtLibCommand(smtcmd.GET_OBJECTIVES, []))
        elif k == "load-objective-model":
            body.append(SmtLibCommand(smtcmd.LOAD_OBJECTIVE_MODEL, [r.choice([0, 1, 2])]))
        elif k == "reset-assertions":
            body.append(SmtLibCommand(smtcmd.RESET_ASSERTIONS, []))
        elif k == "get-model":
            body.append(SmtLibCommand(smtcmd.GET_MODEL, []))
        elif k == "get-unsat-core":
            body.append(SmtLibCommand(smtcmd.GET_UNSAT_CORE, []))
        elif k == "get-assignment":
            body.append(SmtLibCommand(smtcmd.GET_ASSIGNMENT, []))
    # declarations of everything used (sorts first), some as declare-const
    syms, seen = [], set()
    types = set()
    for f in used:
        for s in sorted(f.get_free_variables(), key=lambda s: s.symbol_name()):
            if s not in seen:
                seen.add(s)
                syms.append(s)
        for t in env.typeso.get_types(f, custom_only=True):
            types.add(t)
    for s in uni.qvars:
        if s not in seen:
            seen.add(s)
            syms.append(s)
    for t in sorted(types, key=str):
        cmds.append(SmtLibCommand(smtcmd.DECLARE_SORT, [t.decl]))
    for s in syms:
        if not s.symbol_type().is_function_type() and r.random() < 0.3:
            cmds.append(SmtLibCommand(smtcmd.DECLARE_CONST, [s]))
        else:
            cmds.append(SmtLibCommand(smtcmd.DECLARE_FUN, [s]))
    cmds += body
    if r.random() < 0.5:
        cmds.append(SmtLibCommand(smtcmd.EXIT, []))
    return cmds


def _has(f, nt):
    return any(x.node_type() == nt for x in _nodes(f))


def serialize_script(cmds, daggify, annotations=None):
    sc = SmtLibScript()
    for c in cmds:
        sc.add_command(c)
    sc.annotations = annotations
    buf = io.StringIO()
    sc.serialize(buf, daggify=daggify)
    return buf.getvalue()


def parse_script(env, text):
    parser = SmtLibParser(env)
    try:
        with warnings.catch_warnings():
            warnings.simplefilter("ignore")
            sc = parser.get_script(io.StringIO(text))
        return ("ok", sc)
    except RecursionError:
        raise
    except Exception as e:
        return ("err", type(e).__name__, str(e)[:200])


def same_arg(env, a, b):
    """equivalence of two command arguments of the same environment"""
    from pysmt.fnode import FNode
    if isinstance(a, FNode) and isinstance(b, FNode):
        return a is b or (_has(a, op.ARRAY_VALUE) and match_unfolded(a, b))
    if isinstance(a, (list, tuple)) and isinstance(b, (list, tuple)):
        return len(a) == len(b) and all(same_arg(env, x, y) for x, y in zip(a, b))
    return a == b


def compare_commands(env, c1, c2):
    """None when equivalent, else a description"""
    mgr = env.formula_manager
    if c1.name != c2.name:
        return "command %s became %s" % (c1.name, c2.name)
    if c1.name == smtcmd.DEFINE_FUN:
        n1, f1, t1, b1 = c1.args
        n2, f2, t2, b2 = c2.args
        if n1 != n2 or t1 != t2 or len(f1) != len(f2):
            return "define-fun %s: header differs (%s %s %s / %s %s %s)" % (n1, n1, f1, t1, n2, f2, t2)
        if any(x.symbol_type() != y.symbol_type() for x, y in zip(f1, f2)):
            return "define-fun %s: sorts of the parameters differ" % n1
        b2r = env.substituter.substitute(b2, dict(zip(f2, f1))) if f1 else b2
        if b2r is not b1 and not (_has(b1, op.ARRAY_VALUE) and match_unfolded(b1, b2r)):
            return "define-fun %s: body %s became %s" % (n1, semantic.readable(b1, 150), semantic.readable(b2r, 150))
        return None
    if c1.name == smtcmd.DECLARE_SORT:
        a, b = c1.args[0], c2.args[0]
        if (a.name, a.arity) != (b.name, b.arity):
            return "declare-sort %s %s became %s %s" % (a.name, a.arity, b.name, b.arity)
        return None
    if len(c1.args) != len(c2.args):
        return "%s: %d arguments became %d" % (c1.name, len(c1.args), len(c2.args))
    for x, y in zip(c1.args, c2.args):
        if not same_arg(env, x, y):
            return "%s: argument %s became %s" % (c1.name, _show(x), _show(y))
    return None


def _show(x):
    from pysmt.fnode import FNode
    if isinstance(x, FNode):
        return semantic.readable(x, 150)
    if isinstance(x, (list, tuple)):
        return "[" + ", ".join(_show(y) for y in x) + "]"
    return repr(x)


def run_script_roundtrip(ctx, n):
    quick = ctx.tier == "quick"
    for i in range(n):
        if ctx.time_left() < (60 if quick else 250):
            break
        if i % 20 == 0:
            _trim_global_caches()
        env = Environment()
        names = Names(ctx.rng, esc=False, def_run=ctx.rng.random() < 0.4)
        profile = ctx.rng.choice(["mixed", "mixed", "real", "bv", "int"])
        uni = NamedUniverse(env, names, theories=SCRIPT_PROFILES[profile][0], widths=(1, 2, 4, 8))
        fg = gen.FormulaGen(ctx.rng, uni, max_depth=3, quant_prob=0.08)
        cmds = gen_commands(ctx.rng, env, uni, fg, profile)
        ctx.count("script_profile_" + profile)
        daggify = ctx.rng.random() < 0.5
        rep = {"daggify": daggify}
        try:
            text0 = serialize_script(cmds, daggify)
        except Exception as e:
            ctx.report_s({"oracle": "script-roundtrip", "kind": "serialize-error", "error": type(e).__name__, "stage": "constructed"},
                         "serialising a constructed script raised %r" % (e,), dict(rep, commands=[c.name for c in cmds]))
            continue
        rep["text0"] = text0
        K_SCRIPTS.append(text0)
        ctx.case(text0)
        ctx.count("scripts")
        r1 = parse_script(env, text0)
        if r1[0] == "err":
            sg = {"oracle": "script-roundtrip", "kind": "parse-error", "error": r1[1], "stage": "constructed",
                  "names": "+".join(sorted(set(names.kinds.values())))}
            if _cmds_have_int_const_div(cmds):
                sg["shape"] = "int-div-of-constants"
            elif any(n.startswith(":") for n in names.used) and any(c.name in (smtcmd.MINMAX, smtcmd.MAXMIN, smtcmd.MAXIMIZE,
                                                                               smtcmd.MINIMIZE, smtcmd.ASSERT_SOFT)
                                                                    for c in cmds):
                sg["shape"] = "symbol-spelling-a-keyword"
            ctx.report_s(sg,
                         "the serialisation of a constructed script is not parsed: %s %s" % (r1[1], r1[2]), rep)
            continue
        s1 = r1[1]
        # s1 is a *parsed* script: the property's statement
        try:
            text1 = serialize_script(s1.commands, daggify, annotations=s1.annotations)
        except Exception as e:
            ctx.report_s({"oracle": "script-roundtrip", "kind": "serialize-error", "error": type(e).__name__, "stage": "parsed"},
                         "re-serialising a parsed script raised %r" % (e,), rep)
            continue
        rep["text1"] = text1
        r2 = parse_script(env, text1)
        if r2[0] == "err":
            ctx.report_s({"oracle": "script-roundtrip", "kind": "parse-error", "error": r2[1], "stage": "parsed"},
                         "the re-serialisation of a parsed script is not parsed: %s %s" % (r2[1], r2[2]), rep)
            continue
        s2 = r2[1]
        # constructed vs parsed (stronger than the property: also checks the first hop), then parsed vs re-parsed
        for stage, a, b in (("constructed", cmds, s1.commands), ("parsed", s1.commands, s2.commands)):
            if len(a) != len(b):
                ctx.report_s({"oracle": "script-roundtrip", "kind": "command-count", "stage": stage},
                             "%d commands became %d" % (len(a), len(b)), rep)
                break
            bad = None
            for x, y in zip(a, b):
                d = compare_commands(env, x, y)
                if d:
                    bad = (x.name, d)
                    break
            if bad:
                ctx.report_s({"oracle": "script-roundtrip", "kind": "command-differs", "stage": stage, "command": bad[0],
                              "shape": _script_shape(bad[1])}, bad[1], rep)
                break
        for c in cmds:
            ctx.count("cmd_" + c.name)


# ------------------------------------------------------------------------------------------
# one parser object used for several scripts: every script round trip must give what a fresh parser gives
REUSE_WITNESSES = [
    # (name, scripts read one after the other by ONE SmtLibParser)
    ("int-after-QF_LRA", ["(set-logic QF_LRA)(declare-fun r () Real)(assert (< r (/ 1 2)))(check-sat)",
                          "(declare-fun i () Int)(declare-fun j () Int)(assert (< (+ i 1) (* 2 j)))(assert (= (+ 1 2) 3))"]),
    ("int-after-QF_BV", ["(set-logic QF_BV)(declare-fun b () (_ BitVec 8))(assert (bvult b #b00001111))",
                         "(declare-fun p () Bool)(assert (=> p (= (+ 1 2) 3)))(check-sat)"]),
    ("int-after-QF_UF-unknown-logic", ["(set-logic QF_UF)(declare-fun p () Bool)(assert p)",
                                       "(set-logic ALL)(declare-fun i () Int)(assert (> (* 3 i) 7))(get-value ((+ i 1)))"]),
    ("real-after-QF_LIA", ["(set-logic QF_LIA)(declare-fun i () Int)(assert (> i 7))",
                           "(declare-fun r () Real)(assert (< r 2.5))(assert (= (+ 1 2) 3))",
                           "(set-logic QF_LRA)(declare-fun s () Real)(assert (< s 3))"]),
    ("soft-weight-after-QF_RDL", ["(set-logic QF_RDL)(declare-fun r () Real)(declare-fun s () Real)(assert (< (- r s) 3))",
                                  "(declare-fun q () Bool)(assert-soft q :weight 2)(assert-soft q)(minimize (+ 1 2))"]),
    ("definitions-do-not-survive", ["(declare-fun i () Int)(define-fun d () Int (+ i 1))(define-sort S () Int)(assert (> d 0))",
                                    "(declare-fun i () Int)(assert (> i 0))(push 1)(pop 1)"]),
]


def _read_outcome(parser, text):
    try:
        with warnings.catch_warnings():
            warnings.simplefilter("ignore")
            return ("ok", parser.get_script(io.StringIO(text)))
    except RecursionError:
        raise
    except Exception as e:
        return ("err", type(e).__name__, str(e)[:200])


def _reuse_compare(ctx, env, shared, text, rep, stage, history):
    """read `text` with the shared parser and with a fresh one; -> the script read by the shared parser, or None"""
    got = _read_outcome(shared, text)
    ref = _read_outcome(SmtLibParser(env), text)
    sig = {"oracle": "script-roundtrip", "kind": "parser-reuse", "stage": stage}
    if got[0] != ref[0]:
        ctx.report_s(dict(sig, detail="%s-vs-%s" % (got[0], ref[0])),
                     "a parser object that has read %d script(s) before %s the text (%s) that a fresh parser %s"
                     % (history, "rejects" if got[0] == "err" else "accepts", got[1:] if got[0] == "err" else "",
                        "accepts" if ref[0] == "ok" else "rejects: %s" % (ref[1:],)), dict(rep, text=text))
        return None
    if got[0] == "err":
        ctx.count("reuse_both_reject")
        return None
    a, b = got[1].commands, ref[1].commands
    if len(a) != len(b):
        ctx.report_s(dict(sig, detail="command-count"), "re-used parser: %d commands, fresh parser: %d" % (len(a), len(b)),
                     dict(rep, text=text))
        return None
    for x, y in zip(b, a):
        d = compare_commands(env, x, y)
        if d:
            ctx.report_s(dict(sig, detail="command-differs", command=x.name),
                         "a parser object that has read %d script(s) before reads the same text differently from a fresh parser "
                         "(fresh -> re-used): %s" % (history, d), dict(rep, text=text))
            return None
    ctx.count("reuse_agree")
    return got[1]


def run_parser_reuse(ctx, n):
    """sequences of 2-3 script round trips through ONE SmtLibParser (different logics, with / without set-logic, Int vs Real
    numerals); every reading is compared with the reading of a fresh parser in the same environment"""
    quick = ctx.tier == "quick"
    for name, texts in REUSE_WITNESSES:
        env = Environment()
        shared = SmtLibParser(env)
        ctx.case(("reuse-witness", name))
        for k, t in enumerate(texts):
            sc = _reuse_compare(ctx, env, shared, t, {"witness": name, "history": texts[:k]}, "text", k)
            if sc is not None:
                t1 = serialize_script(sc.commands, k % 2 == 0, annotations=sc.annotations)
                _reuse_compare(ctx, env, shared, t1, {"witness": name, "history": texts[:k + 1]}, "re-serialised", k + 1)
    for i in range(n):
        if ctx.time_left() < (50 if quick else 200):
            break
        env = Environment()
        names = Names(ctx.rng, esc=False)
        shared = SmtLibParser(env)
        r = ctx.rng
        # a script under a logic WITHOUT integers first, then scripts with integer numerals and no (or an unknown) logic
        plan = r.choice([[("real", "QF_LRA"), ("int", None)], [("bv", "QF_BV"), ("int", None)], [("real", "QF_RDL"), ("mixed", None)],
                         [("int", "QF_LIA"), ("real", None), ("int", None)], [("bv", "QF_ABV"), ("mixed", None), ("real", "?")],
                         [("real", "LRA"), ("int", "?"), ("mixed", "?")], [("int", None), ("real", "QF_LRA"), ("int", None)],
                         [(r.choice(["mixed", "real", "bv", "int"]), "?") for _ in range(r.choice([2, 3]))]])
        history, texts = 0, []
        ctx.count("reuse_sequences")
        for profile, logic in plan:
            try:
                uni = NamedUniverse(env, names, theories=SCRIPT_PROFILES[profile][0], widths=(1, 2, 4, 8))
            except PysmtException:
                # (a name of the pool such as __x0 was taken, with another sort, by a fresh parameter symbol that the parser
                #  made in this environment while reading the previous script)
                ctx.count("reuse_sequence_cut_name_taken")
                break
            fg = gen.FormulaGen(r, uni, max_depth=3, quant_prob=0.05)
            cmds = gen_commands(r, env, uni, fg, profile, logic=logic)
            daggify = r.random() < 0.5
            try:
                text0 = serialize_script(cmds, daggify)
            except Exception:
                break                                   # (reported by the script round trip stream)
            ctx.case(("reuse", text0))
            rep = {"daggify": daggify, "history": list(texts)}
            sc = _reuse_compare(ctx, env, shared, text0, rep, "constructed", history)
            texts.append(text0)
            history += 1
            if sc is None:
                continue
            try:
                text1 = serialize_script(sc.commands, daggify, annotations=sc.annotations)
            except Exception:
                continue
            _reuse_compare(ctx, env, shared, text1, dict(rep, history=list(texts)), "parsed", history)
            texts.append(text1)
            history += 1


SERIALISABLE = {smtcmd.SET_OPTION, smtcmd.SET_INFO, smtcmd.ASSERT, smtcmd.ASSERT_SOFT, smtcmd.GET_VALUE, smtcmd.MAXIMIZE,
                smtcmd.MINIMIZE, smtcmd.MINMAX, smtcmd.MAXMIN, smtcmd.CHECK_ALLSAT, smtcmd.CHECK_SAT, smtcmd.EXIT,
                smtcmd.RESET_ASSERTIONS, smtcmd.GET_UNSAT_CORE, smtcmd.GET_ASSIGNMENT, smtcmd.GET_MODEL,
                smtcmd.GET_OBJECTIVES, smtcmd.SET_LOGIC, smtcmd.DECLARE_FUN, smtcmd.DECLARE_CONST, smtcmd.DEFINE_FUN,
                smtcmd.PUSH, smtcmd.POP, smtcmd.LOAD_OBJECTIVE_MODEL, smtcmd.DEFINE_SORT, smtcmd.DECLARE_SORT}


def run_text_script_roundtrip(ctx, n):
    """parsed scripts obtained from independently written text (the generator of C08: quoted names, annotations,
    definitions with parameters, let, define-sort, push/pop): re-serialise, re-parse, compare"""
    from props import c08 as c08mod
    quick = ctx.tier == "quick"
    for i in range(n):
        if ctx.time_left() < (55 if quick else 220):
            break
        try:
            g = c08mod.gen_script(ctx.rng)
        except RuntimeError:
            continue
        text0 = c08mod.render_script(ctx.rng, [c[0] for c in g.cmds], fancy=False)
        env = Environment()
        r1 = parse_script(env, text0)
        if r1[0] == "err":
            ctx.count("text_scripts_rejected")
            continue
        s1 = r1[1]
        if any(c.name not in SERIALISABLE for c in s1.commands):
            ctx.count("text_scripts_not_serialisable")
            continue
        ctx.case(("text-script", text0))
        ctx.count("text_scripts")
        daggify = ctx.rng.random() < 0.5
        rep = {"daggify": daggify, "text0": text0}
        shape = "int-div-of-constants" if _cmds_have_int_const_div(s1.commands) else "other"
        try:
            text1 = serialize_script(s1.commands, daggify, annotations=s1.annotations)
        except Exception as e:
            ctx.report_s({"oracle": "script-roundtrip", "kind": "serialize-error", "error": type(e).__name__, "stage": "parsed-text"},
                         "re-serialising a parsed script raised %r" % (e,), rep)
            continue
        rep["text1"] = text1
        r2 = parse_script(env, text1)
        if r2[0] == "err":
            ctx.report_s({"oracle": "script-roundtrip", "kind": "parse-error", "error": r2[1], "stage": "parsed-text", "shape": shape},
                         "the re-serialisation of a parsed script is not parsed: %s %s" % (r2[1], r2[2]), rep)
            continue
        a, b = s1.commands, r2[1].commands
        if len(a) != len(b):
            ctx.report_s({"oracle": "script-roundtrip", "kind": "command-count", "stage": "parsed-text"},
                         "%d commands became %d" % (len(a), len(b)), rep)
            continue
        for x, y in zip(a, b):
            d = compare_commands(env, x, y)
            if d:
                shp = _script_shape(d)
                if _default_weight_reread(env, x, y):
                    shp = "default-weight-under-logic-without-ints"      # P07
                ctx.report_s({"oracle": "script-roundtrip", "kind": "command-differs", "stage": "parsed-text", "command": x.name,
                              "shape": shp}, d, rep)
                break


def _default_weight_reread(env, x, y):
    """x, y: the same assert-soft command before / after a round trip; do they differ exactly in that the default weight (the
    integer 1, never written in the text x was read from) came back as the real 1.0 (the numeral of the re-serialisation read
    under a logic without integers)?"""
    if x.name != smtcmd.ASSERT_SOFT or y.name != smtcmd.ASSERT_SOFT:
        return False
    try:
        (fx, ox), (fy, oy) = x.args, y.args
        ox, oy = dict(ox), dict(oy)
        wx, wy = ox.pop(":weight"), oy.pop(":weight")
    except (ValueError, KeyError, TypeError):
        return False
    return (same_arg(env, fx, fy) and ox == oy and wx.is_int_constant() and wx.constant_value() == 1
            and wy.is_real_constant() and wy.constant_value() == 1)


def _script_shape(desc):
    if "/" in desc and re.search(r"\(\-?\d+ / \-?\d+\)", desc):
        return "int-div-of-constants"
    return "other"


def _cmds_have_int_const_div(cmds):
    from pysmt.fnode import FNode

    def terms(x):
        if isinstance(x, FNode):
            yield x
        elif isinstance(x, (list, tuple)):
            for y in x:
                for t in terms(y):
                    yield t
    return any(_has_int_const_div(t) for c in cmds for t in terms(c.args))


def _unfold_cmd(env, c):
    from pysmt.fnode import FNode
    mgr = env.formula_manager

    def u(x):
        if isinstance(x, FNode):
            return unfold_array_values(mgr, x)
        if isinstance(x, list):
            return [u(y) for y in x]
        if isinstance(x, tuple):
            return tuple(u(y) for y in x)
        return x
    return SmtLibCommand(c.name, [u(a) for a in c.args])


# ------------------------------------------------------------------------------------------
# human-readable round trip
FLAT_OPS = {op.AND, op.OR, op.PLUS, op.TIMES}


def flat_key(f):
    """structural key modulo the grouping of n-ary operators (and/or/+/* flattened)"""
    memo = {}
    stack = [(f, False)]
    while stack:
        n, done = stack.pop()
        if id(n) in memo:
            continue
        if not done:
            stack.append((n, True))
            for c in n.args():
                if id(c) not in memo:
                    stack.append((c, False))
            continue
        nt = n.node_type()
        kids = []
        for c in n.args():
            k = memo[id(c)]
            if nt in FLAT_OPS and c.node_type() == nt:
                kids.extend(k[2])
            else:
                kids.append(k)
        pl = n._content.payload
        if nt == op.SYMBOL:
            pl = (pl[0], str(pl[1]))
        elif nt == op.FUNCTION:
            pl = pl.symbol_name()
        elif nt in (op.FORALL, op.EXISTS):
            pl = tuple((v.symbol_name(), str(v.symbol_type())) for v in pl)
        elif nt == op.ARRAY_VALUE:
            pl = str(pl)
        memo[id(n)] = (nt, repr(pl), tuple(kids))
    return memo[id(f)]


def hr_tokens(text):
    toks, i, n = [], 0, len(text)
    cur = []

    def flush():
        if cur:
            toks.append("".join(cur))
            del cur[:]
    while i < n:
        c = text[i]
        if c in "'\"":
            flush()
            j = text.find(c, i + 1)
            while c == '"' and j != -1 and j + 1 < n and text[j + 1] == '"':      # doubled quote inside a string
                j = text.find(c, j + 2)
            if j == -1:
                j = n - 1
            toks.append(text[i:j + 1])
            i = j + 1
            continue
        if c in "()":
            flush()
            toks.append(c)
        elif c.isspace():
            flush()
        else:
            cur.append(c)
        i += 1
    flush()
    return toks


HR_NARY = ("&", "|", "+", "*")


def hr_flat(text):
    """the HR text as a tree of parenthesis groups in which a group made of one n-ary operator absorbs
    sub-groups of the same operator"""
    toks = hr_tokens(text)
    pos = [0]

    def parse():
        items = []
        while pos[0] < len(toks):
            t = toks[pos[0]]
            pos[0] += 1
            if t == "(":
                items.append(parse())
            elif t == ")":
                break
            else:
                items.append(t)
        return items

    def sole_op(items):
        # the printer parenthesises every infix application: a group holds one kind of infix operator
        ops = set(x for x in items if isinstance(x, str) and x in HR_NARY)
        return next(iter(ops)) if len(ops) == 1 else None

    def operands(items, o):
        out, cur = [], []
        for x in items:
            if isinstance(x, str) and x == o:
                out.append(cur)
                cur = []
            else:
                cur.append(x)
        out.append(cur)
        return out

    def flat(items):
        items = [flat(x) if isinstance(x, list) else x for x in items]
        o = sole_op(items)
        if o is None:
            return items
        out = []
        for opd in operands(items, o):
            if len(opd) == 1 and isinstance(opd[0], list) and sole_op(opd[0]) == o:
                sub = opd[0]            # already flat
                if out:
                    out.append(o)
                out.extend(sub)
            else:
                if out:
                    out.append(o)
                out.extend(opd)
        return out
    return flat(parse())


def hr_fragment_reason(f):
    """None when f is in the fragment the HR parser is expected to read back, else the reason (counted, not reported)"""
    for n in _nodes(f):
        nt = n.node_type()
        if nt in (op.POW, op.ALGEBRAIC_CONSTANT):
            return "pow"
    return None


def hr_known_shape(f, names):
    """shape tags of constructs for which the HR format is ambiguous or unreadable (known F30 and relatives)"""
    tags = set()
    for n in _nodes(f):
        nt = n.node_type()
        if nt == op.STR_CONSTANT and '"' in n.constant_value():
            tags.add("string-with-quote")
        nms = []
        if nt == op.SYMBOL:
            nms.append(n.symbol_name())
        elif nt == op.FUNCTION:
            nms.append(n.function_name().symbol_name())
        elif nt in (op.FORALL, op.EXISTS):
            nms += [v.symbol_name() for v in n.quantifier_vars()]
        for nm in nms:
            c = hr_name_class(nm)
            if c:
                tags.add(c)
    return tags


# ------------------------------------------------------------------------------------------
# the public shortcuts that take NO environment argument (DESIGN 11.7): `pysmt.parsing.parse`, `shortcuts.to_smtlib`,
# `shortcuts.write_smtlib` / `shortcuts.read_smtlib` work on the CURRENT environment.  They are called under several
# different current environments in ONE process (same names, partly other sorts, partly other symbols) and must give
# what the routes with an explicit environment give: the identical object of the current environment.
GLUE_SPEC_NAMES = ["x", "y", "z", "p", "q", "r", "k", "w", "v0", "foo", "b1", "b2"]
GLUE_FIRST = {}            # route -> (spec, hr text) of the first call of the route in this process
GLUE_ROUTES = ("parsing.parse", "shortcuts.to_smtlib", "shortcuts.write_smtlib+read_smtlib")


def _glue_type(code):
    return {"B": BOOL, "I": INT, "R": REAL, "V": BVType(8)}[code]


def _glue_env(spec):
    env = Environment()
    m = env.formula_manager
    by = {"B": [], "I": [], "R": [], "V": []}
    for name, code in spec:
        by[code].append(m.Symbol(name, _glue_type(code)))
    return env, by


def _glue_spec(rng, base=None):
    """a universe [(name, sort code)]; with `base`: the same names, one to three of them with another sort, one dropped,
    one new"""
    if base is None:
        names = rng.sample(GLUE_SPEC_NAMES, rng.randint(6, 9))
        spec = [(n, rng.choice("BBIIRRV")) for n in names]
        if not any(c == "B" for _, c in spec):
            spec[0] = (spec[0][0], "B")
        return spec
    spec = list(base)
    for _ in range(rng.randint(0, 3)):
        i = rng.randrange(len(spec))
        if spec[i][1] != "B" or sum(1 for _, c in spec if c == "B") > 1:
            spec[i] = (spec[i][0], rng.choice([c for c in "BIRV" if c != spec[i][1]]))
    if rng.random() < 0.5 and len(spec) > 4:
        i = rng.randrange(len(spec))
        if spec[i][1] != "B" or sum(1 for _, c in spec if c == "B") > 1:
            del spec[i]
    if rng.random() < 0.6:
        free = [n for n in GLUE_SPEC_NAMES if n not in [x for x, _ in spec]]
        if free:
            spec.append((rng.choice(free), rng.choice("BIRV")))
    return spec


def _glue_formula(rng, m, by, depth):
    """a small Bool formula over the symbols `by`"""
    from fractions import Fraction

    def arith(t, d):
        k = rng.random()
        if d <= 0 or k < 0.35:
            if by[t] and rng.random() < 0.8:
                return rng.choice(by[t])
            return m.Int(rng.randint(0, 5)) if t == "I" else m.Real(Fraction(rng.randint(0, 7), rng.choice([1, 2, 4])))
        if k < 0.6:
            return m.Plus(arith(t, d - 1), arith(t, d - 1))
        if k < 0.8:
            return m.Minus(arith(t, d - 1), arith(t, d - 1))
        if k < 0.9:
            c = m.Int(rng.randint(2, 4)) if t == "I" else m.Real(rng.randint(2, 4))
            return m.Times(c, arith(t, d - 1))
        return m.Ite(boolean(d - 1), arith(t, d - 1), arith(t, d - 1))

    def bv(d):
        k = rng.random()
        if d <= 0 or k < 0.4:
            if by["V"] and rng.random() < 0.8:
                return rng.choice(by["V"])
            return m.BV(rng.randrange(256), 8)
        if k < 0.6:
            return m.BVAdd(bv(d - 1), bv(d - 1))
        if k < 0.8:
            return m.BVAnd(bv(d - 1), bv(d - 1))
        return m.BVNot(bv(d - 1))

    def boolean(d):
        k = rng.random()
        if d <= 0 or k < 0.2:
            if by["B"] and rng.random() < 0.9:
                return rng.choice(by["B"])
            return m.Bool(rng.random() < 0.5)
        if k < 0.32:
            return m.Not(boolean(d - 1))
        if k < 0.44:
            return m.And(boolean(d - 1), boolean(d - 1))
        if k < 0.56:
            return m.Or(boolean(d - 1), boolean(d - 1))
        if k < 0.62:
            return m.Implies(boolean(d - 1), boolean(d - 1))
        if k < 0.68:
            return m.Iff(boolean(d - 1), boolean(d - 1))
        if k < 0.9:
            t = rng.choice("IR")
            a, b = arith(t, d - 1), arith(t, d - 1)
            return rng.choice([m.LT, m.LE, m.Equals])(a, b)
        a, b = bv(d - 1), bv(d - 1)
        return rng.choice([m.BVULT, m.BVULE, m.Equals])(a, b)
    return boolean(depth)


def _glue_call(route, env, hr_text, daggify=False):
    """calls the public shortcut `route` under the current environment `env` for the formula whose human-readable text is
    `hr_text`; -> list of problems (empty: the shortcut gives what the route with an explicit environment gives)"""
    import tempfile
    import pysmt.parsing as HRmod
    import pysmt.shortcuts as S
    from pysmt.smtlib.parser import get_formula_fname
    from pysmt.environment import get_env
    problems = []
    with warnings.catch_warnings():
        warnings.simplefilter("ignore")
        h = HRParser(env).parse(hr_text)                  # explicit environment: the reference object
        assert h in env.formula_manager
        path = None
        try:
            with env:
                assert get_env() is env
                if route == "parsing.parse":
                    g = HRmod.parse(hr_text)
                    if g is not h:
                        problems.append("parse(text) is not the object HRParser(current environment).parse(text) returns"
                                        + ("" if g in env.formula_manager else ": it does not belong to the current environment")
                                        + ("" if g.serialize() == h.serialize() else "; it prints as %s" % g.serialize()[:120])
                                        + ("" if sorted((v.symbol_name(), str(v.symbol_type())) for v in g.get_free_variables())
                                           == sorted((v.symbol_name(), str(v.symbol_type())) for v in h.get_free_variables())
                                           else "; free symbols %s" % sorted((v.symbol_name(), str(v.symbol_type()))
                                                                              for v in g.get_free_variables())))
                elif route == "shortcuts.to_smtlib":
                    t = S.to_smtlib(h, daggify=daggify)
                    buf = io.StringIO()
                    (SmtDagPrinter if daggify else SmtPrinter)(buf).printer(h)
                    if t != buf.getvalue():
                        problems.append("to_smtlib(f) = %s, the printer object writes %s" % (t[:120], buf.getvalue()[:120]))
                else:
                    fd, path = tempfile.mkstemp(suffix=".smt2", prefix="c09glue_")
                    os.close(fd)
                    S.write_smtlib(h, path)
                    g = S.read_smtlib(path)
                    d = get_formula_fname(path, environment=env)
                    if g is not d:
                        problems.append("read_smtlib(file) is not the object get_formula_fname(file, environment=current) returns"
                                        + ("" if g in env.formula_manager else ": it does not belong to the current environment"))
                    if g is not h:
                        problems.append("write_smtlib then read_smtlib does not return the formula that was written: %s"
                                        % g.serialize()[:150])
        except RecursionError:
            raise
        except Exception as e:
            problems.append("raised %s: %s" % (type(e).__name__, str(e)[:150]))
        finally:
            if path:
                try:
                    os.unlink(path)
                except OSError:
                    pass
    return problems


def run_glue_routes(ctx, n):
    quick = ctx.tier == "quick"
    rng = ctx.rng
    specs, envs = [], []
    for i in range(n):
        if ctx.time_left() < (50 if quick else 200):
            break
        if i % 12 == 0:
            _trim_global_caches()
            a = _glue_spec(rng)
            specs = [a, _glue_spec(rng, a), _glue_spec(rng, a)]
            envs = [_glue_env(sp) for sp in specs]
        j = rng.randrange(len(specs)) if i % 12 >= 3 else i % 12          # every environment is the current one in every round
        env, by = envs[j]
        f = _glue_formula(rng, env.formula_manager, by, rng.choice([1, 2, 2, 3]))
        text = f.serialize()
        daggify = rng.random() < 0.5
        for route in GLUE_ROUTES:
            ctx.count("glue_route_calls")
            ctx.case(None if not f.args() else ("glue", route, text))
            first = GLUE_FIRST.setdefault(route, (specs[j], text))
            problems = _glue_call(route, env, text, daggify)
            if problems:
                ctx.report_s({"oracle": "glue-route", "route": route, "kind": problems[0].split(":")[0][:60]},
                             "%s under a current environment other than the first of the process: %s [formula %s]"
                             % (route, "; ".join(problems)[:400], text[:200]),
                             {"stream": "glue-routes", "route": route, "spec": specs[j], "text": text, "daggify": daggify,
                              "first_spec": first[0], "first_text": first[1]})


# ------------------------------------------------------------------------------------------
# extreme but legal constants (round 5): integral Real constants beyond 2**53 / 2**64, rationals with huge numerators and
# denominators, Int constants beyond 2**64, negative ones -- through the human-readable round trip (HRParser with the
# environment, and the `parse` shortcut) and through both SMT-LIB printers.  The very same object must come back.
BIG_INTS = [2 ** 53 + 1, 2 ** 63, 2 ** 64 + 1, 10 ** 30 + 1, 3 ** 70, 2 ** 200 + 7, 9007199254740993]
BIG_ROUTES = ("hr", "hr-shortcut", "smt-tree", "smt-dag")


def _big_formula(m, sort, num, den, shape):
    """the formula of a recorded big-constant case (the replay rebuilds it from these five values)"""
    c = m.Int(num) if sort == "Int" else m.Real(Fraction(num, den))
    ty = INT if sort == "Int" else REAL
    x = m.Symbol("x", ty)
    if shape == 0:
        return c
    if shape == 1:
        return m.LT(x, c)
    if shape == 2:
        return m.Equals(m.Plus(x, c), c)
    return m.Ite(m.LE(c, x), x, c)


def _big_check(route, sort, num, den, shape):
    """-> problem text or None"""
    import pysmt.parsing as HRmod
    env = Environment()
    m = env.formula_manager
    f = _big_formula(m, sort, num, den, shape)
    try:
        with warnings.catch_warnings():
            warnings.simplefilter("ignore")
            if route == "hr":
                text = f.serialize()
                g = HRParser(env).parse(text)
            elif route == "hr-shortcut":
                text = f.serialize()
                with env:
                    g = HRmod.parse(text)
            else:
                text = print_formula(f, route == "smt-dag")
                res = parse_term(env, declarations(env, [f]), text)
                if res[0] == "err":
                    return "parse(print(f)) raised %s: %s [text %s]" % (res[1], res[2], text[:200])
                g = res[1]
    except RecursionError:
        raise
    except Exception as e:
        return "raised %s: %s" % (type(e).__name__, str(e)[:150])
    if g is not f:
        return "the formula read back is not the formula printed: printed as %s, read back as %s" % (text[:200], semantic.readable(g, 200))
    return None


def run_big_constants(ctx, n):
    rng = ctx.rng
    for i in range(n):
        sort = rng.choice(["Real", "Real", "Int"])
        k = rng.random()
        num = rng.choice(BIG_INTS) if k < 0.6 else rng.randint(2 ** 53, 2 ** 90)
        den = 1
        if sort == "Real" and rng.random() < 0.5:
            den = rng.choice(BIG_INTS + [3, 7, 10 ** 18 + 9])
        if rng.random() < 0.3:
            num = -num
        shape = rng.randrange(4)
        for route in BIG_ROUTES:
            ctx.count("big_constant_roundtrips")
            ctx.case(("big", route, sort, num, den, shape))
            problem = _big_check(route, sort, num, den, shape)
            if problem:
                ctx.report_s({"oracle": "big-constant", "route": route, "sort": sort,
                              "kind": "integral" if den == 1 else "rational"},
                             "round trip of a formula with a big %s constant (%s%s) through %s: %s"
                             % (sort, num, "" if den == 1 else "/%d" % den, route, problem[:500]),
                             {"stream": "big-constants", "route": route, "sort": sort, "num": str(num), "den": str(den),
                              "shape": shape})


def run_hr_roundtrip(ctx, n, lines, meta):
    quick = ctx.tier == "quick"
    ig = None
    env = None
    for i in range(n):
        if ctx.time_left() < (50 if quick else 200):
            break
        if i % 25 == 0:
            _trim_global_caches()
            env = Environment()
            names = Names(ctx.rng, hr=True, esc=False)
            uni = NamedUniverse(env, names)
            fg = gen.FormulaGen(ctx.rng, uni, max_depth=4, quant_prob=0.1)
            ig = gen.InterpGen(ctx.rng, uni)
        ty = fg.any_type(0.5)
        f = fg.gen(ty, ctx.rng.choice([1, 2, 3, 4]))
        if hr_fragment_reason(f):
            ctx.count("hr_out_of_fragment")
            continue
        text = f.serialize()
        ctx.case(None if not f.args() else ("hr", text))
        ctx.count("hr_roundtrip")
        rep = {"text": text, "wire": _enc(f)}
        tags = hr_known_shape(f, names)
        hr_model_record(env, f, text, tags)
        try:
            with warnings.catch_warnings():
                warnings.simplefilter("ignore")
                g = HRParser(env).parse(text)
        except RecursionError:
            raise
        except Exception as e:
            sig = {"oracle": "hr-roundtrip", "kind": "parse-error", "error": type(e).__name__, "root": root_name(f)}
            if tags:
                sig["shape"] = "+".join(sorted(tags))
            ctx.report_s(sig, "HRParser.parse(f.serialize()) raised %s: %s" % (type(e).__name__, str(e)[:150]), rep)
            continue
        sig = {"oracle": "hr-roundtrip"}
        if tags:
            sig["shape"] = "+".join(sorted(tags))
        t2 = g.serialize()
        if hr_flat(text) != hr_flat(t2):
            a, b = first_difference(f, g)
            ctx.report_s(dict(sig, kind="serialisation-differs", at="%s->%s" % (root_name(a), root_name(b))),
                         "the serialisation of the parsed formula differs by more than grouping: %s / %s" % (text[:200], t2[:200]),
                         dict(rep, returned=t2))
            continue
        try:
            interps = [ig.for_formula(f) for _ in range(4)]
            line = semantic.chk_equiv_line(f, g, interps)
        except wire.OutOfFragment:
            ctx.count("out_of_fragment")
            continue
        lines.append(line)
        meta.append((dict(sig, kind="meaning"), dict(rep, returned=t2)))


# ------------------------------------------------------------------------------------------
# K for the human-readable format: Impl/HR.lean (token level) against HRPrinter + HRLexer + PrattParser
K_HR = []
K_HR_VAR = []
K_HR_PREC = []
HR_RNG = [None]


def hr_lex(env, text):
    """The tokens the REAL scanner (`HRLexer(env).tokenize`) makes of `text`: the token objects themselves and their wire
    encoding for Drivers/C09HR.lean -- a fixed rule / identifier-map entry by the spelling of its rule
    (`tools/gen_hrops.spelling_of` of the rule's regex, found through the identity of the token object), a constant by its
    value, an identifier by the symbol the scanner resolved it to.
    -> ("ok", [wire tokens], parser, [token objects, EndOfInput last]) | ("err", exception class)"""
    import sys
    import os
    tools = os.path.join(os.path.dirname(os.path.dirname(os.path.dirname(os.path.abspath(__file__)))), "tools")
    if tools not in sys.path:
        sys.path.insert(0, tools)
    import gen_hrops
    import pysmt.parsing as P
    parser = HRParser(env)
    lexer = parser.lexer
    spelling = {}
    for rule in lexer.rules:
        if rule.symbol is not None and not rule.is_functional:
            spelling[id(rule.symbol)] = gen_hrops.spelling_of(rule.regex)
    for k, v in lexer._identifier_map.items():
        spelling[id(v)] = k
    out, objs = [], []
    try:
        for tok in lexer.tokenize(text):
            objs.append(tok)
            if isinstance(tok, P.EndOfInput):
                break
            if id(tok) in spelling:
                out.append("o " + wire.hexs(spelling[id(tok)]))
            elif isinstance(tok, P.Identifier):
                v = tok.value
                out.append("y %s %s" % (wire.hexs(v.symbol_name()), wire.enc_symty(v.symbol_type())))
            elif isinstance(tok, P.BVTypeTok):
                out.append("T %d" % tok.width)
            elif isinstance(tok, P.Constant):
                v = tok.value
                if v.is_int_constant():
                    out.append("i %d" % int(v.constant_value()))
                elif v.is_real_constant():
                    fr = Fraction(v.constant_value())
                    out.append("r %d %d" % (fr.numerator, fr.denominator))
                elif v.is_bv_constant():
                    out.append("v %d %d" % (int(v.constant_value()), v.bv_width()))
                elif v.is_string_constant():
                    out.append("s " + wire.hexs(v.constant_value()))
                else:
                    return ("err", "UnknownConstant")
            else:
                return ("err", "UnknownToken:" + type(tok).__name__)
    except RecursionError:
        raise
    except Exception as e:
        return ("err", type(e).__name__)
    return ("ok", out, parser, objs)


def hr_real_tokens(env, text):
    """-> ("ok", [wire tokens]) | ("err", exception class)"""
    return hr_lex(env, text)[:2]


def hr_parse_objects(parser, objs):
    """`PrattParser.parse` on a ready token stream (the real `expression`, `nud`, `led`; only the scanner is bypassed):
    -> ("ok", wire term) | ("err", class) | ("non-term", repr)"""
    from pysmt.fnode import FNode
    try:
        with warnings.catch_warnings():
            warnings.simplefilter("ignore")
            parser.token = None
            parser.tokenizer = iter(objs)
            parser.token = next(parser.tokenizer)
            result = parser.expression()
            try:
                next(parser.tokenizer)
                return ("err", "BogusData")
            except StopIteration:
                pass
        if not isinstance(result, FNode):
            return ("non-term", repr(result)[:60])
        try:
            return ("ok", wire.enc_term(result))
        except wire.OutOfFragment:
            return ("non-term", "out-of-fragment")
    except RecursionError:
        raise
    except Exception as e:
        return ("err", type(e).__name__)


def hr_variant(rng, wire_toks, objs):
    """the token stream with one or two matching pairs of parentheses removed (so that the binding powers decide the
    grouping): -> (wire tokens, token objects) or None when the stream holds no parenthesis"""
    LP, RP = "o " + wire.hexs("("), "o " + wire.hexs(")")
    stack, pairs = [], []
    for i, t in enumerate(wire_toks):
        if t == LP:
            stack.append(i)
        elif t == RP and stack:
            pairs.append((stack.pop(), i))
    if not pairs:
        return None
    drop = set()
    for a, b in rng.sample(pairs, min(len(pairs), rng.choice([1, 1, 2]))):
        drop.add(a)
        drop.add(b)
    keep = [i for i in range(len(wire_toks)) if i not in drop]
    return [wire_toks[i] for i in keep], [objs[i] for i in keep] + [objs[-1]]


def hr_model_record(env, f, text, tags):
    """one case of the HR stream for `run_hr_model`: the formula, the real scanner's tokens of the real serialisation, the
    real parser's answer"""
    try:
        w = wire.enc_term(f)
    except wire.OutOfFragment:
        return
    lexed = hr_lex(env, text)
    toks = lexed[:2]
    if lexed[0] == "ok" and HR_RNG[0] is not None:
        var = hr_variant(HR_RNG[0], lexed[1], lexed[3])
        if var is not None:
            K_HR_VAR.append((text, var[0], hr_parse_objects(lexed[2], var[1])))
    try:
        with warnings.catch_warnings():
            warnings.simplefilter("ignore")
            g = HRParser(env).parse(text)
        try:
            impl = ("ok", wire.enc_term(g), g is f)
        except wire.OutOfFragment:
            return
    except RecursionError:
        raise
    except Exception as e:
        impl = ("err", type(e).__name__, False)
    K_HR.append((w, text, toks, impl, "+".join(sorted(tags))))
    if lexed[0] == "ok" and impl[0] == "ok" and HR_RNG[0] is not None:
        pv = hr_precedence_variant(HR_RNG[0], lexed[1], lexed[3])
        if pv is not None:
            K_HR_PREC.append((text, pv[0], hr_parse_objects(lexed[2], pv[1]), impl[1], pv[2]))


# the conventional order of the binding powers -- the SAME classes as `Table.precedence` (Props.C09HR.hrOps_precedence),
# written here independently of the code under test: rank of every infix operator
HR_RANK = {}
for _r, _ops in enumerate([["<->", "->", "xor"], ["|"], ["&"],
                           ["=", "<", "<=", ">", ">=", "u<", "u<=", "u>", "u>=", "s<", "s<=", "s>", "s>="],
                           ["+", "-"], ["*", "/", "^", "u/", "s/", "u%", "s%"],
                           ["<<", ">>", "a>>", "::", "bvcomp", "ROL", "ROR", "ZEXT", "SEXT"]]):
    for _o in _ops:
        HR_RANK["o " + wire.hexs(_o)] = _r


def hr_precedence_variant(rng, wire_toks, objs):
    """A pair of parentheses whose removal must NOT change the parse if the binding powers are in the conventional order
    (`hrOps_precedence`): the pair encloses an infix application `x op y …` of operators of one rank r, the token before
    `(` is `(` or an infix operator of rank < r, the token after `)` is `)` or an infix operator of rank <= r.
    -> (wire tokens, token objects, description) or None"""
    LP, RP = "o " + wire.hexs("("), "o " + wire.hexs(")")
    PREFIX = ("o " + wire.hexs("!"), "o " + wire.hexs("-"))
    stack, pairs = [], []
    for i, t in enumerate(wire_toks):
        if t == LP:
            stack.append(i)
        elif t == RP and stack:
            pairs.append((stack.pop(), i))
    cands = []
    for a, b in pairs:
        if a == 0 or b + 1 >= len(wire_toks):
            continue
        depth, ops, ok = 0, [], True
        for k in range(a + 1, b):
            t = wire_toks[k]
            if t == LP or t == "o " + wire.hexs("["):
                depth += 1
            elif t == RP or t == "o " + wire.hexs("]"):
                depth -= 1
            elif depth == 0 and t.startswith("o "):
                if t in HR_RANK and k > a + 1:
                    ops.append(t)
                else:
                    ok = False          # ?, :, ., comma, a prefix operator, a function-call token ... at the top level
        if not ok or not ops or len(set(HR_RANK[o] for o in ops)) != 1:
            continue
        r = HR_RANK[ops[0]]
        before, after = wire_toks[a - 1], wire_toks[b + 1]
        if before in PREFIX and (a < 2 or wire_toks[a - 2] == LP or wire_toks[a - 2] in HR_RANK):
            continue                    # a prefix operator in front of the group
        if not (before == LP or (before in HR_RANK and HR_RANK[before] < r)):
            continue
        if not (after == RP or (after in HR_RANK and HR_RANK[after] <= r)):
            continue
        cands.append((a, b))
    if not cands:
        return None
    a, b = rng.choice(cands)
    keep = [i for i in range(len(wire_toks)) if i not in (a, b)]
    return ([wire_toks[i] for i in keep], [objs[i] for i in keep] + [objs[-1]],
            " ".join(wire.unhex(t[2:]) if t.startswith("o ") else "_" for t in wire_toks[max(0, a - 1):b + 2]))


def run_hr_model(ctx):
    """K (human-readable format, token level; precise comparison):
     1. `hrtokens f`: the printer model's token list must be EQUAL, token by token (constants by value, identifiers by
        resolved symbol, every other token by the spelling of its lexer rule), to the real scanner's tokens of the real
        `f.serialize()` -- white space is the only thing not compared (the scanner drops it), parentheses ARE compared;
     2. `hrparse <those real tokens>`: the parser model's term must be the wire encoding of the real
        `HRParser(env).parse(text)` (an error on both sides agrees);
     3. `hrfrag f`: when the Lean side says `f` is in the fragment `InHRFrag` of `Props.C09HR.hr_roundtrip_exact` the real
        parser must have returned the very same formula object; in `InHRFragN` the models must read it back as `regroup f`
        and the real parser must succeed (its result is compared with the model's in step 2; type, meaning and serialisation
        by S)."""
    if not K_HR:
        return
    lines = []
    for w, text, toks, impl, tags in K_HR:
        lines.append("hrtokens " + w)
        lines.append("hrfrag " + w)
        if toks[0] == "ok":
            lines.append("hrparse %d %s" % (len(toks[1]), " ".join(toks[1])) if toks[1] else "hrparse 0")
    try:
        answers = ctx.lean_run_sharded("C09HR", lines)
    except common.LeanError as e:
        ctx.report_l("driver C09HR does not run", str(e))
        return
    it = iter(answers)
    for w, text, toks, impl, tags in K_HR:
        a_tok, a_frag = next(it), next(it)
        a_parse = next(it) if toks[0] == "ok" else None
        ctx.count("k_hr_cases")
        if a_tok.startswith("bad-op") or a_frag.startswith("bad-op") or (a_parse or "").startswith("bad-op"):
            ctx.infra("C09HR driver rejected a request: %s | %s | %s" % (a_tok[:80], a_frag[:80], (a_parse or "")[:80]))
            continue
        rep = {"wire": w, "text": text}
        # 1. tokens
        model_toks = a_tok.split(" ", 2)[2] if a_tok.count(" ") >= 2 else ""
        if toks[0] == "ok":
            if model_toks != " ".join(toks[1]):
                if tags:
                    ctx.count("k_hr_tokens_differ_known_shape")      # F30 shapes: the scanner splits the text differently
                else:
                    ctx.report_k("HR printer model: the token list differs from the real scanner's tokens of f.serialize() "
                                 "= %s" % text[:200], dict(rep, model=model_toks, implementation=" ".join(toks[1])))
                    continue
            else:
                ctx.count("k_hr_tokens_agree")
        else:
            # the real scanner fails: the model must hold a token the scanner cannot make
            if " u " not in " " + model_toks + " " and not tags:
                ctx.report_k("HR printer model: the real scanner raises %s on f.serialize() = %s, the model's token list "
                             "has no unreadable token" % (toks[1], text[:200]), dict(rep, model=model_toks))
                continue
            ctx.count("k_hr_scanner_error")
        # 2. parser
        if a_parse is not None:
            m = "err" if a_parse.startswith("err") else a_parse[3:]
            i = "err" if impl[0] == "err" else impl[1]
            if m != i:
                ctx.report_k("HR parser model: on the tokens of %s the model answers %s, HRParser.parse %s"
                             % (text[:200], a_parse[:150], (impl[1] if impl[0] == "ok" else "err " + impl[1])[:150]),
                             dict(rep, tokens=" ".join(toks[1]), model=a_parse, implementation=impl[1]))
                continue
            ctx.count("k_hr_parse_agree")
        # 3. the theorems' statements on the implementation
        frag, frag_n, self_rt = a_frag.split()
        if tags and (frag == "true" or frag_n == "true"):
            ctx.report_k("HR fragment: a formula with an F30 shape (%s) is inside the fragment of the theorems: %s"
                         % (tags, text[:200]), rep)
            continue
        if frag == "true":
            ctx.count("k_hr_in_fragment")
            if self_rt != "same" or frag_n != "true":
                ctx.report_k("HR models: a formula of the fragment InHRFrag does not round-trip in the models (%s, "
                             "InHRFragN %s): %s" % (self_rt, frag_n, text[:200]), rep)
            elif not (impl[0] == "ok" and impl[2]) and not tags:
                ctx.report_k("HR round trip: a formula of the proved fragment is not returned identically by "
                             "HRParser.parse(f.serialize()): %s" % text[:200], dict(rep, implementation=impl[1]))
        elif frag_n == "true":
            ctx.count("k_hr_in_fragment_n")
            if self_rt not in ("regroup", "same"):
                ctx.report_k("HR models: a formula of the fragment InHRFragN is not read back as its left-grouped form in "
                             "the models (%s): %s" % (self_rt, text[:200]), rep)
            elif impl[0] != "ok" and not tags:
                ctx.report_k("HR round trip: a formula of the proved fragment InHRFragN is not parsed back by "
                             "HRParser.parse(f.serialize()): %s" % text[:200], dict(rep, implementation=impl[1]))
        else:
            ctx.count("k_hr_outside_fragment")
    run_hr_variants(ctx)
    run_hr_precedence(ctx)


def run_hr_precedence(ctx):
    """`Props.C09HR.hrOps_precedence` on the implementation: a pair of parentheses that the conventional order of the
    binding powers makes redundant is removed from the printed token stream; the REAL parser must read the same formula as
    before (and the parser model must agree with it). This is what makes the relative order of the binding powers matter:
    the round-trip theorems use them only through bounds, because the printer parenthesises every infix application."""
    if not K_HR_PREC:
        return
    lines = ["hrparse %d %s" % (len(t), " ".join(t)) for _, t, _, _, _ in K_HR_PREC]
    try:
        answers = ctx.lean_run_sharded("C09HR", lines)
    except common.LeanError as e:
        ctx.report_l("driver C09HR does not run", str(e))
        return
    for (text, toks, impl, want, where), ans in zip(K_HR_PREC, answers):
        ctx.count("k_hr_precedence_cases")
        got = impl[1] if impl[0] == "ok" else "err " + impl[1]
        if got != want:
            ctx.report_k("HR binding powers: removing the parentheses of `%s` (redundant under the conventional precedence, "
                         "hrOps_precedence) changes what the real parser reads from %s" % (where[:80], text[:150]),
                         {"text": text, "tokens": " ".join(toks), "implementation": got, "expected": want})
            continue
        m = "err" if ans.startswith("err") else ans[3:]
        if m != want:
            ctx.report_k("HR parser model: on a stream with redundant parentheses removed (`%s`, from %s) the model answers "
                         "%s" % (where[:80], text[:150], ans[:150]), {"text": text, "tokens": " ".join(toks), "model": ans})
            continue
        ctx.count("k_hr_precedence_agree")


def run_hr_variants(ctx):
    """K (binding powers): the printed token streams with one or two pairs of parentheses removed -- now the binding powers
    decide the grouping, and many streams are ill-formed -- parsed by the real `PrattParser` (`expression`/`nud`/`led` on
    the real token objects) and by the parser model: the same term, or an error on both sides (a real result that is not a
    formula -- a type object -- counts as an error)."""
    if not K_HR_VAR:
        return
    lines = ["hrparse %d %s" % (len(t), " ".join(t)) if t else "hrparse 0" for _, t, _ in K_HR_VAR]
    try:
        answers = ctx.lean_run_sharded("C09HR", lines)
    except common.LeanError as e:
        ctx.report_l("driver C09HR does not run", str(e))
        return
    for (text, toks, impl), ans in zip(K_HR_VAR, answers):
        ctx.count("k_hr_variant_cases")
        if ans.startswith("bad-op"):
            ctx.infra("C09HR driver rejected a request: %s" % ans[:100])
            continue
        m = "err" if ans.startswith("err") else ans[3:]
        i = impl[1] if impl[0] == "ok" else "err"
        if m != i:
            ctx.report_k("HR parser model on a stream with parentheses removed (from %s): the model answers %s, the real "
                         "PrattParser %s" % (text[:150], ans[:150], " ".join(impl)[:150]),
                         {"text": text, "tokens": " ".join(toks), "model": ans, "implementation": " ".join(impl)})
            continue
        ctx.count("k_hr_variant_agree_" + ("ok" if impl[0] == "ok" else "err"))


def finish_sem(ctx, lines, meta):
    try:
        answers = ctx.lean_run_sharded("Sem", lines)
    except common.LeanError as e:
        ctx.report_l("driver Sem does not run", str(e))
        return
    for line, ans, (sig, rep) in zip(lines, answers, meta):
        if ans.startswith("ok"):
            ctx.count("sem_compared", int(ans.split()[1]))
            continue
        if ans.startswith("bad-op"):
            ctx.infra("Sem driver rejected a request: %s" % ans)
            continue
        ctx.report_s(dict(sig, detail=ans.split()[1]),
                     "HR round trip changes type or meaning (%s): %s / %s" % (ans[:60], rep["text"][:200], rep["returned"][:200]),
                     dict(rep, request=line, answer=ans))


def run_witnesses(ctx):
    """deliberate witnesses of the known findings (reported with their signatures)"""
    # F10: integer division of two constants is printed (/ 7 2) and read back as the real 7/2
    env = Environment()
    m = env.formula_manager
    f = m.Equals(m.Symbol("x", INT), m.Div(m.Int(7), m.Int(2)))
    for dag in (False, True):
        pname = "dag" if dag else "tree"
        text = print_formula(f, dag)
        res = parse_term(env, declarations(env, [f]), text)
        ctx.case(("witness", pname, text))
        rep = {"printer": pname, "text": text, "formula": semantic.readable(f), "decls": declarations(env, [f])}
        if res[0] == "err":
            ctx.report_s({"oracle": "roundtrip", "printer": pname, "kind": "parse-error", "error": res[1],
                          "shape": "int-div-of-constants"}, "parse(print(f)) raised %s" % res[1], rep)
        elif res[1] is not f:
            ctx.report_s({"oracle": "roundtrip", "printer": pname, "kind": "different-object", "shape": "int-div-of-constants"},
                         "parse(print(f)) is not f", rep)
    # P03: symbols named ( or ) ; F16b: a symbol spelling a literal
    for nm, shape, mk in ((")", "symbol-named-paren", lambda m, s: m.Not(s)),
                          ("(", "symbol-named-paren", lambda m, s: m.Not(s)),
                          ("5", "symbol-spelling-a-literal", None)):
        env = Environment()
        m = env.formula_manager
        if mk is None:
            s = m.Symbol(nm, INT)
            f = m.LT(s, m.Int(5))
        else:
            s = m.Symbol(nm, BOOL)
            f = mk(m, s)
        decls = declarations(env, [f])
        text = print_formula(f, False)
        res = parse_term(env, decls, text)
        ctx.case(("witness", shape, text))
        rep = {"printer": "tree", "text": text, "decls": decls, "formula": semantic.readable(f)}
        if res[0] == "err":
            ctx.report_s({"oracle": "roundtrip", "printer": "tree", "kind": "parse-error", "error": res[1], "shape": shape},
                         "parse(print(f)) raised %s: %s" % (res[1], res[2]), rep)
        elif res[1] is not f:
            ctx.report_s({"oracle": "roundtrip", "printer": "tree", "kind": "different-object", "shape": shape},
                         "parse(print(f)) is not f: %s" % semantic.readable(res[1]), rep)
    # P18: a FUNCTION named like a reserved word or a token of the parser's table, applied: the printers write the name
    # unquoted (and the tokenizer would drop the bars anyway), the parser dispatches on the token before the declarations
    for nm in ("let", "!", "forall", "_"):
        env = Environment()
        m = env.formula_manager
        fn = m.Symbol(nm, FunctionType(BOOL, [BOOL]))
        f = m.Function(fn, [m.Symbol("q", BOOL)])
        decls = declarations(env, [f])
        text = print_formula(f, False)
        res = parse_term(env, decls, text)
        ctx.case(("witness", "function-named-reserved-word", text))
        rep = {"printer": "tree", "text": text, "decls": decls, "formula": semantic.readable(f)}
        if res[0] == "err":
            ctx.report_s({"oracle": "roundtrip", "printer": "tree", "kind": "parse-error", "error": res[1],
                          "shape": "function-named-reserved-word"}, "parse(print(f)) raised %s: %s" % (res[1], res[2]), rep)
        elif res[1] is not f:
            ctx.report_s({"oracle": "roundtrip", "printer": "tree", "kind": "different-object",
                          "shape": "function-named-reserved-word"},
                         "parse(print(f)) is not f: %s" % semantic.readable(res[1]), rep)
    # P07: the default weight of assert-soft is the Int 1; under a logic without Ints the numeral 1 is read as a Real
    env = Environment()
    t0 = "(set-logic QF_BV)(declare-fun p () Bool)(assert-soft p)"
    r1 = parse_script(env, t0)
    ctx.case(("witness", t0))
    if r1[0] == "ok":
        t1 = serialize_script(r1[1].commands, False)
        r2 = parse_script(env, t1)
        if r2[0] == "ok":
            d = compare_commands(env, r1[1].commands[-1], r2[1].commands[-1])
            if d:
                ctx.report_s({"oracle": "script-roundtrip", "kind": "command-differs", "stage": "parsed", "command": "assert-soft",
                              "shape": "default-weight-under-logic-without-ints"}, d, {"text0": t0, "text1": t1, "daggify": False})
    # F30: human-readable format
    for shape, build in (("string-with-quote", lambda m: m.Equals(m.Symbol("s", STRING), m.String('a"b'))),
                         ("identifier-with-quote", lambda m: m.Not(m.Symbol("x'", BOOL))),
                         ("identifier-printed-unquoted", lambda m: m.Not(m.Symbol("a.b", BOOL))),
                         ("identifier-printed-unquoted", lambda m: m.Not(m.Symbol("k!1", BOOL)))):
        env = Environment()
        f = build(env.formula_manager)
        text = f.serialize()
        ctx.case(("witness", "hr", text))
        try:
            g = HRParser(env).parse(text)
            if g is not f:
                ctx.report_s({"oracle": "hr-roundtrip", "kind": "serialisation-differs", "shape": shape},
                             "HR round trip: %s came back as %s" % (text, g.serialize()), {"text": text})
        except Exception as e:
            ctx.report_s({"oracle": "hr-roundtrip", "kind": "parse-error", "error": type(e).__name__, "shape": shape},
                         "HRParser.parse(f.serialize()) raised %s" % type(e).__name__, {"text": text})


def run(ctx):
    warnings.simplefilter("ignore")
    quick = ctx.tier == "quick"
    lines, meta = [], []
    del K_RT[:]
    del K_SCRIPTS[:]
    del K_HR[:]
    del K_HR_VAR[:]
    del K_HR_PREC[:]
    import random as _random
    HR_RNG[0] = _random.Random("c09-hr-variants-%d" % ctx.seed)     # derived from VERIF_SEED; leaves ctx.rng's stream alone
    run_witnesses(ctx)
    run_smt_roundtrip(ctx, 900 if quick else 15000)
    run_script_roundtrip(ctx, 150 if quick else 2500)
    run_text_script_roundtrip(ctx, 250 if quick else 4000)
    run_parser_reuse(ctx, 60 if quick else 300)
    run_glue_routes(ctx, 240 if quick else 3000)
    run_big_constants(ctx, 60 if quick else 800)
    run_hr_roundtrip(ctx, 900 if quick else 15000, lines, meta)
    finish_sem(ctx, lines, meta)
    run_model(ctx)
    run_hr_model(ctx)


K_RT = []
K_SCRIPTS = []


def run_model(ctx):
    """K: (printer model ; parser model) against parse(print(f)); parser model against the parsed serialisations"""
    if K_RT:
        lines = ["rt %s %s" % (pname, w) for pname, w, _, _, _ in K_RT]
        try:
            answers = ctx.lean_run_sharded("C09", lines)
        except common.LeanError as e:
            ctx.report_l("driver C09 does not run", str(e))
            answers = []
        for (pname, w, impl, rd, text), ans in zip(K_RT, answers):
            ctx.count("k_rt_cases")
            if ans.startswith("bad-op"):
                ctx.infra("C09 driver rejected a request: %s" % ans)
                continue
            if ans == "out-of-fragment":
                ctx.count("k_rt_out_of_fragment")
                continue
            m = "err" if ans.startswith("err") else ans
            if m == impl:
                ctx.count("k_rt_agree")
                continue
            ctx.report_k("parse(print(f)) [%s printer]: the models answer %s, the implementation %s for %s"
                         % (pname, ans[:120], impl[:120], rd),
                         {"printer": pname, "wire": w, "model": ans, "implementation": impl, "text": text})
    if K_SCRIPTS:
        from props import c08 as c08mod
        try:
            answers = ctx.lean_run_sharded("C08", ["pread " + c08mod.hx(t) for t in K_SCRIPTS])
        except common.LeanError as e:
            ctx.report_l("driver C08 does not run", str(e))
            return
        for text, ans in zip(K_SCRIPTS, answers):
            ctx.count("k_script_cases")
            if ans == "out-of-fragment" or ans.startswith("lex "):
                ctx.count("k_script_" + ans.split()[0])
                continue
            got = c08mod.impl_answer(text)
            if got == "out-of-fragment":
                ctx.count("k_script_out-of-fragment")
                continue
            if ans == got or (ans.startswith("err") and got.startswith("err")):
                ctx.count("k_script_agree")
                continue
            ctx.report_k("the parser model and SmtLibParser.get_script disagree on a serialised script: model %s, "
                         "implementation %s" % (ans[:150], got[:150]), {"text": text, "model": ans, "implementation": got})


def replay(ctx, rep):
    r = rep["replay"]
    sig = rep.get("sig", {})
    if r.get("stream") == "big-constants":
        print("route:", r["route"], "sort:", r["sort"], "constant:", r["num"], "/", r["den"], "shape:", r["shape"])
        problem = _big_check(r["route"], r["sort"], int(r["num"]), int(r["den"]), r["shape"])
        print("  ->", problem or "the very same object comes back")
        if problem:
            ctx.report_s(sig, rep["what"], r)
        return
    if r.get("stream") == "glue-routes":
        # a fresh process: first the call that was the first of the route in the recorded process (its environment is the one a
        # process-wide cache would be pinned to), then the recorded call under ITS environment
        print("route:", r["route"], "\nfirst call of the process: symbols", r["first_spec"], "formula", r["first_text"])
        env0, _ = _glue_env([tuple(x) for x in r["first_spec"]])
        print("  ->", _glue_call(r["route"], env0, r["first_text"], r.get("daggify", False)) or "as with an explicit environment")
        env1, _ = _glue_env([tuple(x) for x in r["spec"]])
        print("recorded call: symbols", r["spec"], "formula", r["text"])
        problems = _glue_call(r["route"], env1, r["text"], r.get("daggify", False))
        print("  ->", problems or "as with an explicit environment")
        if problems:
            ctx.report_s(sig, rep["what"], r)
        return
    if sig.get("oracle") == "roundtrip":
        print("printer:", r["printer"], "\ntext:", r["text"], "\nformula:", r["formula"])
        print("(replay needs the environment of the run: re-run with the recorded seed: VERIF_SEED=%s)" % rep.get("seed"))
    elif sig.get("oracle") == "script-roundtrip":
        print("first serialisation:\n" + r.get("text0", ""))
        env = Environment()
        r1 = parse_script(env, r["text0"])
        print("parse:", r1[0], r1[1:] if r1[0] == "err" else "")
        if r1[0] == "ok":
            t1 = serialize_script(r1[1].commands, r["daggify"], annotations=r1[1].annotations)
            r2 = parse_script(env, t1)
            print("re-serialisation:\n" + t1)
            print("re-parse:", r2[0], r2[1:] if r2[0] == "err" else "")
            if r2[0] == "err":
                ctx.report_s(sig, rep["what"], r)
            else:
                for x, y in zip(r1[1].commands, r2[1].commands):
                    d = compare_commands(env, x, y)
                    if d:
                        print("difference:", d)
                        ctx.report_s(sig, rep["what"], r)
                        break
        elif sig.get("stage") == "constructed":
            ctx.report_s(sig, rep["what"], r)
    else:
        print("text:", r.get("text"), "\nreturned:", r.get("returned"))
        if "request" in r:
            print("semantic oracle:", ctx.lean_run("Sem", [r["request"]])[0])
