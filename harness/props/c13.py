"""C13 -- detected logic covers the formula; ordering and selection of logics are sound.

K (correspondence): the Lean definitions under test are *regenerated* from pysmt/logics.py by tools/gen_logics.py;
    this module validates the translator differentially: every table entry and set, all pairs of named logics for
    <=, <, >=, >, ==, !=, `combine`/`set_*` on table and raw theories, rows of the 4096 x 4096 theory matrix
    (all of them in the thorough tier), `get_closer_logic` / `most_generic_logic` on the real supported lists and on
    random sub-lists, `get_logic_by_name`, `get_logic`.  When the detection model exists (driver answers `caps`),
    `TheoryOracle.get_theory` is compared with the Lean `theoryOf` on every generated formula.
S (search, pure Python, independent of the Lean build): brute-force order axioms on the real objects (reflexive,
    antisymmetric up to the name, transitive over all triples of table logics; raw theories sampled / exhaustive),
    `<=` implies feature coverage, `combine` is an upper bound and stays well formed, closest-logic specification
    against a direct definition, and detection: an independent feature extractor over FNode accessors checks that
    `get_theory(f)`, `get_logic(f)` and the `set-logic` of `smtlibscript_from_formula(f)` enable every feature used.
"""
import inspect
import os
import sys
import warnings
from concurrent.futures import ProcessPoolExecutor
from fractions import Fraction

import pysmt.logics as PL
import pysmt.operators as op
from pysmt.environment import get_env
from pysmt.exceptions import NoLogicAvailableError, UndefinedLogicError, NoSolverAvailableError
from pysmt.typing import BOOL, INT, REAL, STRING, BVType, ArrayType, FunctionType

import common
import wire

LEAN_MODULES = ["PySMT.Props.C13"]
RULE = ("order/selection: every pair of named logics (all six relations), every triple for transitivity, rows of the "
        "4096x4096 raw-theory matrix (24 random rows quick, all thorough), targets = every named logic and random raw "
        "logics against every module-level set and random sub-lists (with and without twins); non-trivial = the two "
        "logics differ / at least two candidates lie above the target.  detection: hand-written shapes for every "
        "feature the property lists (string from integer, sort bound only by a quantifier, division by a variable, "
        "constant arrays inside stores, custom-sort function signatures, quantifiers nested inside terms: ITE conditions "
        "below every relation kind, Boolean arguments of functions, Boolean array indices/elements, ...) plus "
        "type-directed random formulas (12% pushed below a relation the same way) over "
        "random theory mixes; non-trivial = the formula uses a non-Boolean feature; distinct = distinct "
        "(feature set, detected logic, root operator)")
ASSUMPTIONS = [
    "theory flags are Python bools (Theory(arrays=1) is outside the model)",
    "iterables of logics are modelled as lists; results are compared on lists in the order given (sets: sorted by name)",
    "the `Auto` marker logic (a twin of BOOL by construction) is not a member of any supported list",
    "python -O (assertions stripped) is not modelled: Theory.__init__'s assertion is the predicate Theory.init_ok",
    "well-formed theories for combine_ub: difference flag only with its arithmetic flag (see known finding F45)",
    "difference logic is not a covered feature (pySMT's IDL/RDL detection is a heuristic; the property does not list it)",
    "non-linear = product with >= 2 operands that contain a free symbol (function names count), division whose "
    "divisor contains one, or pow",
    "Lean detection theorems: about the hand-written model Impl/TheoryOracle.lean (K-compared with the real oracle on "
    "every generated formula), for terms `inFragment` (no pow, function symbols only applied) and for the intrinsic "
    "features; operand-implied features (operator families over well-sorted operands, parameter sorts) are checked by "
    "S only",
]

FIELDS = list(inspect.signature(PL.Theory.__init__).parameters)[1:]
NF = len(FIELDS)


# ------------------------------------------------------------------------------------------------- helpers
def tbits(t):
    return "".join("1" if getattr(t, f) else "0" for f in FIELDS)


def mk_theory(bits):
    """a Theory with exactly these flags (attribute writes: also theories the constructor would refuse)"""
    t = PL.Theory()
    for f, c in zip(FIELDS, bits):
        setattr(t, f, c == "1")
    return t


def ibits(i):
    return format(i, "0%db" % NF)


def lkey(l):
    return (l.name, bool(l.quantifier_free), tbits(l.theory))


def same(a, b):
    """structural identity of two logics, independent of Logic.__eq__"""
    return lkey(a) == lkey(b)


def flag(bits, name):
    return bits[FIELDS.index(name)] == "1"


def wf_bits(bits):
    return ((not flag(bits, "integer_difference") or flag(bits, "integer_arithmetic")) and
            (not flag(bits, "real_difference") or flag(bits, "real_arithmetic")) and
            (not flag(bits, "arrays_const") or flag(bits, "arrays")))


COVER_FLAGS = ["arrays", "arrays_const", "bit_vectors", "floating_point", "integer_arithmetic", "real_arithmetic",
               "uninterpreted", "custom_type", "strings"]


def uncovered(have_bits, need_bits):
    """features `need` uses that `have` does not enable (independent reading of the property's feature list)"""
    out = [f for f in COVER_FLAGS if f in FIELDS and flag(need_bits, f) and not flag(have_bits, f)]
    if not flag(need_bits, "linear") and flag(have_bits, "linear"):
        out.append("nonlinear")
    return out


class Tables:
    def __init__(self):
        self.sets = {}
        self.consts = {}
        for k, v in vars(PL).items():
            if isinstance(v, PL.Logic) and k[0].isupper():
                self.consts[k] = v
            elif isinstance(v, (set, frozenset)) and v and all(isinstance(x, PL.Logic) for x in v) and \
                    (k[0].isupper() or k == "ext_logics"):
                self.sets[k] = v
        named = {}
        self.name_clash = []
        for src in list(self.sets.values()) + [list(self.consts.values())]:
            for l in src:
                if l.name in named and not same(named[l.name], l):
                    self.name_clash.append((named[l.name], l))
                named.setdefault(l.name, l)
        self.named = named
        tab = {}
        for s in ("LOGICS", "PYSMT_LOGICS", "SMTLIB2_LOGICS"):
            for l in self.sets.get(s, ()):
                tab.setdefault(lkey(l), l)
        self.table = [tab[k] for k in sorted(tab)]
        self.all_named = [named[k] for k in sorted(named)]

    def tok(self, l):
        n = self.named.get(l.name)
        if n is not None and same(n, l) and ":" not in l.name and " " not in l.name:
            return "n:" + l.name
        return raw_tok(l)

    def sorted_set(self, name):
        return sorted(self.sets[name], key=lkey)


def raw_tok(l):
    name = l.name.replace(" ", "_").replace(":", "_") or "_"
    return "r:%s:%d:%s" % (name, 1 if l.quantifier_free else 0, tbits(l.theory))


def raw_logic(name, qf, bits):
    return PL.Logic(name=name, description="", quantifier_free=qf, theory=mk_theory(bits))


def show_logic(l):
    return "%s[qf=%d %s]" % (l.name, l.quantifier_free, tbits(l.theory))


def outcome(fn, *a):
    try:
        r = fn(*a)
    except (NoLogicAvailableError, UndefinedLogicError, NoSolverAvailableError, IndexError, AssertionError) as e:
        return ("err", type(e).__name__)
    return ("ok", r)


def show_outcome(o):
    if o[0] == "err":
        return "err " + o[1]
    l = o[1]
    return "ok %s %d %s" % (l.name, 1 if l.quantifier_free else 0, tbits(l.theory))


class Batch:
    """request lines for the driver with the implementation's answer next to each"""

    def __init__(self):
        self.lines, self.expect, self.what = [], [], []

    def add(self, line, expect, what=None):
        self.lines.append(line)
        self.expect.append(expect)
        self.what.append(what or line)

    def run(self, ctx, label, canon=None):
        if not self.lines:
            return True
        try:
            ans = ctx.lean_run_sharded("C13", self.lines)
        except common.LeanError as e:
            ctx.report_l("driver C13 does not run", str(e))
            return False
        bad = 0
        for line, exp, got, what in zip(self.lines, self.expect, ans, self.what):
            if canon:
                got = canon(line, got)
            if got != exp:
                bad += 1
                if bad <= 5:
                    ctx.report_k("%s: model and pysmt disagree on `%s`" % (label, what[:300]),
                                 {"kind": "k-line", "request": line[:2000], "model": got[:300], "impl": exp[:300]})
        ctx.count("k_%s" % label, len(self.lines))
        return bad == 0


# ------------------------------------------------------------------------------------------------- K: tables
def k_tables(ctx, T):
    b = Batch()
    b.add("fields", " ".join(FIELDS))
    for l in T.all_named:
        b.add("logic n:" + l.name, "%s %d %s" % (l.name, 1 if l.quantifier_free else 0, tbits(l.theory)))
    for s in sorted(T.sets):
        b.add("set " + s, " ".join(l.name for l in T.sorted_set(s)))
    rel = [("le", lambda x, y: x <= y), ("lt", lambda x, y: x < y), ("ge", lambda x, y: x >= y),
           ("gt", lambda x, y: x > y), ("eq", lambda x, y: x == y), ("ne", lambda x, y: x != y)]
    for x in T.all_named:
        for y in T.all_named:
            for name, f in rel:
                b.add("%s n:%s n:%s" % (name, x.name, y.name), "true" if f(x, y) else "false")
            ctx.case(None if x is y else ("pair", x.name, y.name))
    # names: every named logic in several spellings, and junk
    for l in T.all_named:
        for nm in {l.name, l.name.lower(), l.name.upper(), l.name.swapcase()}:
            if " " not in nm:
                b.add("byname " + nm, show_outcome(outcome(PL.get_logic_by_name, nm)))
    for nm in ("SuperLogic", "QF_", "bv*", "t", "*"):
        b.add("byname " + nm, show_outcome(outcome(PL.get_logic_by_name, nm)))
    for l in T.all_named:
        kw = {f: getattr(l.theory, f) for f in FIELDS}
        b.add("getlogic %d %s" % (l.quantifier_free, tbits(l.theory)),
              show_outcome(outcome(lambda: PL.get_logic(quantifier_free=l.quantifier_free, **kw))))
    for _ in range(200):
        bits = ibits(ctx.rng.randrange(1 << NF))
        qf = ctx.rng.random() < 0.5
        kw = {f: c == "1" for f, c in zip(FIELDS, bits)}
        b.add("getlogic %d %s" % (qf, bits), show_outcome(outcome(lambda: PL.get_logic(quantifier_free=qf, **kw))))
    return b.run(ctx, "tables")


def k_theory_ops(ctx, T, init_ok):
    """combine and the set_* methods on the table theories and on random raw theories"""
    b = Batch()
    ths = sorted({tbits(l.theory) for l in T.all_named})
    pool = ths + [ibits(ctx.rng.randrange(1 << NF)) for _ in range(60)]
    meths = [("lira", "set_lira"), ("linear", "set_linear"), ("strings", "set_strings"),
             ("dl", "set_difference_logic"), ("arrays", "set_arrays"), ("arrays_const", "set_arrays_const")]

    for a in pool:
        ta = mk_theory(a)
        for short, m in meths:
            for v in (True, False):
                o = outcome(lambda: getattr(mk_theory(a), m)(v))
                b.add("tset %s %s %d" % (short, a, v), ("ASSERT" if o[0] == "err" else tbits(o[1])))
        o = outcome(lambda: mk_theory(a).copy())
        b.add("tset copy %s 0" % a, "ASSERT" if o[0] == "err" else tbits(o[1]))
        for x in pool:
            b.add("tle %s %s" % (a, x), "true" if ta <= mk_theory(x) else "false")
            b.add("teq %s %s" % (a, x), "true" if ta == mk_theory(x) else "false")
            o = outcome(lambda: ta.combine(mk_theory(x)))
            b.add("tcombine %s %s" % (a, x), "ASSERT" if o[0] == "err" else tbits(o[1]) + " 1 1")

    def canon2(line, got):
        t = line.split()
        if t[0] == "tset":
            # copy() goes through the constructor first: it raises iff the receiver is not init_ok
            # (set_arrays_const -> set_arrays -> copy as well); everything after the copy is attribute writes
            return "ASSERT" if not init_ok[t[2]] else got
        if t[0] == "tcombine":
            bits = got.split()[0]
            return "ASSERT" if not init_ok[bits] else got
        return got
    return b.run(ctx, "theory-ops", canon2)


# ---- rows of the raw theory matrix (worker side: plain functions so that they can run in a process pool)
_ALL = None


def _all_theories():
    global _ALL
    if _ALL is None:
        _ALL = [mk_theory(ibits(i)) for i in range(1 << NF)]
    return _ALL


def py_le_row(i):
    al = _all_theories()
    a = al[i]
    return "".join("1" if a <= u else "0" for u in al)


def py_ge_col(i):
    al = _all_theories()
    a = al[i]
    return "".join("1" if u <= a else "0" for u in al)


def py_comb_row(i):
    al = _all_theories()
    a = al[i]
    out = []
    for u in al:
        try:
            out.append(tbits(a.combine(u)))
        except AssertionError:
            out.append("A" * NF)
    return "".join(out)


def _rows(args):
    kind, idx = args
    f = {"le": py_le_row, "ge": py_ge_col, "comb": py_comb_row}[kind]
    return [(i, f(i)) for i in idx]


def compute_rows(ctx, kind, idx):
    idx = list(idx)
    if len(idx) < 64 or ctx.workers <= 1:
        return dict(_rows((kind, idx)))
    n = ctx.workers
    chunks = [idx[k::n] for k in range(n)]
    out = {}
    with ProcessPoolExecutor(n) as ex:
        for part in ex.map(_rows, [(kind, c) for c in chunks if c]):
            out.update(part)
    return out


def k_rows(ctx, rows_le, rows_comb, init_ok):
    b = Batch()
    for i, row in sorted(rows_le.items()):
        b.add("tlerow " + ibits(i), row, "tlerow %s (row of the <= matrix)" % ibits(i))
    for i, row in sorted(rows_comb.items()):
        b.add("tcombrow " + ibits(i), row, "tcombrow %s" % ibits(i))

    def canon(line, got):
        if not line.startswith("tcombrow"):
            return got
        parts = [got[k:k + NF] for k in range(0, len(got), NF)]
        return "".join(p if init_ok.get(p, True) else "A" * NF for p in parts)
    ok = b.run(ctx, "rows", canon)
    ctx.count("raw_pairs_le", len(rows_le) * (1 << NF))
    ctx.count("raw_pairs_combine", len(rows_comb) * (1 << NF))
    return ok


# ------------------------------------------------------------------------------------------------- S: order
def s_table_order(ctx, T):
    L = T.all_named
    n = len(L)
    le = [[bool(L[i] <= L[j]) for j in range(n)] for i in range(n)]
    rep = lambda *idx: {"kind": "order", "logics": [list(lkey(L[i])) for i in idx]}
    for i in range(n):
        if not le[i][i]:
            ctx.report_s({"oracle": "order", "axiom": "reflexive"}, "%s <= itself is False" % L[i].name, rep(i))
        for j in range(n):
            a, b = L[i], L[j]
            if le[i][j] and le[j][i] and (tbits(a.theory) != tbits(b.theory) or a.quantifier_free != b.quantifier_free):
                ctx.report_s({"oracle": "order", "axiom": "antisymmetric"},
                             "%s <= %s <= %s but they differ in more than the name" % (a.name, b.name, a.name), rep(i, j))
            if le[i][j]:
                miss = uncovered(tbits(b.theory), tbits(a.theory))
                if miss or (not a.quantifier_free and b.quantifier_free):
                    ctx.report_s({"oracle": "order", "axiom": "le-covers", "missing": (miss + ["quantifiers"])[0]},
                                 "%s <= %s although %s lacks %s" % (a.name, b.name, b.name, miss or "quantifiers"), rep(i, j))
            # derived relations
            if bool(a < b) != (le[i][j] and not same(a, b)) or bool(a >= b) != le[j][i] or \
                    bool(a > b) != (le[j][i] and not same(a, b)) or bool(a == b) != same(a, b) or bool(a != b) == same(a, b):
                ctx.report_s({"oracle": "order", "axiom": "derived-relations"},
                             "<, >=, >, ==, != of %s and %s are not the derived relations of <=" % (a.name, b.name), rep(i, j))
    # transitivity over all triples (bit sets)
    rowbits = [sum(1 << j for j in range(n) if le[i][j]) for i in range(n)]
    bad = 0
    for i in range(n):
        for j in range(n):
            if le[i][j]:
                extra = rowbits[j] & ~rowbits[i]
                if extra and bad < 3:
                    k = extra.bit_length() - 1
                    bad += 1
                    ctx.report_s({"oracle": "order", "axiom": "transitive"},
                                 "%s <= %s <= %s but not %s <= %s" % (L[i].name, L[j].name, L[k].name, L[i].name, L[k].name),
                                 rep(i, j, k))
    ctx.count("s_table_triples", n ** 3)
    ctx.evaluations += n * n
    # twins / names
    tab = T.table
    seen = {}
    for l in tab:
        k = (tbits(l.theory), l.quantifier_free)
        if k in seen:
            ctx.report_s({"oracle": "table", "axiom": "no-twins"},
                         "%s and %s have the same theory and quantifier flag" % (seen[k].name, l.name),
                         {"kind": "twins", "logics": [list(lkey(seen[k])), list(lkey(l))]})
        seen[k] = l
    low = {}
    for l in tab:
        if l.name.lower() in low:
            ctx.report_s({"oracle": "table", "axiom": "names-unique"},
                         "two table logics are called %s / %s" % (low[l.name.lower()].name, l.name),
                         {"kind": "names", "logics": [list(lkey(low[l.name.lower()])), list(lkey(l))]})
        low[l.name.lower()] = l
    for a, b in T.name_clash:
        ctx.report_s({"oracle": "table", "axiom": "names-unique"}, "two different logics are called %s" % a.name,
                     {"kind": "names", "logics": [list(lkey(a)), list(lkey(b))]})
    for l in T.all_named:
        if not wf_bits(tbits(l.theory)):
            ctx.report_s({"oracle": "table", "axiom": "well-formed"}, "theory of %s is ill-formed" % l.name,
                         {"kind": "order", "logics": [list(lkey(l))]})
    # F32: whatever detection / the script printer can emit must be found again by name and by flags
    emit = {}
    for s in ("PYSMT_LOGICS", "SMTLIB2_LOGICS", "LOGICS"):
        for l in T.sets.get(s, ()):
            emit.setdefault(lkey(l), (l, s))
    for k in sorted(emit):
        l, s = emit[k]
        check_lookup(ctx, l, s)


def check_lookup(ctx, l, where):
    o = outcome(PL.get_logic_by_name, l.name)
    if o[0] != "ok" or not same(o[1], l):
        ctx.report_s({"oracle": "lookup", "call": "get_logic_by_name", "set": where},
                     "get_logic_by_name(%r) -> %s, but %s is a member of %s" % (l.name, show_outcome(o), l.name, where),
                     {"kind": "lookup", "logic": list(lkey(l)), "set": where})
    kw = {f: getattr(l.theory, f) for f in FIELDS}
    o = outcome(lambda: PL.get_logic(quantifier_free=l.quantifier_free, **kw))
    if o[0] != "ok" or not same(o[1], l):
        ctx.report_s({"oracle": "lookup", "call": "get_logic", "set": where},
                     "get_logic(<flags of %s>) -> %s, but %s is a member of %s" % (l.name, show_outcome(o), l.name, where),
                     {"kind": "lookup", "logic": list(lkey(l)), "set": where})
    ctx.case(("lookup", l.name))


def check_combine_pair(ctx, a_bits, b_bits, c_bits=None):
    """the upper-bound / well-formedness claims for one pair (real objects); returns True when fine"""
    a, b = mk_theory(a_bits), mk_theory(b_bits)
    try:
        c = a.combine(b)
    except AssertionError:
        if (not flag(a_bits, "arrays_const") or flag(a_bits, "arrays")) and \
                (not flag(b_bits, "arrays_const") or flag(b_bits, "arrays")):
            ctx.report_s({"oracle": "combine", "axiom": "no-assertion"},
                         "combine raises AssertionError on two theories the constructor accepts",
                         {"kind": "combine", "a": a_bits, "b": b_bits})
            return False
        return True
    ok = True
    if not (a <= c and b <= c):
        illformed = not (wf_bits(a_bits) and wf_bits(b_bits))
        shape = "difference-without-arithmetic" if illformed and \
            (dl_without_arith(a_bits) or dl_without_arith(b_bits)) else ("ill-formed" if illformed else "well-formed")
        ctx.report_s({"oracle": "combine", "axiom": "upper-bound", "shape": shape},
                     "Theory(%s).combine(Theory(%s)) = %s is not above both arguments" % (
                         named_flags(a_bits), named_flags(b_bits), named_flags(tbits(c))),
                     {"kind": "combine", "a": a_bits, "b": b_bits})
        ok = False
    if wf_bits(a_bits) and wf_bits(b_bits) and not wf_bits(tbits(c)):
        ctx.report_s({"oracle": "combine", "axiom": "well-formed"},
                     "combine of two well-formed theories is ill-formed: %s + %s = %s" % (
                         named_flags(a_bits), named_flags(b_bits), named_flags(tbits(c))),
                     {"kind": "combine", "a": a_bits, "b": b_bits})
        ok = False
    return ok


def dl_without_arith(bits):
    return (flag(bits, "integer_difference") and not flag(bits, "integer_arithmetic")) or \
           (flag(bits, "real_difference") and not flag(bits, "real_arithmetic"))


def named_flags(bits):
    on = [f for f, c in zip(FIELDS, bits) if (c == "1") != (f == "linear")]
    return "{" + ", ".join("non-linear" if f == "linear" else f for f in on) + "}"


def s_raw_order(ctx, rows_le, cols_ge):
    """order axioms on raw theories, from rows of the <= matrix computed with the real objects"""
    N = 1 << NF
    reported = {"t": 0, "a": 0, "c": 0}
    for i, row in rows_le.items():
        if row[i] != "1":
            ctx.report_s({"oracle": "theory-order", "axiom": "reflexive"}, "Theory %s <= itself is False" % named_flags(ibits(i)),
                         {"kind": "theory-order", "theories": [ibits(i)]})
        col = cols_ge.get(i)
        if col is not None:
            both = int(row[::-1], 2) & int(col[::-1], 2) & ~(1 << i)
            if both and reported["a"] < 3:
                j = both.bit_length() - 1
                reported["a"] += 1
                ctx.report_s({"oracle": "theory-order", "axiom": "antisymmetric"},
                             "%s <= %s <= %s" % (named_flags(ibits(i)), named_flags(ibits(j)), named_flags(ibits(i))),
                             {"kind": "theory-order", "theories": [ibits(i), ibits(j)]})
        for j in range(N):
            if row[j] == "1":
                miss = uncovered(ibits(j), ibits(i))
                if miss and reported["c"] < 3:
                    reported["c"] += 1
                    ctx.report_s({"oracle": "theory-order", "axiom": "le-covers", "missing": miss[0]},
                                 "%s <= %s although the latter lacks %s" % (named_flags(ibits(i)), named_flags(ibits(j)), miss),
                                 {"kind": "theory-order", "theories": [ibits(i), ibits(j)]})
    # transitivity: a <= b (row of a), b <= c (row of b, when we have it) ==> a <= c
    rowint = {i: int(r[::-1], 2) for i, r in rows_le.items()}
    for i, ri in rowint.items():
        x = ri
        while x:
            low = x & -x
            j = low.bit_length() - 1
            x ^= low
            rj = rowint.get(j)
            if rj is None:
                continue
            extra = rj & ~ri
            if extra and reported["t"] < 3:
                k = extra.bit_length() - 1
                reported["t"] += 1
                ctx.report_s({"oracle": "theory-order", "axiom": "transitive"},
                             "%s <= %s <= %s but not first <= third" % (
                                 named_flags(ibits(i)), named_flags(ibits(j)), named_flags(ibits(k))),
                             {"kind": "theory-order", "theories": [ibits(i), ibits(j), ibits(k)]})
    ctx.evaluations += len(rows_le) * N


def s_raw_combine(ctx, rows_le, rows_comb):
    """combine is an upper bound of both arguments (and stays well formed), from rows of the combine matrix"""
    N = 1 << NF
    nbad = 0
    for i, row in rows_comb.items():
        a_bits = ibits(i)
        for j in range(N):
            c = row[j * NF:(j + 1) * NF]
            if c[0] == "A":
                if nbad < 50 and flag(a_bits, "arrays") >= flag(a_bits, "arrays_const") and \
                        flag(ibits(j), "arrays") >= flag(ibits(j), "arrays_const"):
                    check_combine_pair(ctx, a_bits, ibits(j))
                    nbad += 1
                continue
            b_bits = ibits(j)
            ok = True
            ci = int(c, 2)
            ra = rows_le.get(i)
            if ra is not None and ra[ci] != "1":
                ok = False
            elif ra is None and not (mk_theory(a_bits) <= mk_theory(c)):
                ok = False
            rb = rows_le.get(j)
            if rb is not None:
                if rb[ci] != "1":
                    ok = False
            elif not (mk_theory(b_bits) <= mk_theory(c)):
                ok = False
            if wf_bits(a_bits) and wf_bits(b_bits) and not wf_bits(c):
                ok = False
            if not ok and nbad < 400:
                nbad += 1
                check_combine_pair(ctx, a_bits, b_bits)
    ctx.evaluations += len(rows_comb) * N


def s_raw_sampled(ctx, n_triples):
    """random chains of raw theories for transitivity / antisymmetry (real objects, no rows needed)"""
    r = ctx.rng
    N = 1 << NF
    al = _all_theories()
    shown = 0
    for _ in range(n_triples):
        i = r.randrange(N)
        # walk upwards: flip a few flags so that comparable triples are frequent
        j = i | (1 << r.randrange(NF)) if r.random() < 0.7 else r.randrange(N)
        k = j | (1 << r.randrange(NF)) if r.random() < 0.7 else r.randrange(N)
        if r.random() < 0.5:
            j ^= 1 << (NF - 1 - FIELDS.index("linear"))
        a, b, c = al[i], al[j], al[k]
        ab, bc = a <= b, b <= c
        if ab and bc and not (a <= c) and shown < 3:
            shown += 1
            ctx.report_s({"oracle": "theory-order", "axiom": "transitive"},
                         "%s <= %s <= %s but not first <= third" % (named_flags(ibits(i)), named_flags(ibits(j)), named_flags(ibits(k))),
                         {"kind": "theory-order", "theories": [ibits(i), ibits(j), ibits(k)]})
        if ab and (b <= a) and i != j and shown < 3:
            shown += 1
            ctx.report_s({"oracle": "theory-order", "axiom": "antisymmetric"},
                         "%s <= %s <= %s" % (named_flags(ibits(i)), named_flags(ibits(j)), named_flags(ibits(i))),
                         {"kind": "theory-order", "theories": [ibits(i), ibits(j)]})
        ctx.case(("triple", i, j, k) if ab and bc and i != j and j != k else None)


# ------------------------------------------------------------------------------------------------- selection
def gen_selection_cases(ctx, T):
    r = ctx.rng
    cases = []          # (kind, target, supported list)
    tab = T.table
    biglists = [(s, T.sorted_set(s)) for s in sorted(T.sets)]
    raw_targets = []
    for k in range(60 if ctx.tier == "quick" else 400):
        if r.random() < 0.5:
            base = tbits(r.choice(tab).theory)
            bits = "".join(c if r.random() < 0.85 else ("1" if c == "0" else "0") for c in base)
        else:
            bits = ibits(r.randrange(1 << NF))
        raw_targets.append(raw_logic("Detected_Logic", r.random() < 0.6, bits))
    targets = list(T.all_named) + raw_targets
    for t in targets:
        for s, lst in biglists:
            if r.random() < (0.15 if len(lst) > 20 else 0.3):
                cases.append(("closer", t, lst))
        cases.append(("closerpysmt", t, None))
        cases.append(("closersmtlib", t, None))
    nrand = 500 if ctx.tier == "quick" else 6000
    for _ in range(nrand):
        t = r.choice(targets)
        k = r.choice([0, 1, 2, 3, 4, 6, 8, 12, 20])
        lst = r.sample(tab, min(k, len(tab)))
        if r.random() < 0.3:
            # make sure something is above the target
            up = [l for l in tab if t <= l]
            if up:
                lst += r.sample(up, min(len(up), r.choice([1, 2, 3])))
        if r.random() < 0.12 and lst:
            tw = r.choice(lst)
            lst.append(PL.Logic(name=tw.name + "_twin", description="", quantifier_free=tw.quantifier_free,
                                theory=tw.theory.copy()))
        if r.random() < 0.1 and lst:
            lst.append(r.choice(lst))          # the same object twice
        r.shuffle(lst)
        cases.append(("closer", t, lst))
    for _ in range(nrand):
        k = r.choice([1, 1, 2, 2, 3, 4, 5, 8])
        if r.random() < 0.6:
            top = r.choice(tab)
            below = [l for l in tab if l <= top]
            lst = r.sample(below, min(k, len(below)))
            if r.random() < 0.7:
                lst.append(top)
        else:
            lst = r.sample(tab, min(k, len(tab)))
        if r.random() < 0.1:
            lst.append(r.choice(lst))
        r.shuffle(lst)
        cases.append(("mostgeneric", None, lst))
    return cases


def run_case(kind, t, lst):
    if kind == "closer":
        return outcome(PL.get_closer_logic, lst, t)
    if kind == "closerpysmt":
        return outcome(PL.get_closer_pysmt_logic, t)
    if kind == "closersmtlib":
        return outcome(PL.get_closer_smtlib_logic, t)
    return outcome(PL.most_generic_logic, lst)


def case_replay(kind, t, lst):
    return {"kind": "selection", "call": kind, "target": list(lkey(t)) if t is not None else None,
            "supported": [list(lkey(l)) for l in lst] if lst is not None else None}


def check_selection(ctx, T, kind, t, lst, o):
    """the specification, by direct definition over the real `<=`"""
    if kind == "mostgeneric":
        tops = [l for l in lst if all(x <= l for x in lst)]
        if o[0] == "ok":
            r = o[1]
            if not any(r is l for l in lst) or not all(x <= r for x in lst):
                ctx.report_s({"oracle": "most-generic", "axiom": "spec"},
                             "most_generic_logic(%s) = %s is not a member above all members" % ([l.name for l in lst], r.name),
                             case_replay(kind, t, lst))
        elif o[1] != "NoLogicAvailableError":
            ctx.report_s({"oracle": "most-generic", "axiom": "exception", "error": o[1]},
                         "most_generic_logic(%s) raises %s" % ([l.name for l in lst], o[1]), case_replay(kind, t, lst))
        elif len(tops) == 1:
            ctx.report_s({"oracle": "most-generic", "axiom": "total"},
                         "most_generic_logic(%s) raises although %s is the unique top" % ([l.name for l in lst], tops[0].name),
                         case_replay(kind, t, lst))
        ctx.case(("mg", tuple(sorted(l.name for l in lst))) if len(lst) > 1 else None)
        return
    sup = lst if lst is not None else T.sorted_set("PYSMT_LOGICS" if kind == "closerpysmt" else "SMTLIB2_LOGICS")
    cands = [l for l in sup if t <= l]
    sig_call = {"closer": "get_closer_logic", "closerpysmt": "get_closer_pysmt_logic",
                "closersmtlib": "get_closer_smtlib_logic"}[kind]
    if o[0] == "ok":
        r = o[1]
        why = None
        if not any(r is l for l in sup):
            why = "is not a member of the supported list"
        elif not (t <= r):
            why = "is not above the target"
        else:
            between = [k for k in cands if k <= r and not same(k, r)]
            if between:
                why = "is not minimal: %s lies between" % between[0].name
            else:
                miss = uncovered(tbits(r.theory), tbits(t.theory))
                if miss or (not t.quantifier_free and r.quantifier_free):
                    why = "cannot express %s" % (miss or ["quantifiers"])
        if why:
            ctx.report_s({"oracle": "closer", "axiom": "spec", "call": sig_call},
                         "%s(%s, target %s) = %s %s" % (sig_call, [l.name for l in sup][:12], show_logic(t), r.name, why),
                         case_replay(kind, t, lst))
    elif o[1] == "NoLogicAvailableError":
        if cands:
            ctx.report_s({"oracle": "closer", "axiom": "total", "call": sig_call},
                         "%s raises NoLogicAvailableError although %s is above %s" % (sig_call, cands[0].name, show_logic(t)),
                         case_replay(kind, t, lst))
    else:
        twins = any((not same(k, l)) and k <= l and l <= k for k in cands for l in cands)
        if not twins:
            ctx.report_s({"oracle": "closer", "axiom": "total", "call": sig_call, "error": o[1]},
                         "%s raises %s on a twin-free supported list (target %s)" % (sig_call, o[1], show_logic(t)),
                         case_replay(kind, t, lst))
    ctx.case(("closer", kind, lkey(t), tuple(sorted(l.name for l in sup))[:20]) if len(cands) > 1 else None)


def selection(ctx, T, lean_ok):
    cases = gen_selection_cases(ctx, T)
    b = Batch()
    for kind, t, lst in cases:
        o = run_case(kind, t, lst)
        check_selection(ctx, T, kind, t, lst, o)
        if kind == "mostgeneric":
            line = "mostgeneric " + " ".join(T.tok(l) for l in lst)
        elif kind == "closer":
            line = "closer %s %s" % (T.tok(t), " ".join(T.tok(l) for l in lst))
            line = line.rstrip()
        else:
            line = "%s %s" % (kind, T.tok(t))
        b.add(line, show_outcome(o))
        ctx.count("sel_" + kind)
        ctx.count("sel_outcome_" + (o[1] if o[0] == "err" else "ok"))
    shown = {"closer": 0, "mostgeneric": 0}
    for kind, t, lst in cases:
        if kind not in shown or shown[kind] >= (2 if kind == "closer" else 1) or lst is None or not (2 <= len(lst) <= 8):
            continue
        o = run_case(kind, t, lst)
        if o[0] != "ok" or (kind == "closer" and sum(1 for l in lst if t <= l) < 2):
            continue
        shown[kind] += 1
        ctx.sample({"call": kind, "target": show_logic(t) if t is not None else None,
                    "supported": [l.name for l in lst], "result": show_outcome(o)})
    if lean_ok:
        b.run(ctx, "selection")



# ------------------------------------------------------------------------------------------------- factory
def factory_cases(ctx, T, lean_ok):
    """Factory._get_solver_class on harness-registered solver classes: K against Impl/FactorySelect.lean, S: the
    logic handed to the solver is one of ITS logics, above the requested one, and closest"""
    r = ctx.rng
    fac = get_env().factory
    tab = T.table
    b = Batch()
    n = 400 if ctx.tier == "quick" else 4000
    for i in range(n):
        ns = r.choice([1, 2, 2, 3, 4])
        names = ["s%d" % k for k in range(ns)]
        classes = {}
        for nm in names:
            base = r.choice(tab)
            pool = [l for l in tab if l <= base] if r.random() < 0.5 else tab
            lst = r.sample(pool, min(len(pool), r.choice([1, 2, 3, 4, 6])))
            classes[nm] = type("C13Stub_" + nm, (), {"LOGICS": lst})
        prefs = [nm for nm in r.sample(names, len(names)) if r.random() < 0.85]
        default = r.choice(tab)
        name = r.choice([None, None, r.choice(names), "unknown"])
        logic = r.choice([None, r.choice(tab), r.choice(tab),
                          raw_logic("Requested", r.random() < 0.6, tbits(r.choice(tab).theory))])
        fac.preferences["c13-stub"] = prefs
        try:
            o = outcome(lambda: fac._get_solver_class(solver_list=classes, solver_type="c13-stub",
                                                     default_logic=default, name=name, logic=logic))
        finally:
            del fac.preferences["c13-stub"]
        rp = {"kind": "factory", "default": list(lkey(default)), "name": name,
              "logic": list(lkey(logic)) if logic is not None else None, "prefs": prefs,
              "solvers": [[nm, [list(lkey(l)) for l in classes[nm].LOGICS]] for nm in names]}
        if o[0] == "ok":
            cls, L = o[1]
            sname = [nm for nm in names if classes[nm] is cls]
            why = None
            if not sname:
                why = "returns a class that is not in the solver list"
            elif not any(L is l for l in cls.LOGICS):
                why = "returns a logic that is not one of the solver's LOGICS"
            elif name is not None and sname[0] != name:
                why = "returns another solver than the named one"
            elif logic is not None:
                if not (logic <= L):
                    why = "hands the solver %s, which is not above the requested logic" % L.name
                elif uncovered(tbits(L.theory), tbits(logic.theory)) or (not logic.quantifier_free and L.quantifier_free):
                    why = "hands the solver %s, which cannot express the requested logic" % L.name
                elif [k for k in cls.LOGICS if logic <= k and k <= L and not same(k, L)]:
                    why = "hands the solver %s although a closer supported logic exists" % L.name
            if why:
                ctx.report_s({"oracle": "factory", "axiom": "spec"},
                             "_get_solver_class(name=%s, logic=%s) %s" % (name, show_logic(logic) if logic else None, why), rp)
            exp = "ok %s %s %d %s" % (sname[0] if sname else "?", L.name, 1 if L.quantifier_free else 0, tbits(L.theory))
        else:
            exp = "err " + o[1]
        line = "factory %s %s %s %d %s %d %s" % (
            T.tok(default), name if name is not None else "-", T.tok(logic) if logic is not None else "-",
            len(prefs), " ".join(prefs), ns,
            " ".join("%s %d %s" % (nm, len(classes[nm].LOGICS), " ".join(T.tok(l) for l in classes[nm].LOGICS))
                     for nm in names))
        b.add(" ".join(line.split()), exp)
        ctx.case(("factory", i) if o[0] == "ok" else None)
        ctx.count("factory_" + (o[1] if o[0] == "err" else "ok"))
    if lean_ok:
        b.run(ctx, "factory")



# ---- every public entry point that takes a `logic`, on recording stub classes
FORMULA_ENTRIES = ["is_sat", "is_valid", "is_unsat", "get_model", "get_implicant", "get_unsat_core", "qelim",
                   "binary_interpolant", "sequence_interpolant"]
CTOR_ENTRIES = ["Solver", "UnsatCoreSolver", "QuantifierEliminator", "Interpolator", "Optimizer"]
ENTRY_KIND = {"is_sat": "Solver", "is_valid": "Solver", "is_unsat": "Solver", "get_model": "Solver",
              "get_implicant": "Solver", "get_unsat_core": "Solver supporting Unsat Cores",
              "qelim": "Quantifier Eliminator", "binary_interpolant": "Interpolator",
              "sequence_interpolant": "Interpolator", "Solver": "Solver",
              "UnsatCoreSolver": "Solver supporting Unsat Cores", "QuantifierEliminator": "Quantifier Eliminator",
              "Interpolator": "Interpolator", "Optimizer": "Optimizer"}
_RECORD = []


class _RecordingStub(object):
    """stands in for a solver / eliminator / interpolator / optimizer class: records the logic it is created with
    and every formula it is handed"""
    LOGICS = []

    def __init__(self, environment=None, logic=None, **kwargs):
        self.logic = logic
        self.received = []
        _RECORD.append(self)

    def __enter__(self):
        return self

    def __exit__(self, *a):
        return False

    def exit(self):
        pass

    def is_sat(self, f):
        self.received.append(f)
        return True
    is_valid = is_unsat = is_sat

    def add_assertion(self, f, named=None):
        self.received.append(f)

    def solve(self, assumptions=None):
        return False

    def get_model(self):
        return None

    def get_unsat_core(self):
        return set()

    def eliminate_quantifiers(self, f):
        self.received.append(f)
        return f

    def binary_interpolant(self, a, b):
        self.received.extend([a, b])
        return None

    def sequence_interpolant(self, fs):
        self.received.extend(fs)
        return None


def call_entry(entry, f, name, logic_kw):
    """through pysmt.shortcuts (which forward to get_env().factory)"""
    import pysmt.shortcuts as SC
    fn = getattr(SC, entry)
    if entry in CTOR_ENTRIES:
        return fn(name=name, **logic_kw)
    fs = f if isinstance(f, list) else [f]
    if entry == "get_unsat_core":
        return fn(list(fs), solver_name=name, **logic_kw)
    if entry == "binary_interpolant":
        return fn(fs[0], fs[-1], solver_name=name, **logic_kw)
    if entry == "sequence_interpolant":
        return fn(list(fs) if len(fs) > 1 else [fs[0], fs[0]], solver_name=name, **logic_kw)
    return fn(fs[0], solver_name=name, **logic_kw)


class StubFactory(object):
    """temporarily replaces the five class tables and the preference lists of the global environment's factory"""
    ATTRS = ["_all_solvers", "_all_unsat_core_solvers", "_all_qelims", "_all_interpolators", "_all_optimizers"]

    def __init__(self, classes, prefs):
        self.fac = get_env().factory
        self.classes, self.prefs = classes, prefs

    def __enter__(self):
        self.saved = {a: getattr(self.fac, a) for a in self.ATTRS}
        self.saved_prefs = dict(self.fac.preferences)
        for a in self.ATTRS:
            setattr(self.fac, a, dict(self.classes))
        for k in set(ENTRY_KIND.values()):
            self.fac.preferences[k] = list(self.prefs)
        return self.fac

    def __exit__(self, *a):
        for k, v in self.saved.items():
            setattr(self.fac, k, v)
        self.fac.preferences.clear()
        self.fac.preferences.update(self.saved_prefs)
        return False


def entry_outcome(entry, f, name, logic_kw, classes):
    del _RECORD[:]
    try:
        with warnings.catch_warnings():
            warnings.simplefilter("ignore")
            call_entry(entry, f, name, logic_kw)
    except (NoLogicAvailableError, UndefinedLogicError, NoSolverAvailableError, IndexError) as e:
        return ("err", type(e).__name__)
    if len(_RECORD) != 1:
        return ("err", "instances=%d" % len(_RECORD))
    inst = _RECORD[0]
    nm = [k for k, v in classes.items() if v is type(inst)]
    return ("ok", nm[0] if nm else "?", inst.logic, list(inst.received))



def check_received(ctx, entry, mode, name, o, rp):
    """every formula a solver instance receives must be expressible in the logic the instance was created for"""
    if o[0] != "ok" or not isinstance(o[2], PL.Logic):
        return
    L = o[2]
    for g in o[3]:
        need, quant, extra = features(g)
        nb = need_bits(dict(extra, **need))
        miss = uncovered(tbits(L.theory), nb)
        if miss or (quant and L.quantifier_free):
            if has_int_pow(g) and miss == ["real_arithmetic"]:
                continue            # known F46
            ctx.report_s({"oracle": "factory-entry", "entry": entry, "mode": mode, "axiom": "received-covered"},
                         "%s(..., solver_name=%s, logic=%s): the solver %s was created for %s and then handed `%s`, "
                         "which needs %s" % (entry, name, mode, o[1], L.name, g.serialize()[:120],
                                             miss or ["quantifiers"]), rp)
            return


def multi_formula_entries(ctx, T):
    """get_unsat_core / binary_interpolant / sequence_interpolant detect ONE logic for several formulas and hand
    each formula to the solver separately: clause sets with the literals False / True, duplicates, the empty set"""
    r = ctx.rng
    env = get_env()
    sh = Shapes(env)
    m = env.formula_manager
    I, R = m.Int, m.Real
    lia = m.LT(m.Plus(sh.x, sh.y), I(3))
    lra = m.LE(m.Plus(sh.r, sh.s), R(2))
    bv = m.Equals(m.BVAdd(sh.v, m.BV(1, 8)), m.BV(0, 8))
    uf = m.Equals(sh.app(sh.fII, sh.x), sh.y)
    q = m.Exists([sh.y], m.GT(m.Plus(sh.y, sh.y), sh.x))
    bo = m.Or(sh.b, sh.b2)
    F, Tr = m.FALSE(), m.TRUE()
    sets = [[lia, m.Not(lia)], [uf, lia, m.Not(uf)], [lia, F, uf], [F, lia], [lia, F], [bv, F, bo], [lra, Tr, lia],
            [Tr, bv], [lia, lia, lia], [bo, F], [F], [Tr], [], [q, F, lia], [m.Not(Tr), lra], [m.And(lia, F), uf],
            [m.Or(F, lia), F, bv]]
    for _ in range(6 if ctx.tier == "quick" else 60):
        k = r.choice([2, 3, 4])
        sets.append([r.choice([lia, lra, bv, uf, q, bo, F, Tr, m.Not(lia)]) for _ in range(k)])
    allp = [l.name for l in T.sorted_set("PYSMT_LOGICS")]
    specs = [("all", allp), ("boolonly", ["BOOL", "QF_BOOL"])]
    classes = {nm: type("C13Multi_" + nm, (_RecordingStub,), {"LOGICS": [T.named[x] for x in ls]}) for nm, ls in specs}
    for prefs in (["all", "boolonly"], ["boolonly", "all"]):
        with StubFactory(classes, prefs):
            for cl in sets:
                for entry in ("get_unsat_core", "binary_interpolant", "sequence_interpolant"):
                    if not cl and entry != "get_unsat_core":
                        continue
                    for name in (None, "all"):
                        for mode, kw in (("omitted", {}), ("None", {"logic": None}), ("AUTO", {"logic": PL.AUTO})):
                            o = entry_outcome(entry, list(cl), name, kw, classes)
                            rp = {"kind": "factory-multi", "entry": entry, "mode": mode, "solver_name": name,
                                  "formulas": [g.serialize() for g in cl], "wires": [wire.enc_term(g) for g in cl],
                                  "prefs": prefs}
                            check_received(ctx, entry, mode, name, o, rp)
                            ctx.case(("multi", entry, mode, name, tuple(g.serialize() for g in cl)) if len(cl) > 1 else None)
                            ctx.count("multi_" + (o[0] if o[0] == "ok" else str(o[1])))


def factory_entry_points(ctx, T, lean_ok):
    from pysmt.oracles import get_logic
    r = ctx.rng
    env = get_env()
    sh = Shapes(env)
    m = env.formula_manager
    I, R = m.Int, m.Real
    formulas = [("bool", m.And(sh.b, m.Not(sh.b2))), ("idl", m.LE(m.Minus(sh.x, sh.y), I(3))),
                ("lia", m.LE(m.Plus(sh.x, sh.y), sh.z)), ("lra", m.LT(m.Plus(sh.r, sh.s), R(1))),
                ("bv", m.BVULT(m.BVAdd(sh.v, sh.w), sh.w)), ("nia", m.Equals(m.Times(sh.x, sh.y), I(6))),
                ("qlia", m.Exists([sh.y], m.GT(m.Plus(sh.y, sh.y), sh.x))),
                ("qbool", m.ForAll([sh.b], m.Or(sh.b, sh.b2))), ("uflira", m.LT(m.ToReal(sh.app(sh.fII, sh.x)), sh.r)),
                ("arr", m.Equals(m.Select(sh.aii, sh.x), sh.y)), ("str", m.Equals(m.StrLength(sh.st), sh.x))]
    by = T.named
    fixed = [("boolonly", ["BOOL"]), ("qfbool", ["QF_BOOL"]), ("lia", ["LIA", "QF_UFLIRA"]), ("bv", ["QF_BV", "BV"]),
             ("big", ["QF_AUFBVLIRA", "UFLIRA", "QF_NIA", "QF_SLIA"])]
    n_scen = 3 if ctx.tier == "quick" else 12
    b = Batch()
    for sc in range(n_scen):
        specs = list(fixed) if sc == 0 else r.sample(fixed, r.choice([2, 3, 4]))
        if sc > 0:
            for k in range(r.choice([0, 1, 2])):
                specs.append(("rnd%d" % k, [l.name for l in r.sample(T.table, r.choice([1, 2, 4]))]))
        classes = {nm: type("C13Entry_" + nm, (_RecordingStub,), {"LOGICS": [by[x] for x in ls]}) for nm, ls in specs}
        names = [nm for nm, _ in specs]
        prefs = list(names) if sc == 0 else r.sample(names, len(names))
        with StubFactory(classes, prefs) as fac:
            defaults = {"Solver": fac.default_logic, "Solver supporting Unsat Cores": fac.default_logic,
                        "Quantifier Eliminator": fac.default_qe_logic, "Interpolator": fac._default_interpolation_logic,
                        "Optimizer": fac._default_optimizer_logic}
            for tag, f in formulas:
                need, quant, extra = features(f)
                nb = need_bits(dict(extra, **need))
                det = outcome(get_logic, f)
                for entry in FORMULA_ENTRIES + (CTOR_ENTRIES if tag == "bool" else []):
                    ctor = entry in CTOR_ENTRIES
                    for name in (None, r.choice(names)):
                        explicit = r.choice(T.table) if r.random() < 0.5 or det[0] != "ok" else det[1]
                        modes = [("omitted", {}), ("None", {"logic": None}), ("AUTO", {"logic": PL.AUTO}),
                                 ("object", {"logic": explicit}), ("string", {"logic": explicit.name})]
                        res = {}
                        for mode, kw in modes:
                            o = entry_outcome(entry, f, name, kw, classes)
                            res[mode] = o
                            rp = {"kind": "factory-entry", "entry": entry, "mode": mode, "solver_name": name,
                                  "formula": f.serialize(), "wire": wire.enc_term(f), "tag": tag,
                                  "explicit": list(lkey(explicit)), "prefs": prefs,
                                  "solvers": [[nm, ls] for nm, ls in specs]}
                            sig = {"oracle": "factory-entry", "entry": entry, "mode": mode}
                            ctx.case(("entry", entry, mode, tag, name is None, o[0] == "ok"))
                            ctx.count("entry_" + (o[0] if o[0] == "ok" else o[1]))
                            # the target the call is about
                            if mode in ("object", "string"):
                                target = explicit
                            elif ctor:
                                target = None if mode == "AUTO" else defaults[ENTRY_KIND[entry]]
                                if name is not None and mode != "AUTO":
                                    target = None       # most generic logic of the class / default: covered by K
                            else:
                                target = det[1] if det[0] == "ok" else None
                                if det[0] != "ok" and o != ("err", det[1]):
                                    ctx.report_s(dict(sig, axiom="detection-error"),
                                                 "%s(%s, logic %s): get_logic raises %s but the call gives %s" % (
                                                     entry, f.serialize()[:80], mode, det[1], o[:2]), rp)
                            if o[0] == "ok" and target is not None:
                                cls, L = classes[o[1]], o[2]
                                why = None
                                if not any(target <= l for l in cls.LOGICS):
                                    why = "selects %s, none of whose LOGICS is above %s" % (o[1], target.name)
                                elif not isinstance(L, PL.Logic) or not any(L is l for l in cls.LOGICS):
                                    why = "creates %s with %s, not one of its LOGICS" % (o[1], L)
                                elif not (target <= L) or uncovered(tbits(L.theory), tbits(target.theory)) or \
                                        (not target.quantifier_free and L.quantifier_free):
                                    why = "creates %s with logic %s, which cannot express %s" % (o[1], L.name, target.name)
                                elif not ctor and mode in ("omitted", "None", "AUTO") and \
                                        (uncovered(tbits(L.theory), nb) or (quant and L.quantifier_free)):
                                    why = "hands the formula to %s with logic %s, which cannot express it" % (o[1], L.name)
                                if why:
                                    ctx.report_s(dict(sig, axiom="spec"),
                                                 "%s(`%s`, solver_name=%s, logic=%s) %s" % (
                                                     entry, f.serialize()[:100], name, mode if mode in ("omitted", "None", "AUTO")
                                                     else explicit.name, why), rp)
                            if not ctor and mode in ("omitted", "None", "AUTO"):
                                check_received(ctx, entry, mode, name, o, rp)   # an explicit logic is the caller's choice
                            # K against the model of _get_solver_class composed with the wrapper
                            if lean_ok and mode != "AUTO" or (lean_ok and not ctor):
                                if mode in ("object", "string"):
                                    ltok = T.tok(explicit)
                                elif ctor:
                                    ltok = "-"
                                elif det[0] == "ok":
                                    ltok = T.tok(det[1])
                                else:
                                    ltok = None
                                if ltok is not None and not (ctor and mode == "AUTO"):
                                    exp = ("ok %s %s %d %s" % (o[1], o[2].name, 1 if o[2].quantifier_free else 0, tbits(o[2].theory))
                                           if o[0] == "ok" and isinstance(o[2], PL.Logic) else "err " + str(o[1]))
                                    line = "factory %s %s %s %d %s %d %s" % (
                                        T.tok(defaults[ENTRY_KIND[entry]]), name if name is not None else "-", ltok,
                                        len(prefs), " ".join(prefs), len(specs),
                                        " ".join("%s %d %s" % (nm, len(ls), " ".join("n:" + x for x in ls)) for nm, ls in specs))
                                    b.add(" ".join(line.split()), exp, "%s %s logic=%s name=%s" % (entry, tag, mode, name))
                        # omitted / None / AUTO must behave alike
                        if not ctor:
                            base = res["omitted"]
                            for mode in ("None", "AUTO"):
                                if res[mode][:2] != base[:2] or (base[0] == "ok" and not same(res[mode][2], base[2])):
                                    ctx.report_s({"oracle": "factory-entry", "entry": entry, "mode": mode, "axiom": "auto-modes-agree"},
                                                 "%s(`%s`, solver_name=%s): logic omitted gives %s but logic=%s gives %s" % (
                                                     entry, f.serialize()[:100], name, show_entry(base), mode, show_entry(res[mode])),
                                                 {"kind": "factory-entry", "entry": entry, "mode": mode, "solver_name": name,
                                                  "formula": f.serialize(), "wire": wire.enc_term(f), "tag": tag,
                                                  "explicit": list(lkey(explicit)), "prefs": prefs,
                                                  "solvers": [[nm, ls] for nm, ls in specs]})
    if lean_ok:
        b.run(ctx, "factory-entry")


def show_entry(o):
    return "%s with %s" % (o[1], o[2].name if isinstance(o[2], PL.Logic) else o[2]) if o[0] == "ok" else "err " + str(o[1])


def quantified_version(ctx, T):
    """Logic.get_quantified_version: a quantified logic above the receiver (or NoLogicAvailableError)"""
    for l in T.table:
        o = outcome(l.get_quantified_version)
        ctx.case(("qv", l.name))
        if o[0] == "err":
            if o[1] != "NoLogicAvailableError" or not l.quantifier_free:
                ctx.report_s({"oracle": "quantified-version", "axiom": "exception", "error": o[1]},
                             "%s.get_quantified_version() raises %s" % (l.name, o[1]),
                             {"kind": "order", "logics": [list(lkey(l))]})
            continue
        q = o[1]
        if q.quantifier_free or not (l <= q):
            ctx.report_s({"oracle": "quantified-version", "axiom": "spec"},
                         "%s.get_quantified_version() = %s is not a quantified logic above it" % (l.name, q.name),
                         {"kind": "order", "logics": [list(lkey(l)), list(lkey(q))]})

# ------------------------------------------------------------------------------------------------- detection
ARITH_OPS = {op.PLUS, op.MINUS, op.TIMES, op.DIV, op.POW, op.LE, op.LT}
INT_RESULT = {op.STR_LENGTH, op.STR_INDEXOF, op.STR_TO_INT, op.BV_TONATURAL}


def sort_features(ty, via, need):
    """flags a sort needs, recursively (arrays: index and element sorts)"""
    if ty.is_bool_type():
        return
    if ty.is_int_type():
        need.setdefault("integer_arithmetic", via)
    elif ty.is_real_type():
        need.setdefault("real_arithmetic", via)
    elif ty.is_bv_type():
        need.setdefault("bit_vectors", via)
    elif ty.is_string_type():
        need.setdefault("strings", via)
    elif ty.is_array_type():
        need.setdefault("arrays", via)
        sort_features(ty.index_type, via, need)
        sort_features(ty.elem_type, via, need)
    elif ty.is_function_type():
        need.setdefault("uninterpreted", via)
        for p in ty.param_types:
            sort_features(p, "function-signature", need)
        sort_features(ty.return_type, "function-signature", need)
    else:
        need.setdefault("custom_type", via)


def free_symbols(f, memo):
    """ids of the symbols (function names included) that occur free in `f`; own computation, bottom-up"""
    stack = [(f, False)]
    while stack:
        n, done = stack.pop()
        k = id(n)
        if k in memo:
            continue
        if not done:
            stack.append((n, True))
            for c in n.args():
                if id(c) not in memo:
                    stack.append((c, False))
            continue
        if n.is_symbol():
            r = frozenset([k])
        else:
            r = frozenset().union(*[memo[id(c)] for c in n.args()]) if n.args() else frozenset()
            if n.is_function_application():
                r = r | frozenset([id(n.function_name())])
            elif n.is_quantifier():
                r = r - frozenset(id(v) for v in n.quantifier_vars())
        memo[k] = r
    return memo[id(f)]


def has_nonconstant(f, memo):
    """does the term contain a free symbol (i.e. is it not a ground expression)"""
    return len(free_symbols(f, memo)) > 0


def node_sort(n, memo):
    """sort of an arithmetic-relevant node, computed bottom-up from the leaves (not by pysmt's type checker)"""
    k = id(n)
    if k in memo:
        return memo[k]
    t = n.node_type()
    if n.is_symbol():
        r = n.symbol_type()
    elif n.is_function_application():
        r = n.function_name().symbol_type().return_type
    elif t == op.INT_CONSTANT:
        r = INT
    elif t in (op.REAL_CONSTANT, op.ALGEBRAIC_CONSTANT):
        r = REAL
    elif t == op.TOREAL:
        r = REAL
    elif t in INT_RESULT:
        r = INT
    elif t == op.POW:
        r = REAL              # pySMT's typing of pow (finding F05), also the rank in Spec/HasType.lean
    elif t in (op.PLUS, op.MINUS, op.TIMES, op.DIV):
        r = node_sort(n.arg(0), memo)
    elif t == op.ITE:
        r = node_sort(n.arg(1), memo)
    elif t == op.ARRAY_SELECT:
        a = node_sort(n.arg(0), memo)
        r = a.elem_type if a is not None and a.is_array_type() else None
    elif t == op.ARRAY_STORE:
        r = node_sort(n.arg(0), memo)
    elif t == op.ARRAY_VALUE:
        e = node_sort(n.array_value_default(), memo)
        r = ArrayType(n.array_value_index_type(), e) if e is not None else None
    else:
        r = None
    memo[k] = r
    return r


def features(f):
    """-> (need, quantified?, extra)   independent of pysmt.oracles.
    `need`: feature -> what introduced it, exactly the definition of lean/PySMT/Spec/Features.lean (`features`);
    `extra`: needs derived from operand sorts (an arithmetic operator over Int/Real operands needs that
    arithmetic, int.to.str / str.substr / str.at have integer operands) -- implied by `need` on well-sorted
    formulas, checked all the same."""
    need, extra = {}, {}
    quant = False
    seen = set()
    stack = [f]
    fv_memo, sort_memo = {}, {}
    while stack:
        n = stack.pop()
        if id(n) in seen:
            continue
        seen.add(id(n))
        t = n.node_type()
        name = op.op_to_str(t)
        if n.is_symbol():
            sort_features(n.symbol_type(), "sort-of-symbol", need)
        elif n.is_function_application():
            need.setdefault("uninterpreted", "op:FUNCTION")
            ft = n.function_name().symbol_type()
            for p in ft.param_types:
                sort_features(p, "function-signature", need)
            sort_features(ft.return_type, "function-signature", need)
        elif t == op.INT_CONSTANT:
            need.setdefault("integer_arithmetic", "constant")
        elif t in (op.REAL_CONSTANT, op.ALGEBRAIC_CONSTANT):
            need.setdefault("real_arithmetic", "constant")
        elif t == op.BV_CONSTANT:
            need.setdefault("bit_vectors", "constant")
        elif t == op.STR_CONSTANT:
            need.setdefault("strings", "constant")
        elif n.is_quantifier():
            quant = True
            for v in n.quantifier_vars():
                sort_features(v.symbol_type(), "sort-of-bound-variable", need)
        elif t in op.BV_OPERATORS or t in op.BV_RELATIONS:
            need.setdefault("bit_vectors", "op:" + name)
        elif t == op.BV_TONATURAL:
            need.setdefault("bit_vectors", "op:" + name)
            need.setdefault("integer_arithmetic", "op:" + name)
        elif t in op.STR_OPERATORS or t in op.STR_RELATIONS:
            need.setdefault("strings", "op:" + name)
            if t in INT_RESULT:
                need.setdefault("integer_arithmetic", "op:" + name)
            elif t in (op.INT_TO_STR, op.STR_SUBSTR, op.STR_CHARAT):
                extra.setdefault("integer_arithmetic", "op:" + name)
        elif t == op.TOREAL:
            need.setdefault("real_arithmetic", "op:" + name)
            need.setdefault("integer_arithmetic", "op:" + name)
        elif t in (op.ARRAY_SELECT, op.ARRAY_STORE):
            need.setdefault("arrays", "op:" + name)
        elif t == op.ARRAY_VALUE:
            need.setdefault("arrays", "op:" + name)
            need.setdefault("arrays_const", "op:" + name)
            sort_features(n.array_value_index_type(), "array-value-index-sort", need)
        if t in ARITH_OPS:
            s = node_sort(n.arg(0), sort_memo)
            if s is not None and s.is_int_type():
                extra.setdefault("integer_arithmetic", "op:" + name)
            elif s is not None and s.is_real_type():
                extra.setdefault("real_arithmetic", "op:" + name)
        if t == op.TIMES:
            if sum(1 for a in n.args() if has_nonconstant(a, fv_memo)) >= 2:
                need.setdefault("nonlinear", "op:TIMES")
        elif t == op.DIV:
            if has_nonconstant(n.arg(1), fv_memo):
                need.setdefault("nonlinear", "op:DIV")
        elif t == op.POW:
            need.setdefault("nonlinear", "op:POW")
        stack.extend(n.args())
    return need, quant, extra


DL_ARITH = {op.PLUS, op.MINUS, op.TIMES, op.DIV, op.POW, op.TOREAL}


def signed_leaves(t, sign, out):
    if t.node_type() == op.MINUS and len(t.args()) == 2:
        signed_leaves(t.arg(0), sign, out)
        signed_leaves(t.arg(1), not sign, out)
    elif t.node_type() not in (op.INT_CONSTANT, op.REAL_CONSTANT):
        out.append((t, sign))


def difference_constraint(l, r):
    ls = []
    signed_leaves(l, True, ls)
    signed_leaves(r, False, ls)
    pos = [t for t, s in ls if s]
    neg = [t for t, s in ls if not s]
    p2 = list(pos)
    for t in neg:
        if t in p2:
            p2.remove(t)
    n2 = list(neg)
    for t in pos:
        if t in n2:
            n2.remove(t)
    return len(p2) <= 1 and len(n2) <= 1


def not_dl_reason(f, kind):
    """None when `f` is in difference logic over the sort `kind` (INT or REAL) by the definition of
    lean/PySMT/Spec/Features.lean (`isDL`), otherwise why not"""
    memo = {}
    stack = [(f, False)]
    seen = set()
    while stack:
        n, inside = stack.pop()
        if (id(n), inside) in seen:
            continue
        seen.add((id(n), inside))
        t = n.node_type()
        if t in DL_ARITH and node_sort(n, memo) == kind:
            if t != op.MINUS:
                return "op:" + op.op_to_str(t)
            if not inside:
                return "minus-outside-atom"
            stack.extend((a, True) for a in n.args())
        elif t in (op.EQUALS, op.LE, op.LT) and n.args() and node_sort(n.arg(0), memo) == kind:
            if len(n.args()) != 2 or not difference_constraint(n.arg(0), n.arg(1)):
                return "atom-not-difference"
            stack.extend((a, True) for a in n.args())
        else:
            stack.extend((a, False) for a in n.args())
    return None


def has_int_pow(f):
    """does the formula contain a `pow` whose base is an integer term (typed Real by pySMT: finding F05)"""
    seen, stack, memo = set(), [f], {}
    while stack:
        n = stack.pop()
        if id(n) in seen:
            continue
        seen.add(id(n))
        if n.node_type() == op.POW:
            s = node_sort(n.arg(0), memo)
            if s is not None and s.is_int_type():
                return True
        stack.extend(n.args())
    return False


def need_bits(need):
    bits = []
    for f in FIELDS:
        if f == "linear":
            bits.append("0" if "nonlinear" in need else "1")
        else:
            bits.append("1" if f in need else "0")
    return "".join(bits)


class Shapes:
    """hand-written formulas for the operator mixes the property cites"""

    def __init__(self, env):
        self.env = env
        m = self.m = env.formula_manager
        tm = env.type_manager
        self.U = tm.Type("U13", 0)
        self.V = tm.Type("V13", 0)
        S = m.Symbol
        self.b, self.b2 = S("c13_b", BOOL), S("c13_b2", BOOL)
        self.x, self.y, self.z = S("c13_x", INT), S("c13_y", INT), S("c13_z", INT)
        self.r, self.s = S("c13_r", REAL), S("c13_s", REAL)
        self.v, self.w = S("c13_v", BVType(8)), S("c13_w", BVType(8))
        self.st, self.su = S("c13_st", STRING), S("c13_su", STRING)
        self.u, self.u2 = S("c13_u", self.U), S("c13_u2", self.U)
        self.vv = S("c13_vv", self.V)
        self.aii = S("c13_aii", ArrayType(INT, INT))
        self.abr = S("c13_abr", ArrayType(BVType(8), REAL))
        self.aus = S("c13_aus", ArrayType(self.U, STRING))
        self.aia = S("c13_aia", ArrayType(INT, ArrayType(INT, BVType(8))))
        F = FunctionType
        self.fUV = S("c13_fUV", F(self.V, [self.U]))
        self.gIU = S("c13_gIU", F(self.U, [INT]))
        self.hUB = S("c13_hUB", F(BOOL, [self.U]))
        self.kRV = S("c13_kRV", F(INT, [REAL, self.V]))
        self.fBVU = S("c13_fBVU", F(self.U, [BVType(8)]))
        self.fSB = S("c13_fSB", F(BOOL, [STRING]))
        self.fII = S("c13_fII", F(INT, [INT]))
        self.fRR = S("c13_fRR", F(REAL, [REAL]))
        self.fBB = S("c13_fBB", F(BOOL, [BOOL]))
        self.fRB = S("c13_fRB", F(BOOL, [REAL]))
        self.gBI = S("c13_gBI", F(INT, [BOOL]))
        self.gBU = S("c13_gBU", F(self.U, [BOOL, INT]))
        self.aBI = S("c13_aBI", ArrayType(BOOL, INT))
        self.aIB = S("c13_aIB", ArrayType(INT, BOOL))
        self.fAI = S("c13_fAI", F(ArrayType(INT, REAL), [INT]))

    def all(self):
        m = self.m
        I, R = m.Int, m.Real
        x, y, z, r, s, b, b2, v, w, st, su, u, u2, vv = (self.x, self.y, self.z, self.r, self.s, self.b, self.b2,
                                                         self.v, self.w, self.st, self.su, self.u, self.u2, self.vv)
        out = []
        A = out.append
        # string produced from an integer
        A(("int-to-str", m.Equals(m.IntToStr(x), m.IntToStr(y))))
        A(("int-to-str", m.GT(m.StrLength(m.IntToStr(x)), I(0))))
        A(("int-to-str", m.StrContains(m.IntToStr(m.Plus(x, I(1))), m.IntToStr(I(0)))))
        A(("int-to-str", m.Equals(m.StrCharAt(m.IntToStr(x), I(0)), m.StrCharAt(m.IntToStr(y), I(0)))))
        A(("str-int", m.Equals(m.StrToInt(st), x)))
        A(("str-int", m.LT(m.StrIndexOf(st, su, I(0)), m.StrLength(st))))
        A(("str", m.Equals(m.StrConcat(st, su), m.StrReplace(st, su, m.String("a")))))
        A(("str", m.StrPrefixOf(m.StrSubstr(st, I(0), x), su)))
        # sorts bound only by a quantifier
        qv = m.Symbol("c13_qv", BVType(8))
        qr = m.Symbol("c13_qr", REAL)
        qi = m.Symbol("c13_qi", INT)
        qs = m.Symbol("c13_qs", STRING)
        qu = m.Symbol("c13_qu", self.U)
        qa = m.Symbol("c13_qa", ArrayType(INT, REAL))
        for q in (qv, qr, qi, qs, qu, qa):
            A(("bound-only", m.ForAll([q], b)))
            A(("bound-only", m.Exists([q], m.Or(b, b2))))
            A(("bound-only", m.And(b2, m.Not(m.ForAll([q, m.Symbol("c13_qb", BOOL)], m.Implies(b, b2))))))
        A(("bound-used", m.ForAll([qv], m.Equals(m.BVAdd(qv, v), w))))
        A(("bound-used", m.Exists([qi], m.LT(qi, x))))
        A(("bound-used", m.ForAll([qu], self.app(self.hUB, qu))))
        A(("bound-used", m.ForAll([qa], m.Equals(m.Select(qa, x), r))))
        A(("quant-bool", m.ForAll([m.Symbol("c13_qb", BOOL)], m.Or(m.Symbol("c13_qb", BOOL), b))))
        # quantifiers nested inside TERMS: reachable only through an operand of a relation / an argument of a
        # function / an array index or element
        qy = m.Symbol("c13_qy", INT)
        qbb = m.Symbol("c13_qb", BOOL)
        qbodies = [m.Exists([qy], m.GT(qy, x)), m.ForAll([qbb], m.Or(qbb, b)), m.ForAll([qv], m.BVULE(qv, v)),
                   m.Not(m.Exists([qy, qbb], m.And(qbb, m.LE(qy, y))))]
        for q in qbodies:
            iti, itr = m.Ite(q, I(1), I(0)), m.Ite(q, R(1), r)
            itv, its, itu = m.Ite(q, v, w), m.Ite(q, st, su), m.Ite(q, u, u2)
            for rel in (m.Equals, m.LE, m.LT, m.GE, m.GT):
                A(("quant-in-term", rel(iti, z)))
                A(("quant-in-term", rel(s, itr)))
            for rel in (m.Equals, m.BVULT, m.BVULE, m.BVSLT, m.BVSLE):
                A(("quant-in-term", rel(itv, w)))
            for rel in (m.Equals, m.StrContains, m.StrPrefixOf, m.StrSuffixOf):
                A(("quant-in-term", rel(its, su)))
            A(("quant-in-term", m.Equals(itu, u)))
            A(("quant-in-term", m.Equals(m.Plus(iti, x), m.Times(I(2), z))))
            A(("quant-in-term", m.Equals(self.app(self.gBI, q), z)))
            A(("quant-in-term", m.LE(self.app(self.gBI, q), z)))
            A(("quant-in-term", m.Equals(self.app(self.gBU, q, x), u)))
            A(("quant-in-term", self.app(self.fBB, q)))
            A(("quant-in-term", m.LE(m.Select(self.aBI, q), z)))
            A(("quant-in-term", m.Equals(m.Select(m.Array(BOOL, I(0)), q), z)))
            A(("quant-in-term", m.Equals(m.Store(self.aIB, x, q), self.aIB)))
            A(("quant-in-term", m.Equals(m.Store(self.aBI, q, y), self.aBI)))
            A(("quant-in-term", m.Equals(m.Array(INT, m.Bool(True), {I(3): q}), self.aIB)))
            A(("quant-in-term", m.Equals(m.StrLength(its), m.BVToNatural(itv))))
            A(("quant-in-term", m.And(b, m.Not(m.LT(iti, z)))))
        # division
        A(("div-by-var", m.Equals(m.Div(R(3), r), R(1))))
        A(("div-by-var", m.Equals(m.Div(r, s), R(1))))
        A(("div-by-var", m.LE(m.Div(x, y), I(1))))
        A(("div-by-var", m.LE(m.Div(I(7), m.Plus(y, I(1))), I(1))))
        A(("div-by-var", m.LE(m.Div(R(1), self.app(self.fRR, R(2))), R(1))))
        A(("div-by-var", m.LE(m.Div(R(1), m.Ite(b, r, R(2))), R(1))))
        A(("div-by-const", m.LE(m.Div(r, R(2)), R(1))))
        A(("div-by-const", m.LE(m.Div(x, I(3)), y)))
        A(("div-by-const", m.LE(m.Div(r, m.Plus(R(2), R(1))), R(1))))
        A(("div-by-zero", m.LE(m.Div(r, R(0)), R(1))))
        # products
        A(("times-nonlinear", m.Equals(m.Times(x, y), I(6))))
        A(("times-nonlinear", m.Equals(m.Times(x, x), I(4))))
        A(("times-nonlinear", m.LE(m.Times(m.Plus(r, R(1)), m.Minus(s, R(1))), R(0))))
        A(("times-nonlinear", m.Equals(m.Times(self.app(self.fII, I(1)), self.app(self.fII, I(2))), I(0))))
        A(("times-nonlinear", m.Equals(m.Times(I(2), x, y), I(0))))
        A(("times-nonlinear", m.Equals(m.Times(x, m.Ite(b, y, I(2))), I(0))))
        A(("times-linear", m.Equals(m.Times(I(2), x), y)))
        A(("times-linear", m.Equals(m.Times(m.Plus(I(2), I(3)), x), y)))
        A(("times-linear", m.LE(m.Times(r, R(Fraction(1, 3))), s)))
        A(("pow", m.LE(m.Pow(r, R(2)), R(4))))
        A(("pow", m.LE(m.Pow(m.Plus(r, s), R(3)), R(8))))
        A(("pow-int", m.LT(m.Pow(x, I(2)), m.Pow(y, I(3)))))
        A(("pow-int", self.app(self.fRB, m.Pow(x, I(2)))))
        # difference logic shaped (not a covered feature, but must still be covered by the answer)
        A(("difference", m.LE(m.Minus(x, y), I(3))))
        A(("difference", m.LE(x, y)))
        A(("difference", m.Equals(m.Minus(x, y), I(-2))))
        A(("difference", m.GT(m.Minus(x, m.Minus(I(5), I(2))), y)))
        A(("difference", m.LE(m.Minus(self.app(self.fII, x), y), I(3))))
        A(("difference", m.LE(R(3), m.Minus(r, s))))
        A(("not-difference", m.LE(m.Minus(m.Minus(x, y), z), I(0))))
        A(("not-difference", m.LE(m.Minus(x, I(3)), m.Minus(y, z))))
        A(("not-difference", m.LE(m.Minus(x, y), z)))
        A(("not-difference", m.LE(m.Minus(I(3), x), y)))
        A(("not-difference", m.LT(m.Minus(m.Minus(r, s), m.Minus(s, r)), R(1))))
        A(("not-difference", m.LE(self.app(self.fII, m.Minus(x, y)), I(3))))
        A(("not-difference", m.LE(m.Ite(b, m.Minus(x, y), z), I(3))))
        A(("not-difference", m.Equals(m.Select(self.aii, m.Minus(x, y)), I(3))))
        A(("not-difference", m.LE(m.create_node(op.DIV, (r, R(2))), R(1))))
        A(("not-difference", m.LE(m.Plus(x, y), I(3))))
        A(("not-difference", m.LE(m.Times(I(2), x), y)))
        A(("difference", m.LT(m.Minus(r, s), R(3))))
        A(("linear", m.LE(m.Plus(x, y, I(1)), z)))
        A(("lira", m.LT(m.ToReal(x), r)))
        A(("lira", m.Equals(m.Plus(m.ToReal(x), r), R(0))))
        # arrays, constant arrays inside stores
        ca = m.Array(INT, I(0))
        A(("const-array", m.Equals(m.Select(m.Store(m.Store(ca, x, y), y, I(1)), z), I(0))))
        A(("const-array", m.Equals(m.Store(self.aii, x, y), m.Store(ca, I(1), I(2)))))
        A(("const-array", m.Equals(m.Select(m.Array(BVType(8), m.BV(0, 8)), v), w)))
        A(("const-array", m.Equals(m.Select(m.Array(self.U, I(0)), u), x)))
        A(("const-array", m.Equals(m.Select(m.Array(INT, R(0), {I(1): r}), x), s)))
        A(("const-array", m.Equals(m.Select(m.Select(m.Array(INT, m.Array(INT, m.BV(1, 8))), x), y), v)))
        A(("const-array", m.Equals(m.Store(self.aia, x, m.Array(INT, v)), self.aia)))
        A(("const-array", m.Iff(m.Select(m.Array(REAL, m.Bool(True)), r), b)))
        A(("const-array", m.Equals(m.Select(m.Array(STRING, I(0)), st), x)))
        A(("arrays", m.Equals(m.Select(self.aii, x), y)))
        A(("arrays", m.GT(m.Select(self.abr, v), R(0))))
        A(("arrays", m.Equals(m.Select(self.aus, u), st)))
        A(("arrays", m.Equals(m.Select(m.Select(self.aia, x), y), v)))
        A(("arrays", m.Equals(self.aii, m.Store(self.aii, I(0), I(0)))))
        # uninterpreted symbols and custom sorts in signatures
        A(("custom-sort-signature", self.app(self.hUB, self.app(self.gIU, x))))
        A(("custom-sort-signature", m.Equals(self.app(self.fUV, u), vv)))
        A(("custom-sort-signature", m.Equals(self.app(self.gIU, I(1)), u)))
        A(("custom-sort-signature", m.LE(self.app(self.kRV, R(Fraction(3, 2)), vv), I(0))))
        A(("custom-sort-signature", m.Equals(self.app(self.fBVU, v), u2)))
        A(("custom-sort-signature", m.Equals(self.app(self.fBVU, m.BV(3, 8)), self.app(self.gIU, I(3)))))
        A(("custom-sort", m.Equals(u, u2)))
        A(("custom-sort", m.Equals(m.Ite(b, u, u2), u)))
        A(("uf", self.app(self.fSB, st)))
        A(("uf", self.app(self.fSB, m.String("abc"))))
        A(("uf", self.app(self.fBB, b)))
        A(("uf", m.Equals(self.app(self.fII, x), y)))
        A(("uf", m.Equals(self.app(self.fRR, R(1)), R(2))))
        A(("uf-array-result", m.Equals(m.Select(self.app(self.fAI, x), y), r)))
        A(("uf-array-result", m.Equals(m.Select(self.app(self.fAI, I(0)), I(1)), R(1))))
        # functions of arity 2 and 3 whose RETURN sort is contributed by nothing else in the formula
        F = FunctionType
        S = m.Symbol
        rets = [("Int", INT), ("Real", REAL), ("String", STRING), ("BV4", BVType(4)), ("U", self.U),
                ("ArrIntReal", ArrayType(INT, REAL)), ("ArrUBV", ArrayType(self.V, BVType(4)))]
        argsets = [([BVType(8), BVType(8)], [v, w]), ([BOOL, BOOL], [b, b2]), ([BVType(8), BOOL, BVType(8)], [v, b, w]),
                   ([self.V, self.V], [vv, vv])]
        for rn, rt in rets:
            for k, (ats, avs) in enumerate(argsets):
                if any(a == rt for a in ats):
                    continue
                f1 = S("c13_ret_%s_%d_f" % (rn, k), F(rt, ats))
                g1 = S("c13_ret_%s_%d_g" % (rn, k), F(rt, ats))
                A(("ret-sort-only", m.Equals(self.app(f1, *avs), self.app(g1, *avs))))
                # … also when the application occurs only as an argument of another function
                h1 = S("c13_ret_%s_%d_h" % (rn, k), F(BOOL, [rt, BOOL]))
                A(("ret-sort-only", self.app(h1, self.app(f1, *avs), b)))
                h2 = S("c13_ret_%s_%d_h2" % (rn, k), F(BOOL, [BOOL, rt, rt]))
                A(("ret-sort-only", self.app(h2, b2, self.app(f1, *avs), self.app(g1, *reversed(avs)))))
        # bit-vectors
        A(("bv", m.BVULT(m.BVAdd(v, w), m.BV(3, 8))))
        A(("bv", m.Equals(m.BVToNatural(v), x)))
        A(("bv", m.Equals(m.BVConcat(v, w), m.BVZExt(v, 8))))
        A(("bv", m.Equals(m.BVExtract(v, 0, 3), m.BV(1, 4))))
        A(("bv-const-only", m.BVULT(m.BV(1, 8), m.BV(2, 8))))
        A(("bool", m.And(b, m.Not(b2))))
        A(("bool", m.Iff(b, m.Bool(True))))
        A(("const-only", m.LT(I(1), I(2))))
        A(("const-only", m.LT(R(1), R(2))))
        A(("const-only", m.Equals(m.String("a"), m.String("b"))))
        return out

    def app(self, f, *args):
        return self.m.Function(f, list(args))


def detect_check(ctx, env, tag, f, stats, route="plain"):
    from pysmt.oracles import get_logic
    from pysmt.smtlib.script import smtlibscript_from_formula
    core, quant, extra = features(f)
    core_bits = need_bits(core)
    need = dict(extra)
    need.update(core)
    nb = need_bits(need)
    w = None
    try:
        w = wire.enc_term(f)
    except Exception:
        w = None
    rp = {"kind": "detect", "tag": tag, "formula": f.serialize()[:400], "wire": w, "needs": sorted(need),
          "quantified": quant, "route": route}
    root = op.op_to_str(f.node_type())
    context = "int-pow" if has_int_pow(f) else "plain"

    def missing(kind, have_bits, qf, label):
        miss = uncovered(have_bits, nb)
        for ft in miss:
            ctx.report_s({"oracle": kind, "missing": ft, "via": need.get(ft, "?"), "context": context, "route": route},
                         ("" if route == "plain" else "[%s] " % route) + "%s of `%s` is %s: lacks %s (needed because of %s)" % (
                             kind, f.serialize()[:160], label, ft, need.get(ft, "?")), rp)
        if quant and qf:
            ctx.report_s({"oracle": kind, "missing": "quantifiers", "via": "quantifier"},
                         "%s of `%s` is %s: quantifier-free" % (kind, f.serialize()[:160], label), rp)
        return miss
    # 0. quantifier-freeness
    try:
        isqf = env.qfo.is_qf(f)
        if bool(isqf) == bool(quant):
            ctx.report_s({"oracle": "is_qf", "missing": "quantifiers" if quant else "none", "via": "quantifier",
                          "context": context},
                         "is_qf(`%s`) = %s but the formula %s a quantifier" % (
                             f.serialize()[:160], isqf, "contains" if quant else "does not contain"), rp)
    except Exception as e:
        ctx.report_s({"oracle": "is_qf", "missing": "exception", "via": type(e).__name__},
                     "is_qf(`%s`) raises %s" % (f.serialize()[:160], type(e).__name__), rp)
    # 1. the theory
    try:
        th = env.theoryo.get_theory(f)
    except Exception as e:
        ctx.report_s({"oracle": "get_theory", "missing": "exception", "via": type(e).__name__},
                     "get_theory(`%s`) raises %s: %s" % (f.serialize()[:160], type(e).__name__, str(e)[:100]), rp)
        return None
    hb = tbits(th)
    miss_t = missing("get_theory", hb, False, named_flags(hb))
    dl_why = {"integer_difference": not_dl_reason(f, INT), "real_difference": not_dl_reason(f, REAL)}
    for fl in ("integer_difference", "real_difference"):
        if flag(hb, fl) and dl_why[fl]:
            ctx.report_s({"oracle": "get_theory", "missing": "not-difference-logic", "via": dl_why[fl], "context": context},
                         "get_theory(`%s`) claims %s, but the formula is not in difference logic (%s)" % (
                             f.serialize()[:160], fl, dl_why[fl]), rp)
    if not wf_bits(hb):
        ctx.report_s({"oracle": "get_theory", "missing": "well-formed", "via": root},
                     "get_theory(`%s`) = %s is ill-formed" % (f.serialize()[:160], named_flags(hb)), rp)
    # 2. the logic
    lname = "-"
    lo = None
    try:
        lg = get_logic(f, env)
        lo = ("ok", lg)
        lname = lg.name
        if not miss_t:
            missing("get_logic", tbits(lg.theory), lg.quantifier_free, lg.name)
        for fl in ("integer_difference", "real_difference"):
            if flag(tbits(lg.theory), fl) and dl_why[fl]:
                ctx.report_s({"oracle": "get_logic", "missing": "not-difference-logic", "via": dl_why[fl],
                              "context": context},
                             "get_logic(`%s`) = %s, a difference logic, but the formula is not in difference logic (%s)" % (
                                 f.serialize()[:160], lg.name, dl_why[fl]), rp)
        stats["logic_ok"] = stats.get("logic_ok", 0) + 1
    except NoLogicAvailableError:
        stats["no_logic"] = stats.get("no_logic", 0) + 1
        lname = "none"
        lo = ("err", "NoLogicAvailableError")
    except Exception as e:
        ctx.report_s({"oracle": "get_logic", "missing": "exception", "via": type(e).__name__},
                     "get_logic(`%s`) raises %s" % (f.serialize()[:160], type(e).__name__), rp)
    # 3. the label a script gets
    script_lo = None
    if env is get_env():
        try:
            with warnings.catch_warnings():
                warnings.simplefilter("ignore")
                sc = smtlibscript_from_formula(f)
            sl = sc.commands[0].args[0]
            if isinstance(sl, PL.Logic):
                script_lo = ("ok", sl)
            if isinstance(sl, PL.Logic) and not miss_t:
                missing("set-logic", tbits(sl.theory), sl.quantifier_free, sl.name)
        except NoLogicAvailableError:
            script_lo = ("err", "NoLogicAvailableError")
        except Exception as e:
            ctx.report_s({"oracle": "set-logic", "missing": "exception", "via": type(e).__name__},
                         "smtlibscript_from_formula(`%s`) raises %s: %s" % (f.serialize()[:160], type(e).__name__, str(e)[:80]), rp)
    ctx.case((tuple(sorted(need)), quant, lname, root) if need else None)
    ctx.count("detect_logic_" + lname)
    for ft in need:
        ctx.count("detect_feature_" + ft)
    return (w, hb, core_bits, quant, lo, script_lo)



_PICKLE_ENV = []


def pickle_copy(f):
    import pickle
    return pickle.loads(pickle.dumps(f, pickle.HIGHEST_PROTOCOL))


def pickled_routes(ctx, env, tagged, stats):
    """the same formulas after a pickle round trip (how formulas reach portfolio workers): analysed as they are,
    and after normalisation into another environment; detection must cover them like the originals"""
    from pysmt.environment import Environment
    if not _PICKLE_ENV:
        _PICKLE_ENV.append(Environment())
    env2 = _PICKLE_ENV[0]
    for tag, f in tagged:
        try:
            cp = pickle_copy(f)
        except Exception as e:
            ctx.count("pickle_failed_" + type(e).__name__)
            continue
        detect_check(ctx, env, tag, cp, stats, route="pickle")
        try:
            norm = env2.formula_manager.normalize(cp)
        except Exception as e:
            ctx.count("normalize_failed_" + type(e).__name__)
            continue
        detect_check(ctx, env2, tag, norm, stats, route="pickle+normalize")
        ctx.count("pickled_formulas")


RESERVED_SORTS = [("Int", 0), ("Real", 0), ("Bool", 0), ("String", 0), ("BV{8}", 0), ("BitVec", 1), ("Array", 2),
                  ("RoundingMode", 0), ("Array{Int, Int}", 0)]


def confusable_sorts(ctx, stats, only_order=None):
    """user-declared sorts named / shaped like the built-in ones next to the built-in sorts, in ONE environment,
    in both orders; the extractor judges by what the type object is (is_array_type / is_custom_type ...)"""
    from pysmt.environment import Environment

    def user(env):
        m, tm = env.formula_manager, env.type_manager
        out = []
        for k, (name, arity) in enumerate(RESERVED_SORTS):
            decl = tm.Type(name, arity)
            sort = decl if arity == 0 else tm.get_type_instance(decl, *([INT] * arity))
            u, v = m.Symbol("c13u%d" % k, sort), m.Symbol("c13v%d" % k, sort)
            out.append(("user:%s/%d" % (name, arity), m.Equals(u, v)))
            fn = m.Symbol("c13fn%d" % k, FunctionType(BOOL, [sort, INT]))
            out.append(("user-fn:%s/%d" % (name, arity), m.Function(fn, [u, m.Int(1)])))
            q = m.Symbol("c13q%d" % k, sort)
            out.append(("user-bound:%s/%d" % (name, arity), m.ForAll([q], m.Symbol("c13b", BOOL))))
        return out

    def builtin(env):
        m = env.formula_manager
        i, j = m.Symbol("select", INT), m.Symbol("store", INT)
        r = m.Symbol("Real", REAL)
        st = m.Symbol("String", STRING)
        b = m.Symbol("bvadd", BVType(8))
        a, a2 = m.Symbol("Array", ArrayType(INT, INT)), m.Symbol("c13a2", ArrayType(INT, INT))
        ab = m.Symbol("c13ab", ArrayType(BVType(8), REAL))
        return [("builtin:Int", m.LT(i, j)), ("builtin:Real", m.LT(r, m.Real(1))),
                ("builtin:String", m.Equals(m.StrLength(st), i)), ("builtin:BV", m.BVULT(b, m.BV(3, 8))),
                ("builtin:Array", m.Equals(m.Select(a, i), j)), ("builtin:Array-store", m.Equals(m.Store(a, i, j), a2)),
                ("builtin:Array-BV-Real", m.LT(m.Select(ab, b), r)),
                ("builtin:bound-array", m.ForAll([m.Symbol("c13qa", ArrayType(INT, INT))], m.Symbol("c13b", BOOL)))]
    for order in ("user-first", "builtin-first"):
        if only_order and order != only_order:
            continue
        env = Environment()
        seq = (user(env) + builtin(env)) if order == "user-first" else (builtin(env) + user(env))
        for tag, f in seq:
            detect_check(ctx, env, tag, f, stats, route="confusable:" + order)
            ctx.count("confusable_formulas")


def detection(ctx, lean_caps):
    import gen
    env = get_env()
    stats = {}
    sh = Shapes(env)
    m = env.formula_manager
    kcases = []
    shapes = sh.all()
    for tag, f in shapes:
        r = detect_check(ctx, env, tag, f, stats)
        ctx.count("shape_" + tag)
        if r:
            kcases.append((f, r))
    pickled_routes(ctx, env, shapes, stats)
    confusable_sorts(ctx, stats)
    ctx.sample({"shape": shapes[0][0], "formula": shapes[0][1].serialize(), "needs": sorted(features(shapes[0][1])[0]),
                "theory": named_flags(tbits(env.theoryo.get_theory(shapes[0][1])))})
    # shapes inside random Boolean contexts / combined with each other
    r = ctx.rng
    n_mix = 300 if ctx.tier == "quick" else 4000
    for _ in range(n_mix):
        k = r.choice([2, 2, 3])
        parts = [r.choice(shapes)[1] for _ in range(k)]
        f = r.choice([m.And, m.Or])(parts)
        if r.random() < 0.3:
            f = m.Implies(m.Not(f), r.choice(shapes)[1])
        if r.random() < 0.2:
            f = m.ForAll([sh.x], f) if r.random() < 0.5 else m.Exists([sh.v, sh.b], f)
        res = detect_check(ctx, env, "mix", f, stats)
        if res:
            kcases.append((f, res))
    # type-directed random formulas over random theory mixes
    mixes = [("bool",), ("bool", "int"), ("bool", "real"), ("bool", "int", "real"), ("bool", "bv"), ("bool", "str", "int"),
             ("bool", "int", "arr"), ("bool", "bv", "arr"), ("bool", "uf"), ("bool", "int", "uf"), ("bool", "bv", "uf"),
             ("bool", "int", "real", "bv", "str", "arr", "uf"), ("bool", "int", "quant"), ("bool", "bv", "quant"),
             ("bool", "int", "real", "bv", "str", "arr", "uf", "quant")]
    n_rand = 1500 if ctx.tier == "quick" else 30000
    unis = [gen.Universe(env, theories=mx, prefix="c13_%d_" % i) for i, mx in enumerate(mixes)]
    shown_random = 0
    for i in range(n_rand):
        if ctx.time_left() < 25:
            break
        u = unis[i % len(unis)]
        fg = gen.FormulaGen(r, u, max_depth=r.choice([2, 3, 4]), quant_prob=0.1)
        f = fg.gen(BOOL)
        if r.random() < 0.12:
            # push the (possibly quantified) formula below a relation, reachable only through a term
            g = f if r.random() < 0.5 else m.Exists([sh.y], m.Or(f, m.LT(sh.y, sh.x)))
            k = r.randrange(4)
            if k == 0:
                f = r.choice([m.Equals, m.LE, m.LT])(m.Ite(g, m.Int(1), sh.x), sh.z)
            elif k == 1:
                f = r.choice([m.Equals, m.BVULT, m.BVSLE])(m.Ite(g, sh.v, sh.w), sh.w)
            elif k == 2:
                f = m.Equals(sh.app(sh.gBI, g), sh.z)
            else:
                f = m.LE(m.Select(sh.aBI, g), sh.z)
        res = detect_check(ctx, env, "random", f, stats)
        if i % 5 == 0:
            pickled_routes(ctx, env, [("random", f)], stats)
        if res and i % 3 == 0:
            kcases.append((f, res))
        if shown_random < 2 and len(features(f)[0]) >= 3:
            shown_random += 1
            ctx.sample({"random": f.serialize()[:200], "needs": sorted(features(f)[0]),
                        "theory": named_flags(tbits(env.theoryo.get_theory(f)))})
    ctx.extra["detection"] = dict(stats, shapes=len(shapes))
    # K for the detection model, when the driver has it
    if lean_caps and "theory" in lean_caps:
        b = Batch()
        for f, (w, hb, nb, quant, lo, script_lo) in kcases:
            if w is None:
                continue
            b.add("theory " + w, hb, "theory of " + f.serialize()[:200])
            if "features" in lean_caps:
                b.add("features " + w, nb + (" q" if quant else " qf"), "features of " + f.serialize()[:200])
            if "detect" in lean_caps and lo is not None:
                b.add("detect " + w, show_outcome(lo), "get_logic of " + f.serialize()[:200])
            if "fragment" in lean_caps:
                # the hypothesis of detect_covers_partial holds for everything pysmt builds, except `pow`
                has_pow = " pow " in (" " + w + " ")
                b.add("fragment " + w, "false" if has_pow else "true", "inFragment of " + f.serialize()[:200])
                ctx.count("detect_in_fragment" if not has_pow else "detect_out_of_fragment_pow")
            if "scriptlogic" in lean_caps and script_lo is not None:
                b.add("scriptlogic " + w, show_outcome(script_lo), "set-logic of the script of " + f.serialize()[:200])
            if "isdl" in lean_caps:
                b.add("isdl " + w, "%s %s" % ("true" if not_dl_reason(f, INT) is None else "false",
                                              "true" if not_dl_reason(f, REAL) is None else "false"),
                      "isDL int/real of " + f.serialize()[:200])
            if "sorted" in lean_caps:
                # the hypotheses of detect_covers (Spec.HasType, no pow) hold for everything pysmt builds, except `pow`
                b.add("sorted " + w, "false" if " pow " in (" " + w + " ") else "true",
                      "well-sorted and pow-free: " + f.serialize()[:200])
        b.run(ctx, "detection")
    else:
        ctx.count("k_detection_skipped_no_lean_model", len(kcases))


# ------------------------------------------------------------------------------------------------- run
def lean_caps(ctx):
    try:
        a = ctx.lean_run("C13", ["caps"])[0]
    except common.LeanError as e:
        ctx.report_l("driver C13 does not run", str(e))
        return None
    return set() if a == "bad-op" else set(a.split())


def run(ctx):
    T = Tables()
    caps = lean_caps(ctx)
    lean_ok = caps is not None
    # ---- S on the table (always)
    s_table_order(ctx, T)
    # ---- K on the table
    init_ok = {}
    if lean_ok:
        try:
            ans = ctx.lean_run("C13", ["tinfo " + ibits(i) for i in range(1 << NF)])
            for i, a in enumerate(ans):
                init_ok[ibits(i)] = a.split()[1] == "1"
            # the model's init_ok / wf against the real constructor and the harness' own definition
            for i in range(1 << NF):
                bits = ibits(i)
                kw = {f: c == "1" for f, c in zip(FIELDS, bits)}
                real = outcome(lambda: PL.Theory(**kw))[0] == "ok"
                if real != init_ok[bits] or (ans[i].split()[0] == "1") != wf_bits(bits):
                    ctx.report_k("tinfo %s: model %s, constructor accepts=%s, wf=%s" % (bits, ans[i], real, wf_bits(bits)),
                                 {"kind": "k-line", "request": "tinfo " + bits, "model": ans[i], "impl": str(real)})
                    break
        except common.LeanError as e:
            ctx.report_l("driver C13 does not run", str(e))
            lean_ok = False
    if lean_ok:
        lean_ok = k_tables(ctx, T) and lean_ok
        k_theory_ops(ctx, T, init_ok)
    # ---- raw theories
    N = 1 << NF
    if ctx.tier == "quick":
        idx = sorted(set(ctx.rng.randrange(N) for _ in range(24)) |
                     {int(tbits(l.theory), 2) for l in ctx.rng.sample(T.table, 8)})
        # chains: for a few rows also the rows of some theories above them
        rows_le = compute_rows(ctx, "le", idx)
        more = set()
        for i in idx[:12]:
            ups = [j for j, c in enumerate(rows_le[i]) if c == "1" and j != i]
            more.update(ctx.rng.sample(ups, min(6, len(ups))))
        rows_le.update(compute_rows(ctx, "le", sorted(more - set(idx))))
        cols_ge = compute_rows(ctx, "ge", idx)
        rows_comb = compute_rows(ctx, "comb", idx)
        s_raw_order(ctx, rows_le, cols_ge)
        s_raw_combine(ctx, rows_le, rows_comb)
        s_raw_sampled(ctx, 40000)
        if lean_ok:
            k_rows(ctx, rows_le, rows_comb, init_ok)
    else:
        rows_le = compute_rows(ctx, "le", range(N))
        cols_ge = compute_rows(ctx, "ge", range(N))
        s_raw_order(ctx, rows_le, cols_ge)
        del cols_ge
        if lean_ok:
            lean_ok = k_rows(ctx, rows_le, {}, init_ok)
        step = 256
        for start in range(0, N, step):           # the combine matrix in slices (200 MB as text otherwise)
            rows_comb = compute_rows(ctx, "comb", range(start, min(N, start + step)))
            s_raw_combine(ctx, rows_le, rows_comb)
            if lean_ok:
                lean_ok = k_rows(ctx, {}, rows_comb, init_ok)
        ctx.extra["exhaustive"] = True
        ctx.extra["exhaustive_what"] = ("all 4096^2 theory pairs for <= and combine, all 4096^3 triples for "
                                        "transitivity, all 79^3 triples of named logics")
        s_raw_sampled(ctx, 200000)
    # table pairs for combine (named theories; always)
    ths = sorted({tbits(l.theory) for l in T.all_named})
    for a in ths:
        for b in ths:
            check_combine_pair(ctx, a, b)
            ctx.case(("combine", a, b) if a != b else None)
    # ---- selection
    selection(ctx, T, lean_ok)
    quantified_version(ctx, T)
    factory_cases(ctx, T, lean_ok and caps is not None and "factory" in caps)
    factory_entry_points(ctx, T, lean_ok and caps is not None and "factory" in caps)
    multi_formula_entries(ctx, T)
    # ---- detection
    detection(ctx, caps)


# ------------------------------------------------------------------------------------------------- replay
def logic_of(key):
    name, qf, bits = key
    return raw_logic(name, bool(qf), bits)


def replay(ctx, rep):
    r = rep["replay"]
    T = Tables()
    k = r.get("kind")
    print("replaying", k, r)
    if k == "combine":
        ok = check_combine_pair(ctx, r["a"], r["b"])
        print("combine pair fine" if ok else "still failing")
    elif k == "theory-order":
        ts = [mk_theory(b) for b in r["theories"]]
        if len(ts) == 3:
            a, b, c = ts
            print("a<=b", a <= b, "b<=c", b <= c, "a<=c", a <= c)
            if a <= b and b <= c and not a <= c:
                ctx.report_s({"oracle": "theory-order", "axiom": "transitive"}, "still not transitive", r)
        elif len(ts) == 2:
            a, b = ts
            print("a<=b", a <= b, "b<=a", b <= a, "covers", uncovered(r["theories"][1], r["theories"][0]))
            if a <= b and b <= a and r["theories"][0] != r["theories"][1]:
                ctx.report_s({"oracle": "theory-order", "axiom": "antisymmetric"}, "still not antisymmetric", r)
            if a <= b and uncovered(r["theories"][1], r["theories"][0]):
                ctx.report_s({"oracle": "theory-order", "axiom": "le-covers",
                              "missing": uncovered(r["theories"][1], r["theories"][0])[0]}, "still not covering", r)
        else:
            if not ts[0] <= ts[0]:
                ctx.report_s({"oracle": "theory-order", "axiom": "reflexive"}, "still not reflexive", r)
    elif k in ("order", "twins", "names"):
        s_table_order(ctx, T)
        ls = [T.named.get(x[0]) or logic_of(x) for x in r["logics"]]
        if len(ls) == 3:
            a, b, c = ls
            print("a<=b", a <= b, "b<=c", b <= c, "a<=c", a <= c)
    elif k == "lookup":
        l = T.named.get(r["logic"][0]) or logic_of(r["logic"])
        check_lookup(ctx, l, r.get("set", "?"))
    elif k == "selection":
        def get(key):
            n = T.named.get(key[0])
            return n if n is not None and list(lkey(n)) == list(key) else logic_of(key)
        t = get(r["target"]) if r["target"] else None
        lst = [get(x) for x in r["supported"]] if r["supported"] is not None else None
        o = run_case(r["call"], t, lst)
        print("implementation:", show_outcome(o))
        check_selection(ctx, T, r["call"], t, lst, o)
    elif k == "detect" and str(r.get("route", "")).startswith("confusable:"):
        confusable_sorts(ctx, {}, only_order=r["route"].split(":", 1)[1])
        print("re-ran the confusable-sorts history (%s): %d violations" % (r["route"], len(ctx.s_violations)))
    elif k == "detect" and str(r.get("route", "")).startswith("pickle"):
        env = get_env()
        f = pickle_copy(build_fnode(env, wire.dec_term(r["wire"])))
        if r["route"] == "pickle+normalize":
            from pysmt.environment import Environment
            env = Environment()
            f = env.formula_manager.normalize(f)
        print("formula (%s):" % r["route"], f.serialize(), " theory:", named_flags(tbits(env.theoryo.get_theory(f))))
        detect_check(ctx, env, r.get("tag", "replay"), f, {}, route=r["route"])
    elif k == "detect":
        env = get_env()
        f = build_fnode(env, wire.dec_term(r["wire"]))
        print("formula:", f.serialize())
        print("needs:", features(f), " theory:", named_flags(tbits(env.theoryo.get_theory(f))))
        detect_check(ctx, env, r.get("tag", "replay"), f, {})
    elif k == "factory":
        def lg(key):
            n = T.named.get(key[0])
            return n if n is not None and list(lkey(n)) == list(key) else logic_of(key)
        classes = {nm: type("C13Stub_" + nm, (), {"LOGICS": [lg(x) for x in ls]}) for nm, ls in r["solvers"]}
        fac = get_env().factory
        fac.preferences["c13-stub"] = r["prefs"]
        try:
            o = outcome(lambda: fac._get_solver_class(solver_list=classes, solver_type="c13-stub",
                                                     default_logic=lg(r["default"]), name=r["name"],
                                                     logic=lg(r["logic"]) if r["logic"] else None))
        finally:
            del fac.preferences["c13-stub"]
        if o[0] == "ok":
            cls, L = o[1]
            print("implementation:", [nm for nm in classes if classes[nm] is cls], L.name)
            req = lg(r["logic"]) if r["logic"] else None
            if not any(L is l for l in cls.LOGICS) or (req is not None and not (req <= L)):
                ctx.report_s({"oracle": "factory", "axiom": "spec"}, "still wrong on replay", r)
        else:
            print("implementation:", o)
    elif k == "factory-entry":
        env = get_env()
        f = build_fnode(env, wire.dec_term(r["wire"]))
        classes = {nm: type("C13Entry_" + nm, (_RecordingStub,), {"LOGICS": [T.named[x] for x in ls]})
                   for nm, ls in r["solvers"]}
        explicit = T.named.get(r["explicit"][0]) or logic_of(r["explicit"])
        kws = {"omitted": {}, "None": {"logic": None}, "AUTO": {"logic": PL.AUTO}, "object": {"logic": explicit},
               "string": {"logic": explicit.name}}
        with StubFactory(classes, r["prefs"]):
            base = entry_outcome(r["entry"], f, r["solver_name"], kws["omitted"], classes)
            o = entry_outcome(r["entry"], f, r["solver_name"], kws[r["mode"]], classes)
        print("formula:", f.serialize(), " entry:", r["entry"], " solver_name:", r["solver_name"])
        print("logic omitted ->", show_entry(base), "   logic=%s ->" % r["mode"], show_entry(o))
        if r["mode"] in ("None", "AUTO") and r["entry"] in FORMULA_ENTRIES and \
                (o[:2] != base[:2] or (o[0] == "ok" and not same(o[2], base[2]))):
            ctx.report_s({"oracle": "factory-entry", "entry": r["entry"], "mode": r["mode"], "axiom": "auto-modes-agree"},
                         "still disagree on replay", r)
    elif k == "factory-multi":
        env = get_env()
        cl = [build_fnode(env, wire.dec_term(w)) for w in r["wires"]]
        allp = [l.name for l in T.sorted_set("PYSMT_LOGICS")]
        specs = [("all", allp), ("boolonly", ["BOOL", "QF_BOOL"])]
        classes = {nm: type("C13Multi_" + nm, (_RecordingStub,), {"LOGICS": [T.named[x] for x in ls]}) for nm, ls in specs}
        kws = {"omitted": {}, "None": {"logic": None}, "AUTO": {"logic": PL.AUTO}}
        with StubFactory(classes, r["prefs"]):
            o = entry_outcome(r["entry"], cl, r["solver_name"], kws[r["mode"]], classes)
        print(r["entry"], [g.serialize() for g in cl], "->", show_entry(o),
              "received:", [g.serialize() for g in o[3]] if o[0] == "ok" else None)
        check_received(ctx, r["entry"], r["mode"], r["solver_name"], o, r)
    elif k == "k-line":
        try:
            print("model now:", ctx.lean_run("C13", [r["request"]])[0], " recorded impl:", r["impl"])
        except common.LeanError as e:
            print("driver does not run:", e)
    if not ctx.s_violations:
        print("no violation on replay")


def ty_of(env, t):
    if t[0] == "B":
        return BOOL
    if t[0] == "I":
        return INT
    if t[0] == "R":
        return REAL
    if t[0] == "S":
        return STRING
    if t[0] == "V":
        return BVType(t[1])
    if t[0] == "A":
        return ArrayType(ty_of(env, t[1]), ty_of(env, t[2]))
    if t[0] == "F":
        return FunctionType(ty_of(env, t[1]), [ty_of(env, p) for p in t[2]])
    if t[0] == "C":
        return env.type_manager.Type(t[1], 0)
    raise ValueError(t)


def build_fnode(env, nodes):
    """decoded wire DAG -> FNode (exact node, through create_node)"""
    m = env.formula_manager
    built = []
    for (o, p, ch) in nodes:
        args = tuple(built[c] for c in ch)
        nt = wire.OPID[o]
        if o == "symbol":
            n = m.Symbol(p[1], ty_of(env, p[2]))
        elif o == "function":
            n = m.create_node(nt, args, m.Symbol(p[1], ty_of(env, p[2])))
        elif o == "boolConst":
            n = m.Bool(p[1])
        elif o == "intConst":
            n = m.Int(p[1])
        elif o == "realConst":
            n = m.Real(p[1])
        elif o == "strConst":
            n = m.String(p[1])
        elif o == "bvConst":
            n = m.BV(p[1], p[2])
        elif o in ("forall", "exists"):
            n = m.create_node(nt, args, tuple(m.Symbol(nm, ty_of(env, t)) for nm, t in p[1:]))
        elif o == "arrayValue":
            n = m.create_node(nt, args, ty_of(env, p[1]))
        elif p is None:
            n = m.create_node(nt, args)
        else:
            n = m.create_node(nt, args, tuple(p[1:]))
        built.append(n)
    return built[-1]
