"""C07 — SMT-LIB export is well-formed and denotes the same thing.

K: the text written by `to_smtlib(daggify=False/True)`, `smtlibscript_from_formula(f).serialize`, `write_smtlib` is read by
   the Lean standard reader (`Spec/Sexp.lean`) and compared, as S-expressions, with the model (`Impl/Printer.lean`:
   `toSexp`, `toSexpDag`, `scriptOfFormula`; let names exactly, declarations as a multiset). Multi-command scripts
   (SmtLibScript objects with set-logic, declare-sort/fun/const, 2-4 asserts, push/pop, check-sat; one printer object for all
   commands) are compared command by command with `scriptOfCmds`, which prints every assertion with a fresh name table.
H: before anything is printed the formula is "used elsewhere" (`use_elsewhere`: stores / selects / equalities over each of
   its array values are built and simplified, the formula is simplified and substituted): the model is history-free, so any
   effect of that history on the printed text is a K divergence and, when the meaning changes, an S failure.
S: independent of the printer model: `chk_print` elaborates the implementation's text with the standard's reading
   (`Spec/SmtlibText.lean: readStd`) in the environment of the formula's own symbols and compares sort and value under sampled
   interpretations; `chk_script` runs the serialised script through `runStd` (declared before use, declared once);
   `chk_cmds` does the same for multi-command scripts and compares every live assertion with the formula it was produced from.
"""
import io
import os
import time
import tempfile
from fractions import Fraction

import pysmt.operators as op
from pysmt.environment import Environment, push_env, pop_env
from pysmt.typing import BOOL, INT, REAL, STRING, BVType, ArrayType, FunctionType
from pysmt.smtlib.script import smtlibscript_from_formula

import common
import gen
import semantic
import wire

LEAN_MODULES = ["PySMT.Props.C07"]
RULE = ("type-directed random formulas over Bool/Int/Real/BV/String/Array/UF with quantifiers (nested, shadowing), all "
        "operators incl. indexed ones, negative / rational / huge constants, strings with quotes, array values with several "
        "assignments, parametric and plain declared sorts; symbol names drawn from a name generator (simple, needing "
        "quotes, leading digit, spaces, punctuation, `.def_k`, sort names, non-ASCII; never reserved words, theory symbols "
        "or literal spellings); every formula is printed in tree form, DAG form and as a script. A case is non-trivial "
        "when the formula has at least one application node; distinct = distinct (formula, printer) wire encodings")
ASSUMPTIONS = ["arrays: finitely supported interpretations only", "reals are rationals",
               "interpretations under which a division by zero is evaluated are skipped",
               "quantifiers are evaluated over sampled finite domains",
               "`pow` and algebraic constants have no semantics in the reference (recorded as known / out of fragment)"]

RESERVED = {
    "!", "_", "as", "BINARY", "DECIMAL", "exists", "HEXADECIMAL", "forall", "let", "match", "NUMERAL", "par", "STRING",
    "assert", "check-sat", "check-sat-assuming", "declare-const", "declare-datatype", "declare-datatypes", "declare-fun",
    "declare-sort", "define-fun", "define-fun-rec", "define-funs-rec", "define-sort", "echo", "exit", "get-assertions",
    "get-assignment", "get-info", "get-model", "get-option", "get-proof", "get-unsat-assumptions", "get-unsat-core",
    "get-value", "pop", "push", "reset", "reset-assertions", "set-info", "set-logic", "set-option"}
THEORY = {
    "true", "false", "not", "=>", "and", "or", "xor", "=", "distinct", "ite", "-", "+", "*", "div", "mod", "abs", "/", "<=",
    "<", ">=", ">", "to_real", "to_int", "is_int", "concat", "extract", "bvnot", "bvneg", "bvand", "bvor", "bvadd", "bvmul",
    "bvudiv", "bvurem", "bvshl", "bvlshr", "bvult", "bvnand", "bvnor", "bvxor", "bvxnor", "bvcomp", "bvsub", "bvsdiv",
    "bvsrem", "bvsmod", "bvashr", "repeat", "zero_extend", "sign_extend", "rotate_left", "rotate_right", "bvule", "bvugt",
    "bvuge", "bvslt", "bvsle", "bvsgt", "bvsge", "bv2nat", "int2bv", "nat2bv", "select", "store", "const", "str.++",
    "str.len", "str.<", "str.<=", "str.at", "str.substr", "str.prefixof", "str.suffixof", "str.contains", "str.indexof",
    "str.replace", "str.replace_all", "str.replace_re", "str.replace_re_all", "str.is_digit", "str.to_code",
    "str.from_code", "str.to_int", "str.from_int", "str.to_re", "str.in_re", "re.none", "re.all", "re.allchar", "re.++",
    "re.union", "re.inter", "re.*", "re.comp", "re.diff", "re.+", "re.opt", "re.range", "re.^", "re.loop",
    # spellings pySMT itself prints for operators (would be captured by the user symbol)
    "str.to.int", "int.to.str", "pow"}
SIMPLE_START = "~!@$%^&*_-+=<>.?/abcdefghijklmnopqrstuvwxyzABCDEFGHIJKLMNOPQRSTUVWXYZ"
SIMPLE_REST = SIMPLE_START + "0123456789"


def is_literal_spelling(n):
    import re
    return bool(re.fullmatch(r"[0-9]+(\.[0-9]+)?|#b[01]+|#x[0-9a-fA-F]+", n))


class NameGen:
    """symbol names of the classes the property quantifies over"""

    CLASSES = ["simple", "simple", "simple", "punct", "space", "digit", "def", "def", "sortname", "nonascii", "quoteme",
               "keywordish", "long"]

    def __init__(self, rng, allow_unspeakable=True):
        self.rng = rng
        self.used = set()
        self.allow_unspeakable = allow_unspeakable

    def _raw(self, cls):
        r = self.rng
        if cls == "simple":
            return r.choice(SIMPLE_START[17:]) + "".join(r.choice(SIMPLE_REST) for _ in range(r.randint(0, 4)))
        if cls == "punct":
            return "".join(r.choice("~!@$%^&*_-+=<>.?/") for _ in range(r.randint(1, 3))) + r.choice(["", "x", "1"])
        if cls == "space":
            return r.choice(["a b", " a", "b ", "x  y", "p q r", " "])
        if cls == "digit":
            return r.choice(["1a", "0x", "9_9", "2b|"[:2], "00a", "1.5x", "3e", "7-"])
        if cls == "def":
            return ".def_%d" % r.choice([0, 0, 1, 1, 2, 3, 4, 5, 7, 10])
        if cls == "sortname":
            return r.choice(["Int", "Real", "Bool", "String", "Array", "BitVec", "U", "Pair", "RegLan"])
        if cls == "nonascii":
            return r.choice(["é", "名前", "αβ", "x→y", "naïve", "ß1"])
        if cls == "quoteme":
            return r.choice(['a"b', "a;b", "(x)", "a,b", "it's", "#foo", "a#", "x[0]", "{k}", "a:b", "`q`", '""'])
        if cls == "keywordish":
            return r.choice([":named", ":x", "Let", "FORALL", "True", "False", "bv5", "_x", "!y", "as_", "select_", "|x"[1:]])
        if cls == "long":
            return "v" + "".join(r.choice(SIMPLE_REST) for _ in range(r.randint(20, 40)))
        if cls == "unspeakable":
            return r.choice(["a|b", "a\\b", "|", "\\", "x\\|y", "p|"])
        raise ValueError(cls)

    def fresh(self, cls=None):
        r = self.rng
        for _ in range(200):
            c = cls or (("unspeakable" if self.allow_unspeakable and r.random() < 0.012 else r.choice(self.CLASSES)))
            n = self._raw(c)
            if n and n not in self.used and n not in RESERVED and n not in THEORY and not is_literal_spelling(n):
                self.used.add(n)
                return n
        k = len(self.used)
        n = "fallback_%d" % k
        self.used.add(n)
        return n


class C07Universe(gen.Universe):
    """same shape as gen.Universe, symbols named by a NameGen, plus parametric sorts and richer function signatures"""

    def __init__(self, env, rng, names, sort_names=("U", "Pair"), widths=(1, 2, 3, 4, 8)):
        self.env = env
        self.mgr = m = env.formula_manager
        self.tm = env.type_manager
        self.theories = {"bool", "int", "real", "bv", "str", "arr", "uf", "quant"}
        self.widths = tuple(widths)
        self.names = names
        self.U = self.tm.Type(sort_names[0], 0)
        self.PairDecl = self.tm.Type(sort_names[1], 2)
        self.syms = {}

        def add(ty, k):
            self.syms.setdefault(ty, [])
            for _ in range(k):
                self.syms[ty].append(m.Symbol(names.fresh(), ty))
        add(BOOL, 3)
        add(INT, 3)
        add(REAL, 2)
        for w in self.widths:
            add(BVType(w), 2)
        add(STRING, 2)
        self.arr_types = [ArrayType(INT, INT), ArrayType(BVType(2), BOOL), ArrayType(BVType(2), BVType(2))]
        for t in self.arr_types:
            add(t, 2)
        add(self.U, 2)
        inst = self.tm.get_type_instance
        self.pair_types = [inst(self.PairDecl, INT, INT), inst(self.PairDecl, BOOL, self.U)]
        if rng.random() < 0.5:
            self.pair_types.append(inst(self.PairDecl, self.pair_types[0], BVType(4)))
        for t in self.pair_types:
            add(t, 1)
        self.funs = [
            m.Symbol(names.fresh(), FunctionType(self.U, [self.U])),
            m.Symbol(names.fresh(), FunctionType(BOOL, [self.U])),
            m.Symbol(names.fresh(), FunctionType(INT, [INT])),
            m.Symbol(names.fresh(), FunctionType(BOOL, [BOOL, INT])),
            m.Symbol(names.fresh(), FunctionType(INT, [INT, INT])),
            m.Symbol(names.fresh(), FunctionType(self.pair_types[0], [REAL, BVType(2)])),
            m.Symbol(names.fresh(), FunctionType(BOOL, [self.pair_types[1], ArrayType(INT, INT)])),
            m.Symbol(names.fresh(), FunctionType(STRING, [STRING, self.pair_types[0]])),
        ]
        # user symbols spelled like the DAG printer's let names
        self.def_like = []
        for j in range(3):
            nm = ".def_%d" % j
            if nm not in names.used and rng.random() < 0.8:
                names.used.add(nm)
                sy = m.Symbol(nm, BOOL)
                self.syms[BOOL].append(sy)
                self.def_like.append(sy)
        self.qvars = [m.Symbol(names.fresh(), BOOL), m.Symbol(names.fresh(), INT), self.syms[INT][0],
                      m.Symbol(names.fresh(), BVType(2)), self.syms[BOOL][0], m.Symbol(names.fresh(), self.U),
                      m.Symbol(names.fresh(), self.pair_types[0]), m.Symbol(names.fresh(), REAL)]


HUGE = [10 ** 40 + 7, -(10 ** 40) - 7, 2 ** 64, -(2 ** 63), 10 ** 20 + 1]
RATS = [Fraction(-7, 3), Fraction(10 ** 20 + 1, 3), Fraction(-1, 10 ** 18), Fraction(22, 7), Fraction(-5), Fraction(1, 2)]
STRS = ["", "a", 'a"b', '""', '"', "say \"hi\"", "a b", "x;y", "(", "|", "tab", "~`!@#$%^&*()_+{}[]:;'<>,.?/"]
ODD_STRS = ["é", "naïve", "\\u{61}", "a\\u0062c", "line\nbreak", "\\", "名"]


class C07Gen(gen.FormulaGen):
    """FormulaGen + the shapes C07 asks for; the operators whose printing is a known finding are generated only when
    `allow_known` (so that most formulas exercise the rest of the printer)"""

    def __init__(self, rng, universe, **kw):
        gen.FormulaGen.__init__(self, rng, universe, **kw)
        self.allow_known = False
        self.odd_strings = False

    def const(self, ty):
        r, m = self.rng, self.m
        if ty.is_int_type() and r.random() < 0.12:
            return m.Int(r.choice(HUGE))
        if ty.is_real_type() and r.random() < 0.3:
            return m.Real(r.choice(RATS))
        if ty.is_string_type():
            if self.odd_strings and r.random() < 0.5:
                return m.String(r.choice(ODD_STRS))
            return m.String(r.choice(STRS) if r.random() < 0.6 else r.choice(gen.STR_CORNERS))
        if ty.is_array_type() and r.random() < 0.6:
            d = self.const(ty.elem_type)
            assign = {}
            for _ in range(r.randint(1, 4)):
                assign[self.const(ty.index_type)] = self.const(ty.elem_type)
            return m.Array(ty.index_type, d, assign)
        return gen.FormulaGen.const(self, ty)

    def _gen_op(self, ty, depth):
        m, r, u = self.m, self.rng, self.u
        # additional shapes
        if ty.is_bool_type() and r.random() < 0.06:
            fs = [f for f in u.funs if f.symbol_type().return_type.is_bool_type()]
            f = r.choice(fs)
            return m.Function(f, [self.gen(t, depth - 1) for t in f.symbol_type().param_types])
        if ty.is_bool_type() and r.random() < 0.05:
            # nested, shadowing quantifiers
            v = r.choice(u.qvars)
            inner = m.Exists([v], self.gen(BOOL, depth - 1)) if r.random() < 0.5 else self.gen(BOOL, depth - 1)
            w = r.choice(u.qvars)
            vs = [v] if w is v or r.random() < 0.5 else [v, w]
            return (m.ForAll if r.random() < 0.5 else m.Exists)(vs, m.And(inner, self.gen(BOOL, depth - 1)))
        if ty.is_bool_type() and r.random() < 0.04:
            t = r.choice(u.pair_types + [u.U])
            a = self.gen(t, depth - 1)
            b = self.gen(t, depth - 1)
            return m.Equals(a, b)
        if ty.is_real_type() and self.allow_known and r.random() < 0.1:
            return m.Pow(self.gen(REAL, depth - 1), m.Real(r.choice([2, 3])))
        f = gen.FormulaGen._gen_op(self, ty, depth)
        if f is not None and not self.allow_known and is_known_shape(f):
            return None
        return f


def is_known_shape(f):
    nt = f.node_type()
    if nt in (op.STR_TO_INT, op.INT_TO_STR, op.POW):
        return True
    if nt == op.DIV and f.arg(0).get_type().is_int_type():
        return True
    return False


def known_ops_in(f):
    out = set()
    seen = set()
    stack = [f]
    while stack:
        n = stack.pop()
        if id(n) in seen:
            continue
        seen.add(id(n))
        nt = n.node_type()
        if nt == op.STR_TO_INT:
            out.add("str.to.int")
        elif nt == op.INT_TO_STR:
            out.add("int.to.str")
        elif nt == op.POW:
            out.add("pow")
        elif nt == op.DIV and n.arg(0).get_type().is_int_type():
            out.add("/")
        stack.extend(n.args())
    return out


def all_symbol_names(f):
    """names of every symbol occurring in f (free, bound, function names)"""
    out = set()
    seen = set()
    stack = [f]
    while stack:
        n = stack.pop()
        if id(n) in seen:
            continue
        seen.add(id(n))
        if n.is_symbol():
            out.add(n.symbol_name())
        elif n.is_function_application():
            out.add(n.function_name().symbol_name())
        elif n.is_quantifier():
            for v in n.quantifier_vars():
                out.add(v.symbol_name())
        stack.extend(n.args())
    return out


def string_constants(f):
    out = set()
    seen = set()
    stack = [f]
    while stack:
        n = stack.pop()
        if id(n) in seen:
            continue
        seen.add(id(n))
        if n.node_type() == op.STR_CONSTANT:
            out.add(n.constant_value())
        stack.extend(n.args())
    return out


def theory_string_ok(s):
    import re
    return all(0x20 <= ord(c) <= 0x7E for c in s) and not re.search(r"\\u(\{[0-9a-fA-F]{1,5}\}|[0-9a-fA-F]{4})", s)


def simple_sort_name(n):
    return bool(n) and n[0] in SIMPLE_START and all(c in SIMPLE_REST for c in n) and n not in RESERVED


# ------------------------------------------------------------------ one case
def hx(s):
    return wire.hexs(s)


def unhx(h):
    return wire.unhex(h)


def _other_const(mgr, c):
    """a constant of the same sort as the constant c, different from it (None when there is no easy one)"""
    try:
        t = c.get_type()
        if t.is_bool_type():
            return mgr.Bool(not c.constant_value())
        if t.is_int_type():
            return mgr.Int(c.constant_value() + 1)
        if t.is_real_type():
            return mgr.Real(c.constant_value() + 1)
        if t.is_bv_type():
            return mgr.BV((c.constant_value() + 1) % (1 << t.width), t.width)
        if t.is_string_type():
            return mgr.String(c.constant_value() + "x")
    except Exception:           # noqa: BLE001
        pass
    return None


def use_elsewhere(f):
    """History before printing (deterministic, so that a replay repeats it): the formula and its array values are used
    by other library operations first - stores / selects / equalities over every array value are built and simplified
    (existing keys with another value, a key that is not assigned), the formula itself is simplified and substituted.
    FNodes are immutable: none of this may change what is printed afterwards (the printer model is history-free)."""
    from pysmt.environment import get_env
    mgr = get_env().formula_manager
    seen, stack, avs = set(), [f], []
    while stack:
        n = stack.pop()
        if id(n) in seen:
            continue
        seen.add(id(n))
        if n.node_type() == op.ARRAY_VALUE:
            avs.append(n)
        stack.extend(n.args())
    for av in avs[:6]:
        try:
            args = av.args()
            d, keys, vals = args[0], list(args[1::2]), list(args[2::2])
            cand = []
            for k, v in zip(keys[:3], vals[:3]):
                v2 = _other_const(mgr, v) if v.is_constant() else None
                if v2 is not None:
                    cand.append((k, v2))                    # an assigned key with another value
            base = keys[-1] if keys else None
            if base is None:
                it = av.array_value_index_type()
                base = (mgr.Int(0) if it.is_int_type() else mgr.Real(0) if it.is_real_type() else
                        mgr.Bool(False) if it.is_bool_type() else mgr.BV(0, it.width) if it.is_bv_type() else
                        mgr.String("") if it.is_string_type() else None)
            knew = _other_const(mgr, base) if base is not None and base.is_constant() else None
            while knew is not None and knew in keys and len(cand) < 8:
                knew = _other_const(mgr, knew)
                cand.append((None, None))
            cand = [c for c in cand if c[0] is not None]
            v3 = _other_const(mgr, d) if d.is_constant() else None
            if knew is not None and knew not in keys and v3 is not None:
                cand.append((knew, v3))                     # a key that is not assigned
            for k, v in cand:
                st = mgr.Store(av, k, v)
                st.simplify()
                mgr.Select(st, k).simplify()
                mgr.Equals(st, av).simplify()
            for k in keys[:2]:
                mgr.Select(av, k).simplify()
        except Exception:       # noqa: BLE001 - the history step must never break the check
            pass
    try:
        f.simplify()
    except Exception:           # noqa: BLE001
        pass
    try:
        fv = sorted(f.get_free_variables(), key=lambda x: x.symbol_name())
        f.substitute({x: x for x in fv[:3]})
    except Exception:           # noqa: BLE001
        pass


def print_all(f, with_file=False):
    """every text the implementation produces for f - after the formula has been used elsewhere (`use_elsewhere`);
    exceptions are outcomes"""
    use_elsewhere(f)
    out = {}
    for key, dag in (("tree", False), ("dag", True)):
        try:
            out[key] = ("ok", f.to_smtlib(daggify=dag))
        except Exception as e:          # noqa: BLE001 — any exception of the printer is an outcome
            out[key] = ("exc", type(e).__name__ + ": " + str(e)[:200])
    # the public wrapper pysmt.shortcuts.to_smtlib (several environments live in one process)
    import pysmt.shortcuts as shortcuts
    for key, dag in (("sc_tree", False), ("sc_dag", True)):
        try:
            out[key] = ("ok", shortcuts.to_smtlib(f, daggify=dag))
        except Exception as e:          # noqa: BLE001
            out[key] = ("exc", type(e).__name__ + ": " + str(e)[:200])
    if not f.get_type().is_bool_type():
        return out                      # only formulas can be asserted
    from pysmt.exceptions import NoLogicAvailableError
    try:
        import warnings
        with warnings.catch_warnings():
            warnings.simplefilter("ignore")
            try:
                script = smtlibscript_from_formula(f)
            except NoLogicAvailableError:
                out["no_logic"] = True  # the logic computation is C13's subject: no script, nothing to check here
                return out
        out["logic"] = str(script.commands[0].args[0])
        for key, dag in (("script_tree", False), ("script_dag", True)):
            buf = io.StringIO()
            script.serialize(buf, daggify=dag)
            out[key] = ("ok", buf.getvalue())
    except Exception as e:              # noqa: BLE001
        out["script_tree"] = out["script_dag"] = ("exc", type(e).__name__ + ": " + str(e)[:200])
        out.setdefault("logic", "?")
    if with_file:
        from pysmt.shortcuts import write_smtlib
        import warnings
        fd, path = tempfile.mkstemp(suffix=".smt2")
        os.close(fd)
        try:
            with warnings.catch_warnings():
                warnings.simplefilter("ignore")
                write_smtlib(f, path)
            out["file"] = ("ok", open(path).read())
        except Exception as e:          # noqa: BLE001
            out["file"] = ("exc", type(e).__name__ + ": " + str(e)[:200])
        finally:
            os.unlink(path)
    return out


def classify_msg(msg):
    """message of the standard reader -> (error class, offending token)"""
    for pre, cls in (("undeclared function symbol: ", "undeclared"), ("undeclared symbol: ", "undeclared"),
                     ("undeclared sort: ", "undeclared-sort"), ("unsupported theory symbol: ", "unsupported"),
                     ("symbol declared twice or predefined: ", "redeclared"), ("sort declared twice: ", "sort-redeclared")):
        if pre in msg:
            return cls, msg.split(pre, 1)[1]
    if "/ takes Real arguments" in msg:
        return "ill-sorted", "/"
    if "printable ASCII" in msg:
        return "string-literal", "non-ascii"
    if msg.startswith("lexical error") or msg.startswith("syntax error"):
        return "lex", msg.split(":", 1)[1].strip().split(" ")[0] if ":" in msg else "?"
    return "other", msg[:60]


def signature(printer, ans, f, info):
    """sig of an S failure; `info`: facts about the generated case that name the defect class"""
    parts = ans.split(" ")
    kind = parts[1] if len(parts) > 1 else "?"
    sig = {"oracle": "std_reader", "printer": printer, "kind": kind}
    if kind in ("lex", "read", "rejected") and len(parts) > 2:
        msg = unhx(parts[2])
        cls, tok = classify_msg(msg)
        sig["error"] = cls
        sig["token"] = tok
        if (cls == "lex" or cls in ("undeclared", "redeclared")) and info["unspeakable"]:
            sig["name_class"] = "bar-or-backslash"
        if cls == "string-literal":
            sig["string_class"] = "non-ascii-or-escape"
    if kind == "value" and info["odd_string"]:
        sig["string_class"] = "non-ascii-or-escape"
    return sig


def case_lines(enc, interps_enc, k, texts):
    """driver requests of one case: [(tag, line)]"""
    lines = [("H:hyp", "printable %s" % enc)]
    for p in ("tree", "dag"):
        st, txt = texts[p]
        if st == "ok":
            lines.append(("K:" + p, "cmp_print %s %s %s" % (p, enc, hx(txt))))
            lines.append(("S:" + p, "chk_print %d %s %s %s" % (k, interps_enc, enc, hx(txt))))
    for p, mode in (("sc_tree", "tree"), ("sc_dag", "dag")):
        st, txt = texts.get(p, ("none", ""))
        if st == "ok":
            if txt == texts[mode][1]:
                continue            # same text as FNode.to_smtlib: already judged above
            lines.append(("K:" + p, "cmp_print %s %s %s" % (mode, enc, hx(txt))))
            lines.append(("S:" + p, "chk_print %d %s %s %s" % (k, interps_enc, enc, hx(txt))))
    for p, dag in (("script_tree", 0), ("script_dag", 1)):
        st, txt = texts.get(p, ("none", ""))
        if st == "ok":
            lines.append(("K:" + p, "cmp_script %d %s %s %s" % (dag, hx(texts["logic"]), enc, hx(txt))))
            lines.append(("S:" + p, "chk_script %d %s %s %s" % (k, interps_enc, enc, hx(txt))))
    if "file" in texts and texts["file"][0] == "ok":
        lines.append(("K:file", "cmp_script 1 %s %s %s" % (hx(texts["logic"]), enc, hx(texts["file"][1]))))
        lines.append(("S:file", "chk_script %d %s %s %s" % (k, interps_enc, enc, hx(texts["file"][1]))))
    return lines


def judge(ctx, tag, line, ans, f_readable, info, texts, enc, extra=None):
    """one driver answer -> reports"""
    layer, printer = tag.split(":")
    rep = {"request": line, "answer": ans, "formula": f_readable, "printer": printer, "enc": enc,
           "text": texts.get(printer, ("", ""))[1][:2000], "info": {k: v for k, v in info.items()}}
    if extra:
        rep.update(extra)
    if ans.startswith("bad-op"):
        ctx.infra("C07 driver rejected a request: %s :: %s" % (ans, f_readable))
        return
    if layer == "H":
        ctx.count("theorem_hypotheses_" + ans.replace(" ", "_"))
        return
    if layer == "K":
        if ans == "same":
            ctx.count("K_same_" + printer)
            return
        if ans.startswith("unreadable"):
            # the implementation's text is not SMT-LIB: that is S's business (reported there)
            ctx.count("K_unreadable_" + printer)
            return
        rep["model_text"] = unhx(ans.split(" ")[1]) if len(ans.split(" ")) > 1 else ""
        ctx.report_k("printer model and %s output differ" % printer, rep)
        return
    if ans.startswith("ok"):
        parts = ans.split(" ")
        ctx.count("S_ok_" + printer)
        if len(parts) > 3:
            ctx.count("S_%s_%s" % (printer, parts[3]))
        if len(parts) > 2 and parts[1] == "0" and parts[2] != "0":
            ctx.count("S_all_interps_div0")
        if printer == "tree" and len(parts) > 3 and parts[3] == "other":
            # the values agreed under the sampled interpretations, but the standard reads a *different term* than the
            # formula (theorem read_toSexp says: the same term, array values unfolded)
            sig = {"oracle": "std_reader", "printer": printer, "kind": "structure"}
            if info["odd_string"]:
                sig["string_class"] = "non-ascii-or-escape"
            ctx.report_s(sig, "tree text is read by the standard as a different term than the formula", rep)
        return
    sig = signature(printer, ans, None, info)
    what = "%s text is not standard SMT-LIB with the formula's meaning: %s" % (printer, describe(ans))
    ctx.report_s(sig, what, rep)


def describe(ans):
    parts = ans.split(" ")
    if len(parts) > 2 and parts[1] in ("lex", "read", "rejected"):
        try:
            return parts[1] + ": " + unhx(parts[2])
        except Exception:       # noqa: BLE001
            return ans[:200]
    return ans[:200]


def case_info(f, uni_info):
    names = all_symbol_names(f)
    strs = string_constants(f)
    return {"unspeakable": any(("|" in n or "\\" in n) for n in names),
            "odd_sort_name": uni_info["odd_sort_name"],
            "odd_string": any(not theory_string_ok(s) for s in strs),
            "known_ops": sorted(known_ops_in(f))}


# ------------------------------------------------------------------ multi-command scripts
def enc_cmd(c):
    """SmtLibCommand -> wire (grammar in Drivers/C07.lean: pCmds)"""
    import pysmt.smtlib.commands as smtcmd
    if c.name == smtcmd.SET_LOGIC:
        return "L " + hx(str(c.args[0]))
    if c.name == smtcmd.DECLARE_SORT:
        return "S %s %d" % (hx(c.args[0].name), c.args[0].arity)
    if c.name == smtcmd.DECLARE_FUN:
        return "F %s %s" % (hx(c.args[0].symbol_name()), wire.enc_symty(c.args[0].symbol_type()))
    if c.name == smtcmd.DECLARE_CONST:
        return "C %s %s" % (hx(c.args[0].symbol_name()), wire.enc_type(c.args[0].symbol_type()))
    if c.name == smtcmd.ASSERT:
        return "A " + wire.enc_term(c.args[0])
    if c.name == smtcmd.PUSH:
        return "P %d" % c.args[0]
    if c.name == smtcmd.POP:
        return "O %d" % c.args[0]
    if c.name == smtcmd.CHECK_SAT:
        return "K"
    # commands outside the Lean command model (S only; this encoding serves the replay)
    if c.name == smtcmd.DEFINE_FUN:
        name, params, rtype, body = c.args
        return "D %s %d %s %s | %s" % (hx(name), len(params),
                                      " ".join("%s %s" % (hx(v.symbol_name()), wire.enc_type(v.symbol_type())) for v in params),
                                      wire.enc_type(rtype), wire.enc_term(body))
    if c.name == smtcmd.DEFINE_SORT:
        return "DS %s %s" % (hx(c.args[0]), wire.enc_type(c.args[2]))
    if c.name == smtcmd.SET_INFO:
        return "SI %s %s" % (hx(c.args[0]), hx(c.args[1]))
    if c.name == smtcmd.SET_OPTION:
        return "SO %s %s" % (hx(c.args[0]), hx(c.args[1]))
    if c.name == smtcmd.GET_VALUE:
        return "GV %d %s" % (len(c.args), " | ".join(wire.enc_term(a) for a in c.args))
    raise ValueError(c.name)


EXTRA_CMDS = ("D ", "DS ", "SI ", "SO ", "GV ")
DEF_NAMES = ["my inc", "(f)", "1st", "a b c", "f(x)", "2+2", "it's", "x;y", "#h", "é1", ":kw", "inc", "Int2", "{g}", "a,b",
             "f g", " lead", "9", "1.5", "#b01"]


def serialize_script(script, with_file=False):
    import pysmt.smtlib.commands as smtcmd
    for c in script.commands:
        if c.name == smtcmd.ASSERT:
            use_elsewhere(c.args[0])        # history before printing, repeated identically by a replay
    out = {}
    for key, dag in (("multi_tree", False), ("multi_dag", True)):
        try:
            buf = io.StringIO()
            script.serialize(buf, daggify=dag)
            out[key] = ("ok", buf.getvalue())
        except Exception as e:          # noqa: BLE001
            out[key] = ("exc", type(e).__name__ + ": " + str(e)[:200])
    if with_file:
        fd, path = tempfile.mkstemp(suffix=".smt2")
        os.close(fd)
        try:
            script.to_file(path)            # daggify=True is the default
            out["multi_file"] = ("ok", open(path).read())
        except Exception as e:          # noqa: BLE001
            out["multi_file"] = ("exc", type(e).__name__ + ": " + str(e)[:200])
        finally:
            os.unlink(path)
    return out


def build_script(env, cmds_spec):
    """cmds_spec: list of (name, arg) with FNodes / decls -> SmtLibScript"""
    from pysmt.smtlib.script import SmtLibScript, SmtLibCommand
    script = SmtLibScript()
    for name, args in cmds_spec:
        script.add_command(SmtLibCommand(name=name, args=args))
    return script


def gen_script_case(ctx, env, uni, fg, ig, uni_info, with_file):
    """one script with 2-4 assertions (push/pop in between), declarations of everything it uses; user symbols named
    `.def_k` occur only from the second assertion on (most of the time)"""
    import pysmt.smtlib.commands as smtcmd
    rng, m = ctx.rng, uni.mgr
    k = rng.randint(2, 4)
    fs = []
    for i in range(k):
        f = fg.gen(BOOL, rng.choice([1, 2, 2, 3]))
        if i == 0:
            for _ in range(12):
                if not any(n.startswith(".def_") for n in all_symbol_names(f)):
                    break
                f = fg.gen(BOOL, rng.choice([1, 2]))
            else:
                p0 = [sy for sy in uni.syms[BOOL] if not sy.symbol_name().startswith(".def_")][0]
                f = m.Or(p0, m.Not(p0))
        elif uni.def_like and rng.random() < 0.7:
            d = rng.choice(uni.def_like)
            g = f
            shape = rng.randrange(5)
            if shape == 0:
                f = m.And(m.Or(g, d), d)
            elif shape == 1:
                f = m.Or(m.And(d, g), m.Not(d))
            elif shape == 2:
                f = m.Iff(m.Implies(g, d), d)
            elif shape == 3:
                d2 = rng.choice(uni.def_like)
                f = m.And(m.Or(m.Not(g), d2), m.Or(d, m.And(g, d2)), d)
            else:
                f = m.Ite(m.And(g, d), m.Not(d), m.Or(d, g))
        fs.append(f)
    allf = m.And(fs)
    cmds = [(smtcmd.SET_LOGIC, [rng.choice(["ALL", "QF_AUFBVLIRA", "UFLIA"])])]
    seen = []
    for ty in env.typeso.get_types(allf, custom_only=True):
        if ty.decl not in seen:
            seen.append(ty.decl)
            cmds.append((smtcmd.DECLARE_SORT, [ty.decl]))
    for sy in sorted(allf.get_free_variables(), key=lambda x: x.symbol_name()):
        if not sy.symbol_type().is_function_type() and rng.random() < 0.3:
            cmds.append((smtcmd.DECLARE_CONST, [sy]))
        else:
            cmds.append((smtcmd.DECLARE_FUN, [sy]))
    # commands with a NAME or a string argument beyond declarations: define-fun (names that need |…| quoting), define-sort,
    # set-info / set-option values, get-value
    extra = rng.random() < 0.6
    post = []
    if extra:
        used = {sy.symbol_name() for sy in allf.get_free_variables()}
        cmds.insert(1, (smtcmd.SET_INFO, [":source", rng.choice(["a b", "gen 1", "x(y)", "plain"])]))
        cmds.insert(1, (smtcmd.SET_OPTION, [":produce-models", "true"]))
        if rng.random() < 0.5:
            cmds.append((smtcmd.DEFINE_SORT, [rng.choice(["MyInt", "S_1", "Idx"]), [], rng.choice([INT, BVType(4), ArrayType(INT, INT)])]))
        for _ in range(rng.randint(1, 2)):
            nm = rng.choice([n for n in DEF_NAMES if n not in used] or ["deffun"])
            used.add(nm)
            pty = rng.choice([INT, BOOL, BVType(2)])
            par = m.Symbol(uni.names.fresh("simple") if rng.random() < 0.5 else uni.names.fresh(), pty)
            if rng.random() < 0.5 or "|" in par.symbol_name() or "\\" in par.symbol_name():
                par = m.Symbol(uni.names.fresh("simple"), pty)
            g = rng.choice(fs)
            if pty.is_int_type():
                body = m.Ite(g, m.Plus(par, m.Int(1)), par)
            elif pty.is_bool_type():
                body = m.And(par, g)
            else:
                body = m.Ite(g, m.BVNot(par), par)
            cmds.append((smtcmd.DEFINE_FUN, [nm, [par], body.get_type(), body]))
        post.append((smtcmd.GET_VALUE, [rng.choice(fs)] + ([rng.choice(fs)] if rng.random() < 0.4 else [])))
    # assertions with push/pop; `live` = the formulas in force at the end, with their level
    level, live = 0, []
    for i, f in enumerate(fs):
        if i > 0 and rng.random() < 0.3:
            n = rng.choice([1, 1, 2])
            cmds.append((smtcmd.PUSH, [n]))
            level += n
        cmds.append((smtcmd.ASSERT, [f]))
        live.append((level, f))
        if level > 0 and rng.random() < 0.4:
            n = rng.randint(1, level)
            cmds.append((smtcmd.POP, [n]))
            level -= n
            live = [(l, g) for (l, g) in live if l <= level]
    cmds.append((smtcmd.CHECK_SAT, []))
    cmds.extend(post)
    script = build_script(env, cmds)
    try:
        wire_cmds = [enc_cmd(c) for c in script.commands]
        live_enc = [wire.enc_term(g) for (_, g) in live]
    except wire.OutOfFragment:
        ctx.count("out_of_fragment")
        return []
    kint = 4
    interps = [ig.for_formula(allf) for _ in range(kint)]
    interps_enc = " ".join(wire.enc_interp(*i) for i in interps)
    texts = serialize_script(script, with_file)
    info = case_info(allf, uni_info)
    rd = " ; ".join(semantic.readable(f, 160) for f in fs)
    cmds_enc = "%d %s" % (len(wire_cmds), " ".join(wire_cmds))
    out = []
    for p, dag in (("multi_tree", 0), ("multi_dag", 1), ("multi_file", 1)):
        if p not in texts:
            continue
        st, txt = texts[p]
        if st == "exc":
            ctx.report_s({"oracle": "exception", "printer": p, "exc": txt.split(":")[0]},
                         "%s serialisation raised %s" % (p, txt), {"formula": rd, "printer": p, "cmds_wire": wire_cmds})
            continue
        meta = (rd, info, texts, "", True, {"cmds_wire": wire_cmds})
        if not extra:       # the Lean command model has no define-fun / define-sort / set-info / get-value: S only
            out.append(("K:" + p, "cmp_cmds %d %s %s" % (dag, cmds_enc, hx(txt)), meta))
        out.append(("S:" + p, "chk_cmds %d %s %d %s %s" % (kint, interps_enc, len(live_enc), " ".join(live_enc), hx(txt)),
                    meta))
    ctx.count("multi_scripts")
    if extra:
        ctx.count("multi_scripts_with_define_fun_etc")
    ctx.count("multi_live_%d" % len(live))
    if any(any(n.startswith(".def_") for n in all_symbol_names(f)) for f in fs[1:]):
        ctx.count("multi_with_def_like_symbol_in_later_assertion")
    return out


def gen_batch(ctx, n_env, per_env):
    """generate cases in `n_env` fresh environments -> (lines, meta)"""
    lines, meta = [], []
    for e in range(n_env):
        env = Environment()
        push_env(env)
        try:
            rng = ctx.rng
            mode = rng.random()
            # most universes are free of the known-defect classes, a few exercise each of them
            allow_unspeakable = mode < 0.10
            allow_known = 0.10 <= mode < 0.22
            odd_strings = 0.22 <= mode < 0.30
            odd_sort = rng.random() < 0.3
            names = NameGen(rng, allow_unspeakable=allow_unspeakable)
            sort_names = (rng.choice(["my sort", "S#1", "1st", "Int'"]), rng.choice(["Pair", "p air", "2P"])) if odd_sort \
                else (rng.choice(["U", "Elem", "T.1"]), rng.choice(["Pair", "Box_2", "P"]))
            uni = C07Universe(env, rng, names, sort_names=sort_names)
            uni_info = {"odd_sort_name": not all(simple_sort_name(s) for s in sort_names)}
            fg = C07Gen(rng, uni, max_depth=4, quant_prob=0.1, share_prob=0.3)
            fg.allow_known = allow_known
            fg.odd_strings = odd_strings
            ig = gen.InterpGen(rng, uni)
            for j in range(per_env):
                ty = fg.any_type(0.55)
                if ty not in uni.syms:
                    ty = BOOL
                if rng.random() < 0.08:
                    ty = rng.choice(uni.pair_types + [uni.U])
                f = fg.gen(ty, rng.choice([1, 2, 3, 4, 4]))
                try:
                    enc = wire.enc_term(f)
                except wire.OutOfFragment:
                    ctx.count("out_of_fragment")
                    continue
                k = 3
                interps = [ig.for_formula(f) for _ in range(k)]
                interps_enc = " ".join(wire.enc_interp(*i) for i in interps)
                texts = print_all(f, with_file=(j % 25 == 0))
                info = case_info(f, uni_info)
                rd = semantic.readable(f)
                for p in ("tree", "dag", "sc_tree", "sc_dag", "script_tree", "script_dag", "file"):
                    if p in texts and texts[p][0] == "exc":
                        ctx.report_s({"oracle": "exception", "printer": p, "exc": texts[p][1].split(":")[0]},
                                     "%s printing raised %s" % (p, texts[p][1]),
                                     {"formula": rd, "enc": enc, "printer": p})
                if texts.get("no_logic"):
                    ctx.count("script_skipped_no_logic")
                for tag, line in case_lines(enc, interps_enc, k, texts):
                    lines.append(line)
                    meta.append((tag, rd, info, texts, enc, f.args() != (), None))
                ctx.count("type_" + str(ty).split("{")[0])
                for o in info["known_ops"]:
                    ctx.count("has_" + o)
                if info["unspeakable"]:
                    ctx.count("has_unspeakable_name")
                if uni_info["odd_sort_name"]:
                    ctx.count("has_sort_name_needing_quotes")
                if info["odd_string"]:
                    ctx.count("has_odd_string")
                if len(ctx.samples) < 5 and j % 17 == 3:
                    ctx.sample({"formula": rd, "tree": texts["tree"][1][:300], "dag": texts["dag"][1][:300]})
            # raw array values with a repeated key (only `create_node` builds them; K only: the tree printer goes
            # through dict(zip(keys, values)) and a stable sort, the DAG printer through the argument list)
            for j in range(3):
                m = uni.mgr
                ks = [m.Int(rng.choice([1, 2, 10, -3])) for _ in range(rng.randint(2, 4))]
                ks.append(ks[0])
                rng.shuffle(ks)
                vals = [m.Int(100 + i) for i in range(len(ks))]
                raw_args = [m.Int(0)]
                for kk, vv in zip(ks, vals):
                    raw_args += [kk, vv]
                f = m.create_node(node_type=op.ARRAY_VALUE, args=tuple(raw_args), payload=INT)
                try:
                    enc = wire.enc_term(f)
                except wire.OutOfFragment:
                    continue
                info = {"unspeakable": False, "odd_sort_name": False, "odd_string": False, "known_ops": []}
                for pname, dag in (("tree", False), ("dag", True)):
                    try:
                        txt = f.to_smtlib(daggify=dag)
                    except Exception:       # noqa: BLE001
                        continue
                    lines.append("cmp_print %s %s %s" % (pname, enc, hx(txt)))
                    meta.append(("K:" + pname, semantic.readable(f), info, {pname: ("ok", txt)}, enc, True, None))
                ctx.count("raw_array_value_repeated_key")
            # multi-command scripts (one printer object for several assertions)
            fg.allow_known = False
            for j in range(max(6, per_env // 5)):
                for tag, line, (rd, info, texts, enc, nontriv, extra) in \
                        gen_script_case(ctx, env, uni, fg, ig, uni_info, with_file=(j % 6 == 0)):
                    lines.append(line)
                    meta.append((tag, rd, info, texts, enc, nontriv, extra))
        finally:
            pop_env()
    return lines, meta


def run(ctx):
    quick = ctx.tier == "quick"
    n_env, per_env = (8, 60) if quick else (40, 100)
    deadline = 60 if quick else 780          # seconds of wall time after which no new batch is started
    total = 0
    batches = 0
    while True:
        t0 = time.time()
        lines, meta = gen_batch(ctx, n_env, per_env)
        try:
            answers = ctx.lean_run_sharded("C07", lines)
        except common.LeanError as e:
            ctx.report_l("driver C07 does not run", str(e))
            return
        for line, ans, (tag, rd, info, texts, enc, nontriv, extra) in zip(lines, answers, meta):
            if tag.startswith("S:"):
                ctx.case((tag + (enc or line[:4000])) if nontriv else None)
            judge(ctx, tag, line, ans, rd, info, texts, enc, extra)
        total += len(lines)
        batches += 1
        dt = time.time() - t0
        if (time.time() - ctx.t0) + dt * 1.1 > deadline or (quick and batches >= 7):
            break
    ctx.extra["requests"] = total
    ctx.extra["batches"] = batches


# ------------------------------------------------------------------ replay
def _ty_from_name(tm, name):
    """pySMT type from its str() (the Core's naming convention)"""
    base, _, rest = name.partition("{")
    if not rest:
        return {"Int": INT, "Real": REAL, "Bool": BOOL, "String": STRING}.get(base) or tm.Type(base, 0)
    inner = rest[:-1]
    if base == "BV":
        return BVType(int(inner))
    parts, depth, cur = [], 0, ""
    i = 0
    while i < len(inner):
        c = inner[i]
        if c == "," and depth == 0 and inner[i + 1:i + 2] == " ":
            parts.append(cur)
            cur = ""
            i += 2
            continue
        depth += (c == "{") - (c == "}")
        cur += c
        i += 1
    parts.append(cur)
    args = [_ty_from_name(tm, p) for p in parts]
    if base == "Array":
        return ArrayType(args[0], args[1])
    return tm.get_type_instance(tm.Type(base, len(args)), *args)


def _ty_from_wire(tm, t):
    if t[0] == "B":
        return BOOL
    if t[0] == "I":
        return INT
    if t[0] == "R":
        return REAL
    if t[0] == "S":
        return STRING
    if t[0] == "V":
        return BVType(t[1])
    if t[0] == "A":
        return ArrayType(_ty_from_wire(tm, t[1]), _ty_from_wire(tm, t[2]))
    if t[0] == "C":
        return _ty_from_name(tm, t[1])
    if t[0] == "F":
        return FunctionType(_ty_from_wire(tm, t[1]), [_ty_from_wire(tm, p) for p in t[2]])
    raise ValueError(t)


def build_fnode(env, enc):
    """rebuild the FNode of a wire term (raw create_node: exactly the recorded structure)"""
    mgr, tm = env.formula_manager, env.type_manager
    nodes = wire.dec_term(enc)
    built = []
    for (o, p, ch) in nodes:
        nt = wire.OPID[o]
        args = tuple(built[c] for c in ch)
        if o == "symbol":
            built.append(mgr.Symbol(p[1], _ty_from_wire(tm, p[2])))
            continue
        if o == "function":
            payload = mgr.Symbol(p[1], _ty_from_wire(tm, p[2]))
        elif p is None:
            payload = None
        elif p[0] == "b":
            built.append(mgr.Bool(p[1]))
            continue
        elif p[0] == "i":
            built.append(mgr.Int(p[1]))
            continue
        elif p[0] == "q":
            built.append(mgr.Real(p[1]))
            continue
        elif p[0] == "s":
            built.append(mgr.String(p[1]))
            continue
        elif p[0] == "v":
            built.append(mgr.BV(p[1], p[2]))
            continue
        elif p[0] == "n":
            payload = tuple(p[1:])
        elif p[0] == "Q":
            payload = tuple(mgr.Symbol(n, _ty_from_wire(tm, t)) for n, t in p[1:])
        elif p[0] == "t":
            payload = _ty_from_wire(tm, p[1])
        else:
            raise ValueError(p)
        built.append(mgr.create_node(node_type=nt, args=args, payload=payload))
    return built[-1]


def build_cmds(env, wire_cmds):
    """wire commands -> [(name, args)]"""
    import pysmt.smtlib.commands as smtcmd
    mgr, tm = env.formula_manager, env.type_manager
    out = []
    for w in wire_cmds:
        tk = wire.Tok(w)
        c = tk.next()
        if c == "L":
            out.append((smtcmd.SET_LOGIC, [unhx(tk.next())]))
        elif c == "S":
            name = unhx(tk.next())
            ar = tk.nat()
            d = tm.Type(name, ar)
            out.append((smtcmd.DECLARE_SORT, [d if ar > 0 else d.decl]))
        elif c in ("F", "C"):
            name = unhx(tk.next())
            ty = _ty_from_wire(tm, wire.dec_symty(tk))
            out.append((smtcmd.DECLARE_FUN if c == "F" else smtcmd.DECLARE_CONST, [mgr.Symbol(name, ty)]))
        elif c == "A":
            out.append((smtcmd.ASSERT, [build_fnode(env, " ".join(tk.t[tk.i:]))]))
        elif c == "P":
            out.append((smtcmd.PUSH, [tk.nat()]))
        elif c == "O":
            out.append((smtcmd.POP, [tk.nat()]))
        elif c == "K":
            out.append((smtcmd.CHECK_SAT, []))
        elif c == "D":
            name = unhx(tk.next())
            k = tk.nat()
            params = []
            for _ in range(k):
                pn = unhx(tk.next())
                params.append(mgr.Symbol(pn, _ty_from_wire(tm, wire.dec_type(tk))))
            rty = _ty_from_wire(tm, wire.dec_type(tk))
            assert tk.next() == "|"
            out.append((smtcmd.DEFINE_FUN, [name, params, rty, build_fnode(env, " ".join(tk.t[tk.i:]))]))
        elif c == "DS":
            name = unhx(tk.next())
            out.append((smtcmd.DEFINE_SORT, [name, [], _ty_from_wire(tm, wire.dec_type(tk))]))
        elif c == "SI":
            out.append((smtcmd.SET_INFO, [unhx(tk.next()), unhx(tk.next())]))
        elif c == "SO":
            out.append((smtcmd.SET_OPTION, [unhx(tk.next()), unhx(tk.next())]))
        elif c == "GV":
            tk.nat()
            rest = " ".join(tk.t[tk.i:])
            out.append((smtcmd.GET_VALUE, [build_fnode(env, part.strip()) for part in rest.split(" | ")]))
    return out


def replay_multi(ctx, r):
    env = Environment()
    push_env(env)
    try:
        script = build_script(env, build_cmds(env, r["cmds_wire"]))
        texts = serialize_script(script, with_file=(r.get("printer") == "multi_file"))
    finally:
        pop_env()
    printer = r.get("printer", "multi_dag")
    st, txt = texts.get(printer, ("exc", "no such printer"))
    print("script  :", r.get("formula"))
    print("printer :", printer)
    print("text now:\n" + txt[:2500])
    if st == "exc":
        ctx.report_s({"oracle": "exception", "printer": printer, "exc": txt.split(":")[0]},
                     "%s serialisation raised %s" % (printer, txt), r)
        return
    toks = r["request"].split(" ")
    toks[-1] = hx(txt)
    line = " ".join(toks)
    ans = ctx.lean_run("C07", [line])[0]
    print("oracle  :", describe(ans) if not ans.startswith("ok") and ans != "same" else ans)
    ctx.case(line[:4000])
    info = r.get("info") or {"unspeakable": False, "odd_sort_name": False, "odd_string": False, "known_ops": []}
    tag = ("K:" if toks[0].startswith("cmp") else "S:") + printer
    judge(ctx, tag, line, ans, r.get("formula"), info, texts, "", {"cmds_wire": r["cmds_wire"]})


def replay(ctx, rep):
    r = rep["replay"]
    if r.get("cmds_wire"):
        return replay_multi(ctx, r)
    if str(r.get("printer", "")).startswith("sc_"):
        # the pysmt.shortcuts route in a process that has used another environment before: export decoy formulas
        # with many node ids through the same public function first
        import pysmt.shortcuts as shortcuts
        env0 = Environment()
        push_env(env0)
        try:
            m0 = env0.formula_manager
            g = m0.Symbol("decoy", BOOL)
            for i in range(300):
                g = m0.Not(g) if i % 2 == 0 else m0.And(g, m0.Symbol("decoy%d" % i, BOOL))
            for node in list(m0.formulae.values()):
                shortcuts.to_smtlib(node, daggify=True)
                shortcuts.to_smtlib(node, daggify=False)
        finally:
            pop_env()
    env = Environment()
    push_env(env)
    try:
        f = build_fnode(env, r["enc"])
        texts = print_all(f, with_file=(r.get("printer") == "file"))
    finally:
        pop_env()
    printer = r.get("printer", "tree")
    st, txt = texts.get(printer, ("exc", "no such printer"))
    print("formula :", r.get("formula"))
    print("printer :", printer)
    print("text now:", txt[:1500])
    if st == "exc":
        ctx.report_s({"oracle": "exception", "printer": printer, "exc": txt.split(":")[0]},
                     "%s printing raised %s" % (printer, txt), r)
        return
    # same request with the text the current tree produces
    toks = r["request"].split(" ")
    toks[-1] = hx(txt)
    line = " ".join(toks)
    ans = ctx.lean_run("C07", [line])[0]
    print("oracle  :", describe(ans) if not ans.startswith("ok") and ans != "same" else ans)
    ctx.case(line)
    info = r.get("info") or {"unspeakable": False, "odd_sort_name": False, "odd_string": False, "known_ops": []}
    tag = ("K:" if toks[0].startswith("cmp") else "S:") + printer
    judge(ctx, tag, line, ans, r.get("formula"), info, texts, r["enc"])
