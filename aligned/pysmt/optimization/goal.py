#
# This file is part of pySMT.
#
#   Copyright 2014 Andrea Micheli and Marco Gario
#
#   Licensed under the Apache License, Version 2.0 (the "License");
#   you may not use this file except in compliance with the License.
#   You may obtain a copy of the License at
#
#       http://www.apache.org/licenses/LICENSE-2.0
#
#   Unless required by applicable law or agreed to in writing, software
#   distributed under the License is distributed on an "AS IS" BASIS,
#   WITHOUT WARRANTIES OR CONDITIONS OF ANY KIND, either express or implied.
#   See the License for the specific language governing permissions and
#   limitations under the License.
#

from pysmt.environment import get_env
from pysmt.exceptions import PysmtValueError
from pysmt.oracles import get_logic
from pysmt.logics import Logic, LIA, LRA, BV
from pysmt.fnode import FNode
from typing import List, Tuple, Type, cast


class Goal(object):
    """
    This class defines goals for solvers.
    Warning: this class is not instantiable

    Examples:

        example of minimization:
        ```
        with Optimizer(name = "z3") as opt:
            x = Symbol("x", INT)
            min = MinimizationGoal(x)
            formula = GE(y, Int(5))
            opt.add_assertion(formula)
            model, cost = opt.optimize(min)
        ```

        example of maximization:
        ```
        with Optimizer(name = "z3") as opt:
            max = MaximizationGoal(x)
            formula = LE(y, Int(5))
            opt.add_assertion(formula)
            model, cost = opt.optimize(max)
        ```
    """

    def is_maximization_goal(self) -> bool:
        return False

    def is_minimization_goal(self) -> bool:
        return False

    def is_minmax_goal(self) -> bool:
        return False

    def is_maxmin_goal(self) -> bool:
        return False

    def is_maxsmt_goal(self) -> bool:
        return False

    def get_logic(self) -> Logic:
        logic = get_logic(self.term())
        if logic <= LIA:
            return LIA
        elif logic <= LRA:
            return LRA
        elif logic <= BV:
            return BV
        else:
            return logic

    @property
    def signed(self):
        return self._bv_signed

    @signed.setter
    def signed(self, value):
        self._bv_signed = value

    def term(self) -> FNode:
        raise NotImplementedError

    def opt(self) -> Type["Goal"]:
        raise NotImplementedError


class MaximizationGoal(Goal):
    """
    Maximization goal common to all solvers.
    The object can be passed as an argument to the optimize method of any Optimizer
    Warning: some Optimizer may not support this goal
    """

    def __init__(self, formula: FNode, signed: bool = False):
        """
        :param formula: The target formula
        :type  formula: FNode
        """
        self.formula = formula
        self._bv_signed = signed

    def opt(self) -> Type["Goal"]:
        return MaximizationGoal

    def term(self) -> FNode:
        return self.formula

    def is_maximization_goal(self) -> bool:
        return True

    def __repr__(self) -> str:
        return "Maximize{%s}" % self.formula.serialize()


class MinimizationGoal(Goal):
    """
    Minimization goal common to all solvers.
    The object can be passed as an argument to the optimize method of any Optimizer
    Warning: some Optimizer may not support this goal
    """

    def __init__(self, formula: FNode, sign: bool = False):
        """
        :param formula: The target formula
        :type  formula: FNode
        """
        self.formula = formula
        self._bv_signed = sign

    def opt(self) -> Type["Goal"]:
        return MinimizationGoal

    def term(self) -> FNode:
        return self.formula

    def is_minimization_goal(self) -> bool:
        return True

    def __repr__(self) -> str:
        return "Minimize{%s}" % self.formula.serialize()


class MinMaxGoal(MinimizationGoal):
    """
    Minimize the maximum expression within 'terms'
    This goal is common to all solvers.
    The object can be passed as an argument to the optimize method of any Optimizer
    Warning: some Optimizer may not support this goal
    """

    def __init__(self, terms: List[FNode], sign: bool = False):
        """
        :param terms: List of FNode
        """
        if len(terms) == 0:
            raise PysmtValueError("MinMaxGoal requires at least one term")
        elif terms[0].get_type().is_bv_type():
            formula = get_env().formula_manager.MaxBV(sign, terms)
        else:
            formula = get_env().formula_manager.Max(terms)
        MinimizationGoal.__init__(self, formula)
        self.terms = terms
        self._bv_signed = sign

    def is_minmax_goal(self) -> bool:
        return True

    def __repr__(self) -> str:
        return "Minimize{Max{%s}}" % (", ".join(x.serialize() for x in self.terms))


class MaxMinGoal(MaximizationGoal):
    """
    Maximize the minimum expression within 'terms'
    This goal is common to all solvers.
    The object can be passed as an argument to the optimize method of any Optimizer
    Warning: some Optimizer may not support this goal
    """

    def __init__(self, terms: List[FNode], sign: bool = False):
        """
        :param terms: List of FNode
        """
        if len(terms) == 0:
            raise PysmtValueError("MaxMinGoal requires at least one term")
        elif terms[0].get_type().is_bv_type():
            formula = get_env().formula_manager.MinBV(sign, terms)
        else:
            formula = get_env().formula_manager.Min(terms)
        MaximizationGoal.__init__(self, formula)
        self.terms = terms
        self._bv_signed = sign

    def is_maxmin_goal(self) -> bool:
        return True

    def __repr__(self) -> str:
        return "Maximize{Min{%s}}" % (", ".join(x.serialize() for x in self.terms))


class MaxSMTGoal(Goal):
    """
    MaxSMT goal common to all solvers.
    """

    def __init__(self, real_weights: bool=True):
        """Accepts soft clauses and the relative weights"""
        self.soft: List[Tuple[FNode, FNode]] = []
        self._bv_signed = False
        self._real_weights = real_weights

    def add_soft_clause(self, clause: FNode, weight: FNode):
        """Accepts soft clauses and the relative weights"""
        mgr = get_env().formula_manager
        if not clause.get_type().is_bool_type():
            raise PysmtValueError(
                "Clause '%s' has to be a boolean formula; given type is: '%s'" %
                (str(clause), str(clause.get_type()))
            )
        if isinstance(weight, FNode):
            if not weight.is_constant():
                raise PysmtValueError(
                    "Weight '%s' has to be a constant; given type is: '%s'" %
                    (str(weight), str(weight.get_type()))
                )
            weight_type = weight.get_type()
            if not weight_type.is_real_type() and not weight_type.is_int_type():
                raise PysmtValueError(
                    "Weight '%s' has to be a real or integer type; given type is: '%s'" %
                    (str(weight), str(weight_type))
                )
            if weight_type.is_real_type() and not self._real_weights:
                raise PysmtValueError(
                    "Weight '%s' has to be an integer because the flag 'real_weights' is set to 'False'; given type is: '%s'" %
                    (str(weight), str(weight.get_type()))
                )
            if weight_type.is_int_type() and self._real_weights:
                weight = mgr.Real(cast(int, weight.constant_value()))
            self.soft.append((clause, weight))
        else:
            WeightFnodeClass = mgr.Real if self.real_weights() else mgr.Int
            self.soft.append((clause, WeightFnodeClass(weight)))

    def is_maxsmt_goal(self) -> bool:
        return True

    def is_maximization_goal(self) -> bool:
        return True

    def real_weights(self) -> bool:
        return self._real_weights

    def term(self) -> FNode:
        formula = None
        mgr = get_env().formula_manager
        zero = mgr.Real(0) if self.real_weights() else mgr.Int(0)
        for (c, w) in self.soft:
            if formula is not None:
                formula = mgr.Plus(formula, mgr.Ite(c, w, zero))
            else:
                formula = mgr.Ite(c, w, zero)
        assert formula is not None, "Empty MaxSMT goal passed"
        return formula

    def opt(self) -> Type["Goal"]:
        return MaximizationGoal

    def __repr__(self) -> str:
        return "MaxSMT{%s}" % (", ".join(("%s: %s" % (x.serialize(), w.serialize()) for x, w in self.soft)))
