#
# This file is part of pySMT.
#
#   Copyright 2014 Andrea Micheli and Marco Gario
#
#   Licensed under the Apache License, Version 2.0 (the "License");
#   you may not use this file except in compliance with the License.
#   You may obtain a copy of the License at
#
#       http://www.apache.org/licenses/LICENSE-2.0
#
#   Unless required by applicable law or agreed to in writing, software
#   distributed under the License is distributed on an "AS IS" BASIS,
#   WITHOUT WARRANTIES OR CONDITIONS OF ANY KIND, either express or implied.
#   See the License for the specific language governing permissions and
#   limitations under the License.
#

from pysmt.fnode import FNode
from typing import Any, Dict, Optional, Set, Union

class Annotations(object):
    """Handles and stores (key,value) annotations for formulae"""

    def __init__(self, initial_annotations: Optional[Dict[FNode, Dict[str, Any]]]=None):
        if initial_annotations is not None:
            self._annotations: Dict[FNode, Dict[str, Any]] = initial_annotations
        else:
            self._annotations = {}


    def add(self, formula: FNode, annotation: str, value: Optional[Union[FNode, str]]=None):
        """Adds an annotation for the given formula, possibly with the
        specified value"""
        term_annotations = self._annotations.setdefault(formula, {})
        values = term_annotations.setdefault(annotation, set())
        if value is not None:
            values.add(value)


    def remove(self, formula: FNode):
        """Removes all the annotations for the given formula"""
        if formula in self._annotations:
            del self._annotations[formula]


    def remove_annotation(self, formula: FNode, annotation: str):
        """Removes the given annotation for the given formula"""
        if formula in self._annotations:
            if annotation in self._annotations[formula]:
                del self._annotations[formula][annotation]


    def remove_value(self, formula: FNode, annotation: str, value: FNode):
        """Removes the given annotation for the given formula"""
        if formula in self._annotations:
            if annotation in self._annotations[formula]:
                d = self._annotations[formula][annotation]
                if value in d:
                    d.remove(value)


    def has_annotation(self, formula: FNode, annotation: str, value: Optional[str]=None) -> bool:
        """Returns True iff the given formula has the given annotation. If
        Value is specified, True is returned only if the value is
        matching.
        """
        if formula in self._annotations:
            if annotation in self._annotations[formula]:
                if value is None:
                    return True
                else:
                    return (value in self._annotations[formula][annotation])
        return False


    def annotations(self, formula: FNode) -> Optional[Dict[str, Set[Any]]]:
        """Returns a dictionary containing all the annotations for the given
        formula as keys and the respective values. None is returned if
        formula has no annotations.
        """
        try:
            return self._annotations[formula]
        except KeyError:
            return None


    def all_annotated_formulae(self, annotation: str, value: Optional[str]=None) -> Set[FNode]:
        """Returns the set of all the formulae having the given annotation
        key. If Value is specified, only the formula having the
        specified value are returned.
        """
        res = []
        for f, amap in self._annotations.items():
            # MG: Revisit this code. Can this be simplified?
            if annotation in amap:
                if value is None:
                    res.append(f)
                else:
                    if value in amap[annotation]:
                        res.append(f)
        return set(res)


    def __contains__(self, formula: Union[FNode, str]) -> bool:
        """Checks if formula has at least one annotation"""
        return formula in self._annotations


    def __str__(self) -> str:
        res = ["Annotations: {"]
        for t, m in self._annotations.items():
            res.append(str(t) + " -> ")
            for a, lst in m.items():
                res.append(":" + str(a) + "{")
                for v in lst:
                    res.append(str(v) + ", ")
                res.append("} ")
        return "".join(res + ["}"])


    def __getitem__(self, formula: FNode) -> Optional[Dict[str, Union[Set[str], Set[Any]]]]:
        return self.annotations(formula)
