#
# This file is part of pySMT.
#
#   Copyright 2014 Andrea Micheli and Marco Gario
#
#   Licensed under the Apache License, Version 2.0 (the "License");
#   you may not use this file except in compliance with the License.
#   You may obtain a copy of the License at
#
#       http://www.apache.org/licenses/LICENSE-2.0
#
#   Unless required by applicable law or agreed to in writing, software
#   distributed under the License is distributed on an "AS IS" BASIS,
#   WITHOUT WARRANTIES OR CONDITIONS OF ANY KIND, either express or implied.
#   See the License for the specific language governing permissions and
#   limitations under the License.
#
"""Defines constants for the commands of the SMT-LIB"""

ASSERT='assert'
ASSERT_SOFT='assert-soft'
CHECK_ALLSAT='check-allsat'
CHECK_SAT='check-sat'
CHECK_SAT_ASSUMING='check-sat-assuming'
DECLARE_CONST='declare-const'
DECLARE_FUN='declare-fun'
DECLARE_SORT='declare-sort'
DEFINE_FUN='define-fun'
DEFINE_FUN_REC='define-fun-rec'
DEFINE_FUNS_REC='define-funs-rec'
DEFINE_SORT='define-sort'
ECHO='echo'
EXIT='exit'
GET_ASSERTIONS='get-assertions'
GET_ASSIGNMENT='get-assignment'
GET_INFO='get-info'
GET_MODEL='get-model'
GET_OPTION='get-option'
GET_OBJECTIVES='get-objectives'
GET_PROOF='get-proof'
GET_UNSAT_ASSUMPTIONS='get-unsat-assumptions'
GET_UNSAT_CORE='get-unsat-core'
GET_VALUE='get-value'
LOAD_OBJECTIVE_MODEL= 'load-objective-model'
MAXIMIZE='maximize'
MAXMIN='maxmin'
MINIMIZE='minimize'
MINMAX='minmax'
POP='pop'
PUSH='push'
RESET='reset'
RESET_ASSERTIONS='reset-assertions'
SET_INFO='set-info'
SET_LOGIC='set-logic'
SET_OPTION='set-option'


#

SMT_LIB_2_0 = [
    SET_LOGIC,
    SET_OPTION,
    SET_INFO,
    DECLARE_SORT,
    DEFINE_SORT,
    DECLARE_FUN,
    DEFINE_FUN,
    PUSH,
    POP,
    ASSERT,
    CHECK_SAT,
    GET_ASSERTIONS,
    GET_VALUE,
    GET_MODEL,
    GET_PROOF,
    GET_UNSAT_CORE,
    GET_INFO,
    GET_OPTION,
    EXIT,
]

SMT_LIB_2_5 = SMT_LIB_2_0 + [
    CHECK_SAT_ASSUMING,
    DECLARE_CONST,
    DEFINE_FUN_REC,
    DEFINE_FUNS_REC,
    ECHO,
    GET_ASSIGNMENT,
    GET_UNSAT_ASSUMPTIONS,
    RESET,
    RESET_ASSERTIONS,
]

SMT_LIB_2_5_OMT = SMT_LIB_2_5 + [
    CHECK_ALLSAT,
    GET_OBJECTIVES,
    MAXIMIZE,
    MINIMIZE,
    LOAD_OBJECTIVE_MODEL,
]

ALL_COMMANDS = SMT_LIB_2_5_OMT
