#
# This file is part of pySMT.
#
#   Copyright 2014 Andrea Micheli and Marco Gario
#
#   Licensed under the Apache License, Version 2.0 (the "License");
#   you may not use this file except in compliance with the License.
#   You may obtain a copy of the License at
#
#       http://www.apache.org/licenses/LICENSE-2.0
#
#   Unless required by applicable law or agreed to in writing, software
#   distributed under the License is distributed on an "AS IS" BASIS,
#   WITHOUT WARRANTIES OR CONDITIONS OF ANY KIND, either express or implied.
#   See the License for the specific language governing permissions and
#   limitations under the License.
#
from pysmt.solvers.solver import Model
from pysmt.environment import Environment, get_env
from pysmt.exceptions import PysmtTypeError
from pysmt.fnode import FNode
from typing import Dict, Iterable, Iterator, Optional, Tuple


class EagerModel(Model):
    """A model that does not require the existence of a solver instance.

    This is useful when we want to change the state of the solver but
    maintain a version of the previously found model. An EagerModel
    can also be constructed manually, and provides a simple way to
    define a model.
    """

    def __init__(self, assignment: Dict[FNode, FNode], environment: Optional[Environment]=None):
        if environment is None:
            environment = get_env()
        Model.__init__(self, environment)
        self.environment = environment
        self.assignment = dict(assignment)
        # Create a copy of the assignments to memoize completions
        self.completed_assignment = dict(self.assignment)

    def get_value(self, formula: FNode, model_completion: bool=True) -> FNode:
        substituter = self.environment.substituter
        if model_completion:
            syms = formula.get_free_variables()
            self._complete_model(syms)
            r = substituter.substitute(formula, self.completed_assignment)
        else:
            r = substituter.substitute(formula, self.assignment)

        res = self.environment.simplifier.simplify(r)
        if not res.is_constant():
            raise PysmtTypeError("Was expecting a constant but got %s" % res)
        return res

    def _complete_model(self, symbols):
        undefined_symbols = (s for s in symbols
                             if s not in self.completed_assignment)
        mgr = self.environment.formula_manager

        for s in undefined_symbols:
            if not s.is_symbol():
                raise PysmtTypeError("Was expecting a symbol but got %s" %s)

            if s.symbol_type().is_bool_type():
                value = mgr.Bool(False)
            elif s.symbol_type().is_real_type():
                value = mgr.Real(0)
            elif s.symbol_type().is_int_type():
                value = mgr.Int(0)
            elif s.symbol_type().is_bv_type():
                value = mgr.BVZero(s.bv_width())
            else:
                raise PysmtTypeError("Unhandled type for %s: %s" %
                                     (s, s.symbol_type()))

            self.completed_assignment[s] = value


    def iterator_over(self, language: Iterable[FNode]) -> Iterator[Tuple[FNode, FNode]]:
        for x in language:
            yield x, self.get_value(x, model_completion=True)

    def __iter__(self) -> Iterator[Tuple[FNode, FNode]]:
        """Overloading of iterator from Model.  We iterate only on the
        variables defined in the assignment.
        """
        return iter(self.assignment.items())

    def __contains__(self, x) -> bool:
        """Returns whether the model contains a value for 'x'."""
        return x in self.assignment
