#
# This file is part of pySMT.
#
#   Copyright 2014 Andrea Micheli and Marco Gario
#
#   Licensed under the Apache License, Version 2.0 (the "License");
#   you may not use this file except in compliance with the License.
#   You may obtain a copy of the License at
#
#       http://www.apache.org/licenses/LICENSE-2.0
#
#   Unless required by applicable law or agreed to in writing, software
#   distributed under the License is distributed on an "AS IS" BASIS,
#   WITHOUT WARRANTIES OR CONDITIONS OF ANY KIND, either express or implied.
#   See the License for the specific language governing permissions and
#   limitations under the License.
#
from typing import Iterable, List, Optional, Sequence

import pysmt
import pysmt.logics

from pysmt.walkers.identitydag import IdentityDagWalker
from pysmt.utils import all_assignments
from pysmt.exceptions import InternalSolverError
from pysmt.fnode import FNode


class QuantifierEliminator(object):
    LOGICS: Iterable[pysmt.logics.Logic] = []

    def __init__(self):
        self._destroyed = False

    def eliminate_quantifiers(self, formula: FNode):
        """
        Returns a quantifier-free equivalent formula of the given
        formula

        If explicit_vars is specified, an explicit enumeration of all
        the possible models for such variables is computed and
        quantifier elimination is performed on each disjunct
        separately.
        """
        raise NotImplementedError

    def __enter__(self):
        """ Manage entering a Context (i.e., with statement) """
        return self

    def __exit__(self, exc_type, exc_val, exc_tb):
        """ Manage exiting from Context (i.e., with statement)

        The default behaviour is to explicitly destroy the qelim to free
        the associated resources.
        """
        self.exit()

    def exit(self):
        """Destroys the solver and closes associated resources."""
        if not self._destroyed:
            self._exit()
            self._destroyed = True

    def _exit(self):
        """Destroys the solver and closes associated resources."""
        raise NotImplementedError


class ShannonQuantifierEliminator(QuantifierEliminator, IdentityDagWalker):
    """Quantifier Elimination using Shannon Expansion."""

    LOGICS = [pysmt.logics.BOOL]

    def __init__(self, environment: "pysmt.environment.Environment", logic: Optional[pysmt.logics.Logic]=None):
        IdentityDagWalker.__init__(self, env=environment)
        QuantifierEliminator.__init__(self)
        self.logic = logic

    def eliminate_quantifiers(self, formula: FNode) -> FNode:
        return self.walk(formula)

    def _assert_vars_boolean(self, var_set):
        for v in var_set:
            if not v.symbol_type().is_bool_type():
                raise InternalSolverError(
                    "Shannon Quantifier Elimination only supports "\
                    "quantification over Boolean variables: "\
                    "(%s is %s)" % (v, v.symbol_type()))

    def _expand(self, formula: FNode, args: Sequence[FNode]) -> List[FNode]:
        """Returns the list of elements from the Shannon expansion."""
        qvars = formula.quantifier_vars()
        self._assert_vars_boolean(qvars)
        res = []
        f = args[0]
        for subs in all_assignments(qvars, self.env):
            res.append(f.substitute(subs))
        return res

    def walk_forall(self, formula: FNode, args: Sequence[FNode], **kwargs) -> FNode:
        return self.mgr.And(self._expand(formula, args))

    def walk_exists(self, formula: FNode, args: Sequence[FNode], **kwargs) -> FNode:
        return self.mgr.Or(self._expand(formula, args))

    def _exit(self):
        pass

# EOC ShannonQuantifierEliminator

class SelfSubstitutionQuantifierEliminator(QuantifierEliminator, IdentityDagWalker):
    """Boolean Quantifier Elimination based on Self-Substitution.

    Described in :
     "BDD-Based Boolean Functional Synthesis",
     Dror Fried, Lucas M. Tabajara, and Moshe Y. Vardi,
     CAV 2016
    """
    LOGICS = [pysmt.logics.BOOL]

    def __init__(self, environment: "pysmt.environment.Environment", logic: Optional[pysmt.logics.Logic]=None):
        IdentityDagWalker.__init__(self, env=environment)
        QuantifierEliminator.__init__(self)
        self.logic = logic

    def eliminate_quantifiers(self, formula: FNode) -> FNode:
        return self.walk(formula)

    def self_substitute(self, formula: FNode, qvars: Sequence[FNode], token: FNode) -> FNode:
        for v in qvars[::-1]:
            inner_sub = formula.substitute({v: token})
            formula = formula.substitute({v: inner_sub})
        return formula

    def walk_forall(self, formula: FNode, args: Sequence[FNode], **kwargs) -> FNode:
        """Forall y . f(x, y) =>  f(x, f(x, 0))"""
        qvars = formula.quantifier_vars()
        f = args[0]
        token = self.env.formula_manager.FALSE()
        qf_f = self.self_substitute(f, qvars, token)
        return qf_f

    def walk_exists(self, formula: FNode, args: Sequence[FNode], **kwargs) -> FNode:
        """Exists y . f(x, y) =>  f(x, f(x, 1))"""
        qvars = formula.quantifier_vars()
        f = args[0]
        token = self.env.formula_manager.TRUE()
        qf_f = self.self_substitute(f, qvars, token)
        return qf_f

    def _exit(self):
        pass
