#
# This file is part of pySMT.
#
#   Copyright 2014 Andrea Micheli and Marco Gario
#
#   Licensed under the Apache License, Version 2.0 (the "License");
#   you may not use this file except in compliance with the License.
#   You may obtain a copy of the License at
#
#       http://www.apache.org/licenses/LICENSE-2.0
#
#   Unless required by applicable law or agreed to in writing, software
#   distributed under the License is distributed on an "AS IS" BASIS,
#   WITHOUT WARRANTIES OR CONDITIONS OF ANY KIND, either express or implied.
#   See the License for the specific language governing permissions and
#   limitations under the License.
#
from typing import Optional

import pysmt
from pysmt.walkers.generic import Walker
from pysmt.fnode import FNode

class TreeWalker(Walker):
    """TreeWalker treats the formula as a Tree and does not perform memoization.

    This should be used when applying a the function to the same
    formula is expected to yield different results, for example,
    serialization. If the operations are functions, consider using the
    DagWalker instead.

    The recursion within walk_ methods is obtained by using the
    'yield' keyword. In practice, each walk_ method is a generator
    that yields its arguments.
    If the generator returns None, no recursion will be performed.

    """

    def __init__(self, env: Optional["pysmt.environment.Environment"]=None):
        Walker.__init__(self, env)
        return

    def walk(self, formula: FNode, threshold: Optional[int]=None):
        """Generic walk method, will apply the function defined by the map
        self.functions.

        If threshold parameter is specified, the walk_threshold
        function will be called for all nodes with depth >= threshold.
        """

        try:
            f = self.functions[formula.node_type()]
        except KeyError:
            f = self.walk_error

        iterator = f(formula)
        if iterator is None:
            return

        stack = [iterator]
        while stack:
            f = stack[-1]
            try:
                child = next(f)
                if threshold and len(stack) >= threshold:
                    iterator = self.walk_threshold(child)
                    if iterator is not None:
                        stack.append(iterator)
                else:
                    try:
                        cf = self.functions[child.node_type()]
                    except KeyError:
                        cf = self.walk_error
                    iterator = cf(child)
                    if iterator is not None:
                        stack.append(iterator)
            except StopIteration:
                stack.pop()
        return

    def walk_threshold(self, formula):
        raise NotImplementedError

    def walk_skip(self, formula):
        """ Default function to skip a node and process the children """
        for s in formula.args():
            yield s
        return


# EOC TreeWalker
