#
# This file is part of pySMT.
#
#   Copyright 2014 Andrea Micheli and Marco Gario
#
#   Licensed under the Apache License, Version 2.0 (the "License");
#   you may not use this file except in compliance with the License.
#   You may obtain a copy of the License at
#
#       http://www.apache.org/licenses/LICENSE-2.0
#
#   Unless required by applicable law or agreed to in writing, software
#   distributed under the License is distributed on an "AS IS" BASIS,
#   WITHOUT WARRANTIES OR CONDITIONS OF ANY KIND, either express or implied.
#   See the License for the specific language governing permissions and
#   limitations under the License.
#
from fractions import Fraction
import pysmt

from pysmt.walkers.dag import DagWalker
from pysmt.fnode import FNode
from typing import Any, List, Optional, Union, cast

class IdentityDagWalker(DagWalker):
    """This class traverses a formula and rebuilds it recursively
    identically.

    This could be useful when only some nodes needs to be rewritten
    but the structure of the formula has to be kept.

    """

    def __init__(self, env: Optional["pysmt.environment.Environment"]=None, invalidate_memoization: bool=False):
        DagWalker.__init__(self,
                           env=env,
                           invalidate_memoization=invalidate_memoization)
        self.mgr = self.env.formula_manager

    def walk_symbol(self, formula: FNode, args: List[Union[Any, FNode]], **kwargs) -> FNode:
        return self.mgr.Symbol(formula.symbol_name(),
                               formula.symbol_type())

    def walk_algebraic_constant(self, formula, args, **kwargs):
        return self.mgr._Algebraic(formula.constant_value())

    def walk_real_constant(self, formula: FNode, args: List[Any], **kwargs) -> FNode:
        return self.mgr.Real(cast(Fraction, formula.constant_value()))

    def walk_int_constant(self, formula: FNode, args: List[Any], **kwargs) -> FNode:
        return self.mgr.Int(cast(int, formula.constant_value()))

    def walk_bool_constant(self, formula: FNode, args: List[Any], **kwargs) -> FNode:
        return self.mgr.Bool(cast(bool, formula.constant_value()))

    def walk_str_constant(self, formula: FNode, **kwargs) -> FNode:
        return self.mgr.String(cast(str, formula.constant_value()))

    def walk_and(self, formula: FNode, args: List[FNode], **kwargs) -> FNode:
        return self.mgr.And(args)

    def walk_or(self, formula: FNode, args: List[FNode], **kwargs) -> FNode:
        return self.mgr.Or(args)

    def walk_not(self, formula: FNode, args: List[FNode], **kwargs) -> FNode:
        return self.mgr.Not(args[0])

    def walk_iff(self, formula: FNode, args: List[FNode], **kwargs) -> FNode:
        return self.mgr.Iff(args[0], args[1])

    def walk_implies(self, formula: FNode, args: List[FNode], **kwargs) -> FNode:
        return self.mgr.Implies(args[0], args[1])

    def walk_equals(self, formula: FNode, args: List[FNode], **kwargs) -> FNode:
        return self.mgr.Equals(args[0], args[1])

    def walk_ite(self, formula: FNode, args: List[FNode], **kwargs) -> FNode:
        return self.mgr.Ite(args[0], args[1], args[2])

    def walk_le(self, formula: FNode, args: List[FNode], **kwargs) -> FNode:
        return self.mgr.LE(args[0], args[1])

    def walk_lt(self, formula: FNode, args: List[FNode], **kwargs) -> FNode:
        return self.mgr.LT(args[0], args[1])

    def walk_forall(self, formula, args, **kwargs):
        qvars = [self.walk_symbol(v, args, **kwargs)
                 for v in formula.quantifier_vars()]
        return self.mgr.ForAll(qvars, args[0])

    def walk_exists(self, formula, args, **kwargs):
        qvars = [self.walk_symbol(v, args, **kwargs)
                 for v in formula.quantifier_vars()]
        return self.mgr.Exists(qvars, args[0])

    def walk_plus(self, formula: FNode, args: List[FNode], **kwargs) -> FNode:
        return self.mgr.Plus(args)

    def walk_times(self, formula: FNode, args: List[FNode], **kwargs) -> FNode:
        return self.mgr.Times(args)

    def walk_pow(self, formula: FNode, args: List[FNode], **kwargs) -> FNode:
        return self.mgr.Pow(args[0], args[1])

    def walk_minus(self, formula: FNode, args: List[FNode], **kwargs) -> FNode:
        return self.mgr.Minus(args[0], args[1])

    def walk_function(self, formula: FNode, args: List[FNode], **kwargs) -> FNode:
        # We re-create the symbol name
        old_name = formula.function_name()
        new_name = self.walk_symbol(old_name, args, **kwargs)
        return self.mgr.Function(new_name, args)

    def walk_toreal(self, formula: FNode, args: List[FNode], **kwargs) -> FNode:
        return self.mgr.ToReal(args[0])

    def walk_bv_constant(self, formula: FNode, **kwargs) -> FNode:
        return self.mgr.BV(cast(int, formula.constant_value()), formula.bv_width())

    def walk_bv_and(self, formula: FNode, args: List[FNode], **kwargs) -> FNode:
        return self.mgr.BVAnd(args[0], args[1])

    def walk_bv_not(self, formula: FNode, args: List[FNode], **kwargs) -> FNode:
        return self.mgr.BVNot(args[0])

    def walk_bv_neg(self, formula: FNode, args: List[FNode], **kwargs) -> FNode:
        return self.mgr.BVNeg(args[0])

    def walk_bv_or(self, formula: FNode, args: List[FNode], **kwargs) -> FNode:
        return self.mgr.BVOr(args[0], args[1])

    def walk_bv_xor(self, formula: FNode, args: List[FNode], **kwargs) -> FNode:
        return self.mgr.BVXor(args[0], args[1])

    def walk_bv_add(self, formula: FNode, args: List[FNode], **kwargs) -> FNode:
        return self.mgr.BVAdd(args[0], args[1])

    def walk_bv_sub(self, formula: FNode, args: List[FNode], **kwargs) -> FNode:
        return self.mgr.BVSub(args[0], args[1])

    def walk_bv_mul(self, formula: FNode, args: List[FNode], **kwargs) -> FNode:
        return self.mgr.BVMul(args[0], args[1])

    def walk_bv_udiv(self, formula: FNode, args: List[FNode], **kwargs) -> FNode:
        return self.mgr.BVUDiv(args[0], args[1])

    def walk_bv_urem(self, formula: FNode, args: List[FNode], **kwargs) -> FNode:
        return self.mgr.BVURem(args[0], args[1])

    def walk_bv_ult(self, formula: FNode, args: List[FNode], **kwargs) -> FNode:
        return self.mgr.BVULT(args[0], args[1])

    def walk_bv_ule(self, formula: FNode, args: List[FNode], **kwargs) -> FNode:
        return self.mgr.BVULE(args[0], args[1])

    def walk_bv_extract(self, formula: FNode, args: List[FNode], **kwargs) -> FNode:
        return self.mgr.BVExtract(args[0],
                                  start=formula.bv_extract_start(),
                                  end=formula.bv_extract_end())

    def walk_bv_ror(self, formula: FNode, args: List[FNode], **kwargs) -> FNode:
        return self.mgr.BVRor(args[0], formula.bv_rotation_step())

    def walk_bv_rol(self, formula: FNode, args: List[FNode], **kwargs) -> FNode:
        return self.mgr.BVRol(args[0], formula.bv_rotation_step())

    def walk_bv_sext(self, formula: FNode, args: List[FNode], **kwargs) -> FNode:
        return self.mgr.BVSExt(args[0], formula.bv_extend_step())

    def walk_bv_zext(self, formula: FNode, args: List[FNode], **kwargs) -> FNode:
        return self.mgr.BVZExt(args[0], formula.bv_extend_step())

    def walk_bv_concat(self, formula: FNode, args: List[FNode], **kwargs) -> FNode:
        return self.mgr.BVConcat(args[0], args[1])

    def walk_bv_lshl(self, formula: FNode, args: List[FNode], **kwargs) -> FNode:
        return self.mgr.BVLShl(args[0], args[1])

    def walk_bv_lshr(self, formula: FNode, args: List[FNode], **kwargs) -> FNode:
        return self.mgr.BVLShr(args[0], args[1])

    def walk_bv_ashr(self, formula: FNode, args: List[FNode], **kwargs) -> FNode:
        return self.mgr.BVAShr(args[0], args[1])

    def walk_bv_comp(self, formula: FNode, args: List[FNode], **kwargs) -> FNode:
        return self.mgr.BVComp(args[0], args[1])

    def walk_bv_slt(self, formula: FNode, args: List[FNode], **kwargs) -> FNode:
        return self.mgr.BVSLT(args[0], args[1])

    def walk_bv_sle(self, formula: FNode, args: List[FNode], **kwargs) -> FNode:
        return self.mgr.BVSLE(args[0], args[1])

    def walk_bv_sdiv(self, formula: FNode, args: List[FNode], **kwargs) -> FNode:
        return self.mgr.BVSDiv(args[0], args[1])

    def walk_bv_srem(self, formula: FNode, args: List[FNode], **kwargs) -> FNode:
        return self.mgr.BVSRem(args[0], args[1])

    def walk_str_length(self, formula: FNode, args: List[FNode], **kwargs) -> FNode:
        return self.mgr.StrLength(args[0])

    def walk_str_concat(self, formula: FNode, args: List[FNode], **kwargs) -> FNode:
        return self.mgr.StrConcat(args)

    def walk_str_contains(self, formula: FNode, args: List[FNode], **kwargs) -> FNode:
        return self.mgr.StrContains(args[0], args[1])

    def walk_str_indexof(self, formula: FNode, args: List[FNode], **kwargs) -> FNode:
        return self.mgr.StrIndexOf(args[0], args[1], args[2])

    def walk_str_replace(self, formula: FNode, args: List[FNode], **kwargs) -> FNode:
        return self.mgr.StrReplace(args[0], args[1], args[2])

    def walk_str_substr(self, formula: FNode, args: List[FNode], **kwargs) -> FNode:
        return self.mgr.StrSubstr(args[0], args[1], args[2])

    def walk_str_prefixof(self, formula: FNode, args: List[FNode], **kwargs) -> FNode:
        return self.mgr.StrPrefixOf(args[0], args[1])

    def walk_str_suffixof(self, formula: FNode, args: List[FNode], **kwargs) -> FNode:
        return self.mgr.StrSuffixOf(args[0], args[1])

    def walk_str_to_int(self, formula: FNode, args: List[FNode], **kwargs) -> FNode:
        return self.mgr.StrToInt(args[0])

    def walk_int_to_str(self, formula: FNode, args: List[FNode], **kwargs) -> FNode:
        return self.mgr.IntToStr(args[0])

    def walk_str_charat(self, formula: FNode, args: List[FNode], **kwargs) -> FNode:
        return self.mgr.StrCharAt(args[0], args[1])

    def walk_bv_tonatural(self, formula: FNode, args: List[FNode], **kwargs) -> FNode:
        return self.mgr.BVToNatural(args[0])

    def walk_array_select(self, formula: FNode, args: List[FNode], **kwargs) -> FNode:
        return self.mgr.Select(args[0], args[1])

    def walk_array_store(self, formula: FNode, args: List[FNode], **kwargs) -> FNode:
        return self.mgr.Store(args[0], args[1], args[2])

    def walk_array_value(self, formula: FNode, args: List[FNode], **kwargs) -> FNode:
        assign = dict(zip(args[1::2], args[2::2]))
        return self.mgr.Array(formula.array_value_index_type(),
                              args[0],
                              assign)

    def walk_div(self, formula: FNode, args: List[FNode], **kwargs) -> FNode:
        return self.mgr.Div(args[0], args[1])
