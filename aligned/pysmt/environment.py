#
# This file is part of pySMT.
#
#   Copyright 2014 Andrea Micheli and Marco Gario
#
#   Licensed under the Apache License, Version 2.0 (the "License");
#   you may not use this file except in compliance with the License.
#   You may obtain a copy of the License at
#
#       http://www.apache.org/licenses/LICENSE-2.0
#
#   Unless required by applicable law or agreed to in writing, software
#   distributed under the License is distributed on an "AS IS" BASIS,
#   WITHOUT WARRANTIES OR CONDITIONS OF ANY KIND, either express or implied.
#   See the License for the specific language governing permissions and
#   limitations under the License.
#
"""
The Environment is a key structure in pySMT. It contains multiple
singleton objects that are used throughout the system, such as the
FormulaManager, Simplifier, HRSerializer, SimpleTypeChecker.
"""

from typing import List, Optional

import pysmt.simplifier
import pysmt.printers
import pysmt.substituter
import pysmt.type_checker
import pysmt.oracles
import pysmt.formula
import pysmt.typing


class Environment(object):
    """The Environment provides global singleton instances of various objects.

    FormulaManager and the TypeChecker are among the most commonly used ones.

    Subclasses of Environment should take care of adjusting the list
    of classes for the different services, by changing the class
    attributes.
    """

    TypeCheckerClass = pysmt.type_checker.SimpleTypeChecker
    FormulaManagerClass = pysmt.formula.FormulaManager
    TypeManagerClass = pysmt.typing.TypeManager
    SimplifierClass = pysmt.simplifier.Simplifier
    # SubstituterClass = pysmt.substituter.MSSubstituter
    SubstituterClass = pysmt.substituter.MGSubstituter
    HRSerializerClass = pysmt.printers.HRSerializer
    QuantifierOracleClass = pysmt.oracles.QuantifierOracle
    TheoryOracleClass = pysmt.oracles.TheoryOracle
    FreeVarsOracleClass= pysmt.oracles.FreeVarsOracle
    SizeOracleClass = pysmt.oracles.SizeOracle
    AtomsOracleClass = pysmt.oracles.AtomsOracle
    TypesOracleClass = pysmt.oracles.TypesOracle

    def __init__(self):
        self._stc = self.TypeCheckerClass(self)
        self._formula_manager = self.FormulaManagerClass(self)
        # NOTE: Both Simplifier and Substituter keep an internal copy
        # of the Formula Manager and need to be initialized afterwards
        self._simplifier = self.SimplifierClass(self)
        self._substituter = self.SubstituterClass(self)
        self._serializer = self.HRSerializerClass(self)
        self._qfo = self.QuantifierOracleClass(self)
        self._theoryo = self.TheoryOracleClass(self)
        self._fvo = self.FreeVarsOracleClass(self)
        self._sizeo = self.SizeOracleClass(self)
        self._ao = self.AtomsOracleClass(self)
        self._typeso = self.TypesOracleClass(self)
        self._type_manager = self.TypeManagerClass(self)

        self._factory = None
        # Configurations
        self.enable_infix_notation = False
        self.enable_div_by_0 = True

        # This option allows the construction of a symbol with empty
        # name (i.e. `Symbol("", INT)`). This feature is allowed by
        # SmtLib, but not all solvers support this and the machinery
        # needed to rename this one symbol is simply not worth the
        # effort given that such a name is simply bad
        # practice. However to validate pathological models we can
        # allow this on the pysmt side to use walkers
        # (e.g. substitution and simplification).
        self.allow_empty_var_names = False

        # Dynamic Walker Configuration Map
        # See: add_dynamic_walker_function
        self.dwf = {}

    @property
    def formula_manager(self) -> pysmt.formula.FormulaManager:
        return self._formula_manager

    @property
    def type_manager(self) -> pysmt.typing.TypeManager:
        return self._type_manager

    @property
    def simplifier(self) -> pysmt.simplifier.Simplifier:
        return self._simplifier

    @property
    def serializer(self) -> pysmt.printers.HRSerializer:
        return self._serializer

    @property
    def substituter(self) -> pysmt.substituter.Substituter:
        return self._substituter

    @property
    def stc(self) -> pysmt.type_checker.SimpleTypeChecker:
        """ Get the Simple Type Checker """
        return self._stc

    @property
    def qfo(self) -> pysmt.oracles.QuantifierOracle:
        """ Get the Quantifier Oracle """
        return self._qfo

    @property
    def ao(self) -> pysmt.oracles.AtomsOracle:
        """ Get the Atoms Oracle """
        return self._ao

    @property
    def theoryo(self) -> pysmt.oracles.TheoryOracle:
        """ Get the Theory Oracle """
        return self._theoryo

    @property
    def typeso(self) -> pysmt.oracles.TypesOracle:
        """ Get the Types Oracle """
        return self._typeso

    @property
    def fvo(self) -> pysmt.oracles.FreeVarsOracle:
        """ Get the FreeVars Oracle """
        return self._fvo

    @property
    def sizeo(self) -> pysmt.oracles.SizeOracle:
        """ Get the Size Oracle """
        return self._sizeo

    def add_dynamic_walker_function(self, nodetype, walker, function):
        """Dynamically bind the given function to the walker for the nodetype.

        This function enables the extension of walkers for new
        nodetypes. When introducing a new nodetype, we link a new
        function to a given walker, so that the walker will be able to
        handle the new nodetype.

        See :py:meth:`pysmt.walkers.generic.Walker.walk_error` for
        more information.
        """
        # self.dwf is a map of maps: {nodetype, {walker: function}}
        if nodetype not in self.dwf:
            self.dwf[nodetype] = {}

        assert walker not in self.dwf[nodetype], "Redefinition"
        self.dwf[nodetype][walker] = function

    @property
    def factory(self) -> "pysmt.factory.Factory":
        import pysmt.factory
        if self._factory is None:
            self._factory = pysmt.factory.Factory(self)
        return self._factory

    def __enter__(self) -> "Environment":
        """Entering a Context """
        push_env(self)
        return self

    def __exit__(self, exc_type, exc_val, exc_tb):
        """Remove environment from global stack."""
        pop_env()

# EOC Environment

#### GLOBAL ENVIRONMENTS STACKS ####
ENVIRONMENTS_STACK: List[Environment] = []

def get_env() -> Environment:
    """Returns the Environment at the head of the stack."""
    return ENVIRONMENTS_STACK[-1]


def push_env(env: Optional[Environment] = None):
    """Push a env in the stack. If env is None, a new Environment is created."""
    if env is None:
        env = Environment()
    ENVIRONMENTS_STACK.append(env)


def pop_env() -> Environment:
    """Pop an env from the stack."""
    return ENVIRONMENTS_STACK.pop()


def reset_env() -> Environment:
    """Destroys and recreate the head environment."""
    pop_env()
    push_env()
    return get_env()

# Create the default environment
push_env()
