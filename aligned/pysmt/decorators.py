#
# This file is part of pySMT.
#
#   Copyright 2014 Andrea Micheli and Marco Gario
#
#   Licensed under the Apache License, Version 2.0 (the "License");
#   you may not use this file except in compliance with the License.
#   You may obtain a copy of the License at
#
#       http://www.apache.org/licenses/LICENSE-2.0
#
#   Unless required by applicable law or agreed to in writing, software
#   distributed under the License is distributed on an "AS IS" BASIS,
#   WITHOUT WARRANTIES OR CONDITIONS OF ANY KIND, either express or implied.
#   See the License for the specific language governing permissions and
#   limitations under the License.
#
from functools import wraps
import warnings

import pysmt.exceptions
from typing import Callable, Optional

class deprecated(object):
    """This is a decorator which can be used to mark functions
    as deprecated. It will result in a warning being emitted
    when the function is used."""

    def __init__(self, alternative: Optional[str]=None):
        self.alternative = alternative

    def __call__(self, func: Callable) -> Callable:
        def newFunc(*args, **kwargs):
            alt = ""
            if self.alternative is not None:
                alt = " You should call %s() instead!" % self.alternative
            warnings.warn("Call to deprecated function %s().%s" % \
                          (func.__name__, alt),
                          category=DeprecationWarning,
                          stacklevel=2)
            return func(*args, **kwargs)
        newFunc.__name__ = func.__name__
        newFunc.__doc__ = func.__doc__
        newFunc.__dict__.update(func.__dict__)
        return newFunc


def clear_pending_pop(f: Callable) -> Callable:
    """Pop the solver stack (if necessary) before calling the function.

    Some functions (e.g., get_value) required the state of the solver
    to stay unchanged after a call to solve. Therefore, we can leave
    the solver in an intermediate state in which there is a formula
    asserted in the stack that is not needed (e.g., when solving under
    assumptions). In order to guarantee that methods operate on the
    correct set of formulae, all methods of the solver that rely on
    the assertion stack, need to be marked with this decorator.
    """

    @wraps(f)
    def clear_pending_pop_wrap(self, *args, **kwargs):
        if self.pending_pop:
            self.pending_pop = False
            self.pop()
        return f(self, *args, **kwargs)
    return clear_pending_pop_wrap


def typecheck_result(f):
    """Performs type checking on the return value using the global environment"""

    @wraps(f)
    def typecheck_result_wrap(*args, **kwargs):
        res = f(*args, **kwargs)
        res.get_type() # This raises an exception if an invalid type is found
    return typecheck_result_wrap


def catch_conversion_error(f: Callable) -> Callable:
    """Catch unknown operators errors and converts them into conversion error."""

    @wraps(f)
    def catch_conversion_error_wrap(*args, **kwargs):
        try:
            res = f(*args, **kwargs)
        except pysmt.exceptions.UnsupportedOperatorError as ex:
            raise pysmt.exceptions.ConvertExpressionError(message=
                "Could not convert the input expression. " +
                "The formula contains unsupported operators. " +
                "The error was: %s" % ex.message,
            expression=ex.expression)
        return res
    return catch_conversion_error_wrap


def assert_infix_enabled(f: Callable) -> Callable:
    """Raise an exception if infix notation is not enabled."""
    from functools import wraps
    from pysmt.exceptions import PysmtModeError
    INFIX_ERROR_MSG = """Infix notation is not enabled for the current environment.
Enable it by setting enable_infix_notation to True."""

    @wraps(f)
    def assert_infix_enabled_wrap(*args, **kwargs):
        from pysmt.environment import get_env
        if not get_env().enable_infix_notation:
            raise PysmtModeError(INFIX_ERROR_MSG)
        return f(*args, **kwargs)
    return assert_infix_enabled_wrap
