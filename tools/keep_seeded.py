#!/usr/bin/env python3
"""tools/keep_seeded.py PROP SRC_DIR ID 'needs…' 'check outcome…' -- store a confirmed seeded change under seeded/ID/"""
import json, os, shutil, subprocess, sys
V = os.path.dirname(os.path.dirname(os.path.abspath(__file__)))
prop, src, sid, needs, outcome = sys.argv[1:6]
dst = os.path.join(V, "seeded", sid)
os.makedirs(dst, exist_ok=True)
for f in os.listdir(src):
    if f.endswith((".diff", ".py", ".md", ".txt", ".smt2")):
        shutil.copy(os.path.join(src, f), os.path.join(dst, f))
head = subprocess.run(["git", "-C", "/repo", "rev-parse", "--short", "HEAD"], capture_output=True, text=True).stdout.strip()
meta = {
    "property": prop,
    "id": sid,
    "needs_to_manifest": needs,
    "confirmed": "tools/confirm_seeded.sh in a scratch worktree of /repo@%s: demo.py exits 0 on the pristine tree, patch applies, demo.py exits non-zero with the patch, the 376-test baseline suite still passes with the patch" % head,
    "check_run": "tools/try_seeded.sh %s seeded/%s/patch.diff quick (patch applied to a scratch worktree, VERIF_REPO pointing at it)" % (prop, sid),
    "check_outcome": outcome,
    "origin": "written by a fresh sub-agent that saw only the property text and a scratch worktree of /repo (nothing from /verif)",
}
json.dump(meta, open(os.path.join(dst, "meta.json"), "w"), indent=1)
print("kept", dst)
