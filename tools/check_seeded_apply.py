#!/usr/bin/env python3
"""tools/check_seeded_apply.py -- records in every seeded/<id>/meta.json whether its patch still applies to /repo's HEAD
(fix commits made after a change was kept can touch the same lines); run by hand, never at check time."""
import glob, json, os, subprocess
V = os.path.dirname(os.path.dirname(os.path.abspath(__file__)))
head = subprocess.run(["git", "-C", "/repo", "rev-parse", "--short", "HEAD"], capture_output=True, text=True).stdout.strip()
n = bad = 0
for d in sorted(glob.glob(os.path.join(V, "seeded", "C*"))):
    p = os.path.join(d, "patch.diff"); mp = os.path.join(d, "meta.json")
    if not (os.path.exists(p) and os.path.exists(mp)):
        continue
    ok = subprocess.run(["git", "-C", "/repo", "apply", "--check", p], capture_output=True).returncode == 0
    m = json.load(open(mp))
    m["applies_to_repo_head"] = {"head": head, "applies": ok}
    json.dump(m, open(mp, "w"), indent=1)
    n += 1; bad += (not ok)
    if not ok:
        print("does not apply any more:", os.path.basename(d))
print(n, "seeded changes,", bad, "no longer apply to", head)
