"""Translator for C16: where does every Solver class put @clear_pending_pop?

Reads, with `ast` only (nothing is imported from the repository, so it also works for wrappers whose native
module is missing), every class defined in

    <repo>/pysmt/solvers/*.py      (includes solver.py, portfolio.py)
    <repo>/pysmt/smtlib/solver.py

and emits lean/PySMT/Gen/PendingPop.lean: for every class that has pysmt.solvers.solver.Solver in its
linearisation

    name      qualified name  <module>.<Class>
    mro       C3 linearisation (Python's method resolution order) restricted to the scanned classes
    defines   the methods / properties defined in the class body
    decorated those of them that carry @clear_pending_pop
    abstract  those whose body is only `raise NotImplementedError`
    trivial   those whose body does nothing (pass / return / return None / return <parameter>)
    assumePush / assumeGuarded   does the body of solve/_solve execute `self.pending_pop = True` (the wrapper asserts
              assumptions in a pushed level), and is every such assignment in a `finally` / re-raising `except`

The interpretation of the table (which entry point is covered for which class) is done in Lean
(PySMT/Impl/SolverTrack.lean: `configOf`) and, independently, by `placement()` below for the harness.
"""
import ast
import glob
import os

SOLVER = "pysmt.solvers.solver.Solver"
ITS = "pysmt.solvers.solver.IncrementalTrackingSolver"
DECORATOR = "clear_pending_pop"


def _files(repo):
    fs = sorted(glob.glob(os.path.join(repo, "pysmt", "solvers", "*.py")))
    fs.append(os.path.join(repo, "pysmt", "smtlib", "solver.py"))
    return [f for f in fs if os.path.basename(f) != "__init__.py"]


def _modname(repo, path):
    rel = os.path.relpath(path, repo)
    return rel[:-3].replace(os.sep, ".")


def _is_docstring(stmt):
    return isinstance(stmt, ast.Expr) and isinstance(stmt.value, ast.Constant) and isinstance(stmt.value.value, str)


def _body(fn):
    body = list(fn.body)
    if body and _is_docstring(body[0]):
        body = body[1:]
    return body


def _is_abstract(fn):
    body = _body(fn)
    if len(body) != 1 or not isinstance(body[0], ast.Raise):
        return False
    exc = body[0].exc
    if isinstance(exc, ast.Call):
        exc = exc.func
    return isinstance(exc, ast.Name) and exc.id == "NotImplementedError"


def _is_trivial(fn):
    params = {a.arg for a in fn.args.args + fn.args.kwonlyargs}
    body = _body(fn)
    for st in body:
        if isinstance(st, ast.Pass):
            continue
        if isinstance(st, ast.Return):
            v = st.value
            if v is None or (isinstance(v, ast.Constant) and v.value is None):
                continue
            if isinstance(v, ast.Name) and v.id in params:
                continue
        return False
    return True


def _is_pending_assign(st):
    if not isinstance(st, ast.Assign) or len(st.targets) != 1:
        return False
    t = st.targets[0]
    return (isinstance(t, ast.Attribute) and t.attr == "pending_pop" and isinstance(t.value, ast.Name)
            and t.value.id == "self" and isinstance(st.value, ast.Constant) and st.value.value is True)


def _pending_in_solve(fn):
    """(sets, guarded): does the body of solve/_solve execute `self.pending_pop = True` (the wrapper pushes a level
    for assumptions it cannot pass natively), and is EVERY such assignment in the `finally` part of a `try`, or in an
    `except` handler that re-raises, so that it is also reached when asserting the assumptions raises?"""
    found = []

    def walk(stmts, protected):
        for st in stmts:
            if _is_pending_assign(st):
                found.append(protected)
            elif isinstance(st, ast.Try):
                walk(st.body, protected)
                walk(st.orelse, protected)
                walk(st.finalbody, True)
                for h in st.handlers:
                    reraises = any(isinstance(x, ast.Raise) and x.exc is None for x in h.body)
                    walk(h.body, protected or reraises)
            elif isinstance(st, (ast.FunctionDef, ast.AsyncFunctionDef, ast.ClassDef)):
                continue
            else:
                for fld in ("body", "orelse"):
                    sub = getattr(st, fld, None)
                    if isinstance(sub, list):
                        walk(sub, protected)
    walk(fn.body, False)
    return (len(found) > 0, len(found) > 0 and all(found))


def _has_decorator(fn):
    for d in fn.decorator_list:
        if isinstance(d, ast.Call):
            d = d.func
        if isinstance(d, ast.Name) and d.id == DECORATOR:
            return True
        if isinstance(d, ast.Attribute) and d.attr == DECORATOR:
            return True
    return False


def scan(repo):
    """qualified class name -> dict(bases=[qualified or raw names], defines, decorated, abstract, trivial)"""
    classes = {}
    for path in _files(repo):
        mod = _modname(repo, path)
        tree = ast.parse(open(path).read(), path)
        # names visible at module level: imported classes and local classes
        scope = {}
        for node in tree.body:
            if isinstance(node, ast.ImportFrom) and node.module and node.level == 0:
                for a in node.names:
                    scope[a.asname or a.name] = node.module + "." + a.name
            elif isinstance(node, ast.ClassDef):
                scope[node.name] = mod + "." + node.name
        # classes may also be defined inside `try:` / `if` blocks at module level
        todo = list(tree.body)
        while todo:
            node = todo.pop(0)
            if isinstance(node, (ast.Try, ast.If, ast.With)):
                for fld in ("body", "orelse", "finalbody", "handlers"):
                    for ch in getattr(node, fld, []) or []:
                        if isinstance(ch, ast.ExceptHandler):
                            todo.extend(ch.body)
                        else:
                            todo.append(ch)
                continue
            if not isinstance(node, ast.ClassDef):
                continue
            scope.setdefault(node.name, mod + "." + node.name)
            bases = []
            for b in node.bases:
                if isinstance(b, ast.Name):
                    bases.append(scope.get(b.id, b.id))
                elif isinstance(b, ast.Attribute):
                    bases.append(ast.unparse(b))
                else:
                    raise ValueError("%s: cannot express base %s of %s" % (path, ast.dump(b), node.name))
            info = dict(bases=bases, defines=[], decorated=[], abstract=[], trivial=[],
                        file=os.path.relpath(path, repo), assume_push=False, assume_guarded=False)
            for st in node.body:
                if isinstance(st, (ast.FunctionDef, ast.AsyncFunctionDef)) and st.name in ("solve", "_solve"):
                    sets, guarded = _pending_in_solve(st)
                    info["assume_push"] = info.get("assume_push", False) or sets
                    info["assume_guarded"] = guarded if sets else info.get("assume_guarded", False)
                if isinstance(st, (ast.FunctionDef, ast.AsyncFunctionDef)):
                    if st.name in info["defines"]:
                        # redefinition (e.g. property setter): the last definition wins, like in Python
                        for k in ("defines", "decorated", "abstract", "trivial"):
                            if st.name in info[k]:
                                info[k].remove(st.name)
                    info["defines"].append(st.name)
                    if _has_decorator(st):
                        info["decorated"].append(st.name)
                    if _is_abstract(st):
                        info["abstract"].append(st.name)
                    elif _is_trivial(st):
                        info["trivial"].append(st.name)
                elif isinstance(st, ast.Assign):
                    # `solve = other_method` style aliases are not used in the tree; refuse silently wrong tables
                    for t in st.targets:
                        if isinstance(t, ast.Name) and t.id in ENTRY_NAMES:
                            raise ValueError("%s: %s.%s is bound by assignment; the translator cannot express it"
                                             % (path, node.name, t.id))
            classes[mod + "." + node.name] = info
    return classes


def _c3(name, classes, memo):
    if name in memo:
        return memo[name]
    if name not in classes:
        memo[name] = [name]
        return memo[name]
    bases = [b for b in classes[name]["bases"] if b != "object"]
    seqs = [list(_c3(b, classes, memo)) for b in bases] + [list(bases)]
    res = [name]
    while True:
        seqs = [s for s in seqs if s]
        if not seqs:
            break
        for s in seqs:
            cand = s[0]
            if not any(cand in t[1:] for t in seqs):
                break
        else:
            raise ValueError("inconsistent hierarchy for %s" % name)
        res.append(cand)
        for s in seqs:
            if s and s[0] == cand:
                del s[0]
    memo[name] = res
    return res


PUBLIC = ["add_assertion", "push", "pop", "reset_assertions", "solve"]
PROXIES = ["_add_assertion", "_push", "_pop", "_reset_assertions"]
EXTRAS = ["all_sat", "declare_variable"]
ENTRY_NAMES = set(PUBLIC + PROXIES + ["_solve", "is_sat", "assertions"] + EXTRAS)


def table(repo):
    classes = scan(repo)
    memo = {}
    out = []
    wanted = set()
    for name in classes:
        mro = _c3(name, classes, memo)
        if SOLVER in mro:
            wanted.update(m for m in mro if m in classes)
    for name in sorted(wanted):
        mro = _c3(name, classes, memo)
        info = classes[name]
        out.append(dict(name=name, file=info["file"], mro=[m for m in mro if m in classes],
                        defines=info["defines"], decorated=info["decorated"],
                        abstract=info["abstract"], trivial=info["trivial"],
                        assume_push=info["assume_push"], assume_guarded=info["assume_guarded"]))
    return out


# ----------------------------------------------------------------- interpretation (mirrors SolverTrack.configOf)
def _resolve(tbl, cls, meth):
    for m in cls["mro"]:
        c = tbl.get(m)
        if c is not None and meth in c["defines"]:
            return c
    return None


def placement(tbl_list, name):
    """Config of the Lean model for class `name` (same computation as `configOf` in Lean; cross-checked by the
    harness through the driver)."""
    tbl = {c["name"]: c for c in tbl_list}
    cls = tbl[name]

    def dec(pub, proxy):
        o = _resolve(tbl, cls, pub)
        if o is None:
            return False
        if pub in o["decorated"]:
            return True
        if o["name"] == ITS:
            p = _resolve(tbl, cls, proxy)
            return p is not None and proxy in p["decorated"]
        return False

    def implemented(pub, proxy):
        o = _resolve(tbl, cls, pub)
        if o is None or pub in o["abstract"]:
            return False
        if o["name"] == ITS:
            p = _resolve(tbl, cls, proxy)
            return p is not None and proxy not in p["abstract"]
        return True

    tracking = ITS in cls["mro"]
    proxies_trivial = all((_resolve(tbl, cls, p) is not None and p in _resolve(tbl, cls, p)["trivial"])
                          for p in PROXIES)
    o_is_sat = _resolve(tbl, cls, "is_sat")
    o_read = _resolve(tbl, cls, "assertions")
    extras_ok = True
    for m in EXTRAS:
        o = _resolve(tbl, cls, m)
        if o is not None and m not in o["abstract"] and m not in o["trivial"] and m not in o["decorated"]:
            extras_ok = False
    o_solve = _resolve(tbl, cls, "solve")
    if o_solve is not None and o_solve["name"] == ITS:
        o_solve = _resolve(tbl, cls, "_solve")
    assume_push = bool(o_solve is not None and o_solve.get("assume_push"))
    assume_guarded = bool(o_solve is not None and o_solve.get("assume_guarded"))
    return dict(
        assumePush=assume_push, assumeGuarded=assume_guarded,
        dAdd=dec("add_assertion", "_add_assertion"), dPush=dec("push", "_push"), dPop=dec("pop", "_pop"),
        dReset=dec("reset_assertions", "_reset_assertions"), dSolve=dec("solve", "_solve"),
        dRead=(o_read is not None and "assertions" in o_read["decorated"]),
        tracking=tracking, native=not (tracking and proxies_trivial),
        pushSupported=implemented("push", "_push"),
        concrete=(SOLVER in cls["mro"]) and implemented("solve", "_solve"),
        usesBaseIsSat=(o_is_sat is not None and o_is_sat["name"] == SOLVER),
        extrasCovered=extras_ok)


# ----------------------------------------------------------------- Lean output
def _lstr(xs):
    return "[" + ", ".join('"%s"' % x for x in xs) + "]"


HEADER = '''/-! GENERATED by tools/gen_pendingpop.py from /repo (pysmt/solvers/*.py, pysmt/smtlib/solver.py) -- do not edit.
    Placement of `@clear_pending_pop` in every class below `pysmt.solvers.solver.Solver` (DESIGN C16). -/
namespace PySMT.Gen.PendingPop

structure ClassInfo where
  name : String
  file : String
  mro : List String
  defines : List String
  decorated : List String
  abstract : List String
  trivial : List String
  assumePush : Bool       -- the body of solve/_solve sets `self.pending_pop = True` (pushes a level for assumptions)
  assumeGuarded : Bool    -- … and does so in a `finally` / re-raising `except`, i.e. also when asserting them raises
  deriving Repr, DecidableEq, Inhabited

'''


def generate(repo):
    tbl = table(repo)
    keep = ENTRY_NAMES
    parts = [HEADER, "def classes : List ClassInfo := [\n"]
    rows = []
    for c in tbl:
        rows.append("  { name := \"%s\", file := \"%s\",\n    mro := %s,\n    defines := %s,\n    decorated := %s,\n"
                    "    abstract := %s,\n    trivial := %s,\n    assumePush := %s, assumeGuarded := %s }" % (
                        c["name"], c["file"], _lstr(c["mro"]),
                        _lstr([m for m in c["defines"] if m in keep]),
                        _lstr(c["decorated"]),
                        _lstr([m for m in c["abstract"] if m in keep]),
                        _lstr([m for m in c["trivial"] if m in keep]),
                        "true" if c["assume_push"] else "false", "true" if c["assume_guarded"] else "false"))
    parts.append(",\n".join(rows))
    parts.append("\n]\n\nend PySMT.Gen.PendingPop\n")
    return {"PendingPop.lean": "".join(parts)}


if __name__ == "__main__":
    import json
    import sys
    repo = sys.argv[1] if len(sys.argv) > 1 else os.environ.get("VERIF_REPO", "/repo")
    t = table(repo)
    for c in t:
        print(c["name"], json.dumps(placement(t, c["name"])))
