#!/usr/bin/env python3
"""tools/set_outcome.py SEEDED_ID 'outcome text'  -- update check_outcome of seeded/<id>/meta.json"""
import json, os, sys
V = os.path.dirname(os.path.dirname(os.path.abspath(__file__)))
p = os.path.join(V, "seeded", sys.argv[1], "meta.json")
m = json.load(open(p)); m["check_outcome"] = sys.argv[2]
json.dump(m, open(p, "w"), indent=1); print("updated", sys.argv[1])
