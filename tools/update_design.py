#!/usr/bin/env python3
"""Regenerates the tables of DESIGN.md section 11 (between AUTOGEN markers) from
known_findings.json, seeded/*/meta.json and evidence/*.json. Run by hand."""
import glob, json, os, re
V = os.path.dirname(os.path.dirname(os.path.abspath(__file__)))


def esc(s):
    return str(s).replace("|", "\\|").replace("\n", " ")


def findings():
    ents = json.load(open(os.path.join(V, "known_findings.json")))
    rows = {}
    for e in ents:
        key = (e.get("id"), e.get("kind"), e.get("what", "")[:60])
        r = rows.setdefault(key, dict(e, props=set()))
        r["props"].add(e.get("property"))
    out = ["| id | property | disposition | what |", "|---|---|---|---|"]
    def sk(r):
        m = re.match(r"F(\d+)(.*)", r.get("id") or "F999")
        return (int(m.group(1)) if m else 999, m.group(2) if m else "")
    for r in sorted(rows.values(), key=sk):
        disp = "fixed " + str(r.get("commit", "")) if r.get("kind") == "fixed" else "known (not repaired)"
        out.append("| %s | %s | %s | %s |" % (r.get("id"), " ".join(sorted(r["props"])), esc(disp), esc(r.get("what", ""))[:400]))
    return "\n".join(out)


def seeded():
    out = ["| seeded change | property | needs to manifest | outcome of the check |", "|---|---|---|---|"]
    for p in sorted(glob.glob(os.path.join(V, "seeded", "*", "meta.json"))):
        m = json.load(open(p))
        out.append("| seeded/%s | %s | %s | %s |" % (m["id"], m["property"], esc(m["needs_to_manifest"]), esc(m["check_outcome"])))
    return "\n".join(out)


def status():
    man = {c["property_id"]: c for c in json.load(open(os.path.join(V, "MANIFEST.json")))["checks"]}
    out = ["| property | obligations (theorems) | discharged | K/S cases (last quick run) | distinct non-trivial | wall s |", "|---|---|---|---|---|---|"]
    detail = []
    for p in sorted(glob.glob(os.path.join(V, "evidence", "C*.json"))):
        e = json.load(open(p)); c = e["coverage"]
        pid = e["property_id"]
        out.append("| %s | %s | %s | %s | %s | %s |" % (pid, c.get("obligations"), c.get("discharged"), c.get("evaluations"), c.get("distinct_nontrivial"), e.get("wall_s")))
        names = [t.split(".")[-1] for t in c.get("theorems", [])]
        partial = [n for n in names if n.endswith("_partial")]
        detail.append("* **%s** — technique: %s. Theorems (%d): %s.%s" % (
            pid, man.get(pid, {}).get("technique", "?"), len(names), ", ".join("`%s`" % n for n in names),
            (" Partial (statement weaker than the property; see MANIFEST level_claimed/level_note for what is missing): " + ", ".join("`%s`" % n for n in partial) + ".") if partial else ""))
    return "\n".join(out) + "\n\n" + "\n".join(detail)


def main():
    path = os.path.join(V, "DESIGN.md")
    s = open(path).read()
    for name, fn in (("findings", findings), ("seeded", seeded), ("status", status)):
        a, b = "<!-- AUTOGEN:%s -->" % name, "<!-- /AUTOGEN:%s -->" % name
        if a in s:
            i, j = s.index(a) + len(a), s.index(b)
            s = s[:i] + "\n" + fn() + "\n" + s[j:]
    open(path, "w").write(s)


if __name__ == "__main__":
    main()
