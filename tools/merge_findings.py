#!/usr/bin/env python3
"""Merge known_findings.d/*.json into known_findings.json (run by the integrator, never at check time)."""
import glob, json, os
V = os.path.dirname(os.path.dirname(os.path.abspath(__file__)))
out = []
for p in sorted(glob.glob(os.path.join(V, "known_findings.d", "*.json"))):
    out.extend(json.load(open(p)))
json.dump(out, open(os.path.join(V, "known_findings.json"), "w"), indent=1)
print(len(out), "entries")
