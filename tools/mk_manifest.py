#!/usr/bin/env python3
"""Writes MANIFEST.json from the table below (run by hand after editing; never at check time)."""
import json, os
V = os.path.dirname(os.path.dirname(os.path.abspath(__file__)))

NOTE = ("Trusted: Lean 4.33 kernel; axioms propext/Classical.choice/Quot.sound only (audited by #print axioms each run); "
        "the specification files lean/PySMT/Core + lean/PySMT/Spec; tools/extract.py; the correspondence harness. "
        "lean/PySMT/Impl is a hand-written model whose agreement with /repo is tested on every run, not proved. ")

# id -> dict(text=, note=, technique=, design=)   (claimed properties)
CLAIMED = {
}

# id -> reason (not claimed)
NOT_YET = "check under construction in this round (DESIGN.md section 10); not claimed until its model, theorems and correspondence run are committed"
ALL = ["C%02d" % i for i in range(1, 21)]


def main():
    checks = []
    for pid in ALL:
        c = CLAIMED.get(pid)
        if not c:
            continue
        checks.append({
            "property_id": pid,
            "quick_cmd": "./check %s --tier quick" % pid,
            "thorough_cmd": "./check %s --tier thorough" % pid,
            "evidence_file": "evidence/%s.json" % pid,
            "replay_cmd_template": "./check %s --replay {path}" % pid,
            "engine": "lean4-proof+correspondence",
            "level_claimed": {"category": "proof", "text": c["text"], "design_ref": c.get("design", "DESIGN.md section 5 " + pid)},
            "level_note": NOTE + c.get("note", ""),
            "technique": c["technique"],
        })
    man = {
        "version": 1,
        "setup_cmd": "cd lean && lake build",
        "hooks": {
            "guard": "PYSMT_VERIF",
            "enable": "no source hooks are needed: every observation is made from outside (wrapping walker callbacks, registering harness-defined solver classes, logging the SMT-LIB byte stream); PYSMT_VERIF=1 is set by ./check but nothing in /repo reads it",
            "baseline_off_cmd": "cd /repo && /venv/bin/python -m pytest -ra -q -p no:cacheprovider --timeout=900 --continue-on-collection-errors",
            "source_commits": [],
            "add_only": True,
        },
        "engines": [{
            "name": "lean4-proof+correspondence",
            "path": "check",
            "serves_properties": [c["property_id"] for c in checks],
            "kind_free_text": "Lean 4 theorems about a model (lean/PySMT), tied to /repo on every run by a translator (tools/extract.py -> lean/PySMT/Gen) and/or a differential run of the model's executable definitions against the implementation (harness/), with a failing-input search that uses the Lean reference semantics as oracle",
        }],
        "checks": checks,
        "not_applicable": [{"property_id": p, "reason": NOT_YET} for p in ALL if p not in CLAIMED],
        "notes": "See DESIGN.md. ./check CXX [--tier quick|thorough] [--replay file]; VERIF_SEED seeds every random choice; exit 0 = held, 1 = VIOLATION line printed, 2 = infrastructure error.",
    }
    json.dump(man, open(os.path.join(V, "MANIFEST.json"), "w"), indent=1)
    print(len(checks), "checks,", len(man["not_applicable"]), "not claimed")


if __name__ == "__main__":
    main()
