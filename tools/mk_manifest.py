#!/usr/bin/env python3
"""Writes MANIFEST.json from the table below (run by hand after editing; never at check time)."""
import json, os
V = os.path.dirname(os.path.dirname(os.path.abspath(__file__)))

NOTE = ("Trusted: Lean 4.33 kernel; axioms propext/Classical.choice/Quot.sound only (audited by #print axioms each run); "
        "the specification files lean/PySMT/Core + lean/PySMT/Spec; tools/extract.py; the correspondence harness. "
        "lean/PySMT/Impl is a hand-written model whose agreement with /repo is tested on every run, not proved. ")

# id -> dict(text=, note=, technique=, design=)   (claimed properties)
CLAIMED = {
 "C16": dict(
  text="Lean theorems over ALL legal command sequences (induction / simulation, no bound): script_refines_stack and goals_refine (get_last_formula's replay loop with its five parallel structures returns exactly the assertions and goals live under the SMT-LIB assertion-stack spec), strict_ok/strict_live (get_strict_formula), track_refines_stack (IncrementalTrackingSolver's assertion list after every step = live assertions), placement_sufficient + oneshot_restores (is_sat/is_valid/is_unsat/solve-with-assumptions leave the list as found whenever every state-changing entry point clears the pending pop) and placement_table, decided over a table of @clear_pending_pop placements REGENERATED from /repo's solver classes by tools/gen_pendingpop.py on every run (removing a decorator breaks the proof). Tied to the code by a differential run of the Lean models against SmtLibScript / a concrete IncrementalTrackingSolver subclass on all legal sequences up to a length bound plus sampled longer ones, and searched against the spec directly.",
  note="Formulas and goals are opaque ids in the model. Native solver wrappers are covered only through the regenerated decorator-placement table, not executed.",
  technique="Lean 4 refinement proof (assertion-stack spec) + regenerated decorator table + differential run"),
 "C17": dict(
  text="Lean theorems by induction over ALL API call sequences and all solver oracles: replies_in_sync, verdict_faithful, shortcuts_negate (unconditional, any solver process); stream_legal_partial, decl_mirror_partial, assertions_mirror_partial, solve_truth_partial, is_sat_truth_partial, model_total_partial (the command stream emitted by the model of the repaired SmtLibSolver is accepted by the strict SMT-LIB front-end spec, bookkeeping mirrors the solver's scopes level by level, get_model covers every live symbol) under LegalRun = API preconditions + the exclusion of known finding F36 (hence _partial; the unrestricted statement is refuted in Lean by the F36 witness). Tied to the code by driving the real SmtLibSolver (registered through the factory) against harness/refsolver.py, a strict reference solver process that rejects illegal streams, comparing the byte stream token-wise with the model, and by comparing refsolver with the Lean StrictSolver on random streams.",
  note="Function-typed symbols, print_model, named assertions, solve(assumptions) and non-incremental mode are not modelled. refsolver.py decides by exhaustive search over small finite domains.",
  technique="Lean 4 invariant proofs over call sequences + strict reference solver process + differential stream comparison"),
 "C18": dict(
  text="Lean theorems for an ARBITRARY satisfiability oracle satisfying OracleSpec (returns a model iff one exists; may answer differently on every call), arbitrary possibly infinite feasible sets with attained optimum, both strategies (linear, binary) and both mix-ins (assumption-based, incremental): search_optimal/search_none_iff/search_restores/casts_in_range/search_terminates (min/max x Int/unsigned/signed BV), maxsmt_opt, minmax_opt, maxmin_opt, boxed_opt, lexi_opt, pareto_front (yielded vectors are exactly the Pareto front, each once, solver restored) and their termination theorems; all carry the hypothesis `supported` (known finding F24b: KeyError for an Int objective mentioning bit-vectors) and are therefore named _partial; the unrestricted restore statement is refuted in Lean. Tied to the code by running the real SUAOptimizerMixin / IncrementalOptimizerMixin over an enumerating solver (harness/brute.py) and replaying the same oracle answers through the Lean model event by event (push/pop/assert/solve with full constraint lists, pivots, blocking clauses), plus OptSearchInterval method by method on a bound grid; searched against plain enumeration of the optimum / lexicographic optimum / Pareto front.",
  note="Real-valued objectives are not modelled (the property excludes bisection over reals); real MaxSMT weights only with the linear strategy. Pareto termination assumes finitely many feasible cost vectors.",
  technique="Lean 4 proofs of the search loops against an abstract oracle + step-by-step differential replay"),
 "C19": dict(
  text="Lean theorems as inductive invariants over EVERY reachable state of a transition system modelling portfolio.py (any number of members, any per-member behaviour answer/raise/unknown/silent exit, every interleaving, repeated solve/get_model/push/pop cycles): verdict_in_answers, verdict_is_common, failures_ignored, no_deadlock, solve_terminates, all_fail_error, outcome_allowed/allowed_reachable (the closed-form outcome set is exact), isuccs_iff; serve_from_winner_partial, query_answered_partial, losers_dead_partial, model_satisfies_partial need the explicit OS-level hypothesis killAtomic (a terminated member cannot consume a later control message), which killAtomic_needed proves necessary. Tied to the code set-valued: the real Portfolio with 2-4 harness-defined member solver processes (delays incl. near-ties, failure modes, schedule perturbation patched into is_alive/terminate) must produce an outcome inside the model's allowed set, and the model/values obtained afterwards must satisfy the assertions.",
  note="PARTIAL by nature: the theorem covers all schedules of the MODEL; schedules of the real system are sampled, and the atomicity assumptions A1-A4 about terminate()/pipes/queues (listed in the evidence) are OS facts that cannot be proved in Lean.",
  technique="Lean 4 invariant proofs over a labelled transition system (all interleavings) + set-valued correspondence with controlled member processes"),
}

# id -> reason (not claimed)
NOT_YET = "check under construction in this round (DESIGN.md section 10); not claimed until its model, theorems and correspondence run are committed"
ALL = ["C%02d" % i for i in range(1, 21)]


def lean_targets(claimed):
    """modules the claimed checks need built: their Props modules and everything their drivers import"""
    import re
    mods = ["PySMT.Core.DriverLib"]
    for pid in claimed:
        src = open(os.path.join(V, "harness", "props", pid.lower() + ".py")).read()
        m = re.search(r"LEAN_MODULES\s*=\s*\[([^\]]*)\]", src)
        if m:
            mods += re.findall(r'"([^"]+)"', m.group(1))
        for d in re.findall(r'lean_run(?:_sharded)?\(\s*"(\w+)"', src) + [pid]:
            dp = os.path.join(V, "lean", "Drivers", d + ".lean")
            if os.path.exists(dp):
                mods += re.findall(r"^import\s+(PySMT\.[\w.]+)", open(dp).read(), flags=re.M)
    return list(dict.fromkeys(mods))


def main():
    checks = []
    for pid in ALL:
        c = CLAIMED.get(pid)
        if not c:
            continue
        checks.append({
            "property_id": pid,
            "quick_cmd": "./check %s --tier quick" % pid,
            "thorough_cmd": "./check %s --tier thorough" % pid,
            "evidence_file": "evidence/%s.json" % pid,
            "replay_cmd_template": "./check %s --replay {path}" % pid,
            "engine": "lean4-proof+correspondence",
            "level_claimed": {"category": "proof", "text": c["text"], "design_ref": c.get("design", "DESIGN.md section 5 " + pid)},
            "level_note": NOTE + c.get("note", ""),
            "technique": c["technique"],
        })
    man = {
        "version": 1,
        "setup_cmd": "cd lean && lake build " + " ".join(lean_targets([p for p in ALL if p in CLAIMED])),
        "hooks": {
            "guard": "PYSMT_VERIF",
            "enable": "no source hooks are needed: every observation is made from outside (wrapping walker callbacks, registering harness-defined solver classes, logging the SMT-LIB byte stream); PYSMT_VERIF=1 is set by ./check but nothing in /repo reads it",
            "baseline_off_cmd": "cd /repo && /venv/bin/python -m pytest -ra -q -p no:cacheprovider --timeout=900 --continue-on-collection-errors",
            "source_commits": [],
            "add_only": True,
        },
        "engines": [{
            "name": "lean4-proof+correspondence",
            "path": "check",
            "serves_properties": [c["property_id"] for c in checks],
            "kind_free_text": "Lean 4 theorems about a model (lean/PySMT), tied to /repo on every run by a translator (tools/extract.py -> lean/PySMT/Gen) and/or a differential run of the model's executable definitions against the implementation (harness/), with a failing-input search that uses the Lean reference semantics as oracle",
        }],
        "checks": checks,
        "not_applicable": [{"property_id": p, "reason": NOT_YET} for p in ALL if p not in CLAIMED],
        "notes": "See DESIGN.md. ./check CXX [--tier quick|thorough] [--replay file]; VERIF_SEED seeds every random choice; exit 0 = held, 1 = VIOLATION line printed, 2 = infrastructure error.",
    }
    json.dump(man, open(os.path.join(V, "MANIFEST.json"), "w"), indent=1)
    print(len(checks), "checks,", len(man["not_applicable"]), "not claimed")


if __name__ == "__main__":
    main()
